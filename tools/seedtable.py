#!/usr/bin/env python3
"""Prints the markdown table of seeded changes (from seeded/*/meta.json) for DESIGN.md 9.6."""
import glob, json, os
ROOT = os.path.dirname(os.path.dirname(os.path.abspath(__file__)))
print("| Seed | Breaks | Needs, to manifest | Caught by (quick tier) |")
print("|---|---|---|---|")
for f in sorted(glob.glob(os.path.join(ROOT, "seeded", "*", "meta.json"))):
    m = json.load(open(f))
    res = (m.get("checks_on_repo", {}).get("quick") or m.get("checks_on_scratch_copy") or {})
    caught = ["%s (%s)" % (c, ", ".join(k.split("/")[-1] for k in r["keys"][:2])) for c, r in sorted(res.items()) if r["verdict"] == "caught"]
    missed = [c for c, r in sorted(res.items()) if r["verdict"] == "missed"]
    cell = "; ".join(caught) if caught else "**missed**"
    if missed:
        cell += " — not caught by " + ", ".join(missed) + " (not its subject)" if caught else ""
    print("| %s | %s | %s | %s |" % (m["seed"], m["breaks_property"], m.get("needs_to_manifest", "").replace("|", "/"), cell))
