#!/usr/bin/env python3
"""Regenerates /verif/MANIFEST.json from the table below (kept in one place so the
manifest stays consistent with what is built)."""
import json, os
ROOT = os.path.dirname(os.path.dirname(os.path.abspath(__file__)))

CHECKS = {
 "C12": dict(
  technique="property-based testing (rapid) against a float64 reference rectangle",
  text="Randomised exploration: 200k (quick) / 32M (thorough) generated (viewBox, target, alignment, meet|slice) tuples over 12 decades compared with a float64 reference rectangle that is the statement itself; pure function of four numbers, so sampling with boundary classes is the appropriate level.",
  note="Trusts float64 arithmetic as reference; tolerance 32*eps32*max(target,result) calibrated (worst seen 4.6).",
  ref="DESIGN.md §4 C12"),
}
CHECKS.update({
 "C01": dict(
  technique="property-based round-trip and transcoding testing (rapid) with a per-kind numeric oracle; exhaustive zero-to-one grid",
  text="Generated protocol-respecting programs (all 30 methods, every colour kind, every float class, runs across the 16/32 limits, per-path resolution, custom metadata) are encoded and decoded and compared under a numeric rule fixed in DESIGN; decoder-accepted streams in arbitrary spellings (incl. ending inside a path) are transcoded twice. Exploration is the right level: the domain is unbounded programs, the oracle is a round trip.",
  note="Reference parser cross-checks the decoder on the encoder's output; tolerance rule as written in DESIGN §4 C01; one open finding (D10) is excluded by construction and counted.",
  ref="DESIGN.md §4 C01"),
 "C02": dict(
  technique="fuzz-style robustness oracle over corpus truncations/corruptions (enumerated), rapid mutations and hostile constants",
  text="Every truncation point of all 971 corpus graphics, single-byte corruptions (3 per position quick, all 255 thorough), mutated/spliced generated streams and adversarial constants run through five entry points with invariants checked inside the target (no panic, input and sentinel untouched, DecodeError only, agreement, nothing before valid metadata, Reset first, calls<=bytes, <=4 rasteriser calls per call, prefix monotonicity).",
  note="Termination by a 20 s watchdog; rasteriser activity observed with a recording rasteriser; linux/amd64 float->int conversions.",
  ref="DESIGN.md §4 C02"),
 "C03": dict(
  technique="differential testing against an independent reference parser; exhaustive opcode x width sweep; rapid non-canonical streams",
  text="The full 2x256 opcode table with every operand-width combination and every truncation of one spelling per opcode is enumerated; generated streams in arbitrary legal spellings have a constructive oracle (the op list they were assembled from); mutated streams and corpus files are compared with the reference parser for verdict and calls before the error.",
  note="Trusts internal/spec/parse.go as a reading of the specification (it agrees with the decoder on the whole corpus).",
  ref="DESIGN.md §4 C03"),
 "C11": dict(
  technique="property-based testing: the listing is parsed back and compared with Decode's calls",
  text="Generated streams covering every opcode/operand form/colour kind/metadata variant, mutated streams and the corpus: same error value from Decode and Disassemble; byte column reproduces the input; one instruction line per delivered call; printed numbers, colours, selectors, ADJ, repeat counts and arc flags parse back to the delivered values.",
  note="Listing grammar taken from the golden .disassembly files; float text re-read at 32 bits.",
  ref="DESIGN.md §4 C11"),
 "C13": dict(
  technique="property-based testing (rapid) of generated metadata sections with a constructive expectation + reference parser",
  text="Metadata sections with 0-3 chunks in every order, every palette format/count, every viewBox coordinate form, degenerate/inverted/non-finite boxes, lengths off by -3..+3 or huge, counts beyond the data, unknown MIDs; one injected defect per section => DecodeError and zero calls; valid => exact Reset arguments and DecodeViewBox result; DecodeViewBox independent of the instruction section.",
  note="One defect per generated section (two can cancel); reference parser for mutated real metadata.",
  ref="DESIGN.md §4 C13"),
})
NOT_YET = {}

def main():
    props = [json.loads(l) for l in open(os.path.join(ROOT, "properties.jsonl"))]
    checks, na = [], []
    for p in props:
        pid = p["id"]
        if pid in CHECKS and os.path.isdir(os.path.join(ROOT, "props", pid.lower())):
            c = CHECKS[pid]
            checks.append({
                "property_id": pid,
                "quick_cmd": "./check %s --tier quick" % pid,
                "thorough_cmd": "./check %s --tier thorough" % pid,
                "evidence_file": "/verif/evidence/%s.json" % pid,
                "replay_cmd_template": "./check %s --replay {path}" % pid,
                "engine": "rapid+enumerators",
                "level_claimed": {"category": c.get("level", "exploration"), "text": c["text"], "design_ref": c["ref"]},
                "level_note": c["note"],
                "technique": c["technique"],
            })
        else:
            na.append({"property_id": pid, "reason": NOT_YET.get(pid, "check not built yet in this revision of /verif (planned in DESIGN.md §4); nothing is claimed for it")})
    m = {
        "version": 1,
        "setup_cmd": "sh ./setup.sh",
        "hooks": {
            "guard": "verif",
            "enable": "go test -tags verif (the driver passes -tags verif to every build)",
            "baseline_off_cmd": "cd /repo && go test -vet=off -count=1 ./...",
            "source_commits": HOOK_COMMITS,
            "add_only": True,
        },
        "engines": [
            {"name": "rapid+enumerators", "path": "/verif/check", "serves_properties": [c["property_id"] for c in checks],
             "kind_free_text": "python driver building one Go test binary per property (pgregory.net/rapid v1.3.0 properties, bounded-exhaustive enumerators, native go fuzzing in the thorough tier), sharded over processes; oracles are pure checkCase functions replayable from JSON"},
        ],
        "checks": checks,
        "not_applicable": na,
        "notes": "Exit 0 = held on everything explored; 1 = VIOLATION line(s); 2 = inconclusive (build failure, time-out, worker death), never a violation. known_findings.txt lists open/fixed findings.",
    }
    with open(os.path.join(ROOT, "MANIFEST.json"), "w") as f:
        json.dump(m, f, indent=1)
        f.write("\n")

HOOK_COMMITS = []
if __name__ == "__main__":
    main()
