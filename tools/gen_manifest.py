#!/usr/bin/env python3
"""Regenerates /verif/MANIFEST.json from the table below (kept in one place so the
manifest stays consistent with what is built)."""
import json, os
ROOT = os.path.dirname(os.path.dirname(os.path.abspath(__file__)))

CHECKS = {
 "C12": dict(
  technique="property-based testing (rapid) against a float64 reference rectangle",
  text="Randomised exploration: 200k (quick) / 32M (thorough) generated (viewBox, target, alignment, meet|slice) tuples over 12 decades compared with a float64 reference rectangle that is the statement itself; pure function of four numbers, so sampling with boundary classes is the appropriate level.",
  note="Trusts float64 arithmetic as reference; tolerance 32*eps32*max(target,result) calibrated (worst seen 4.6).",
  ref="DESIGN.md §4 C12"),
}
NOT_YET = {}

def main():
    props = [json.loads(l) for l in open(os.path.join(ROOT, "properties.jsonl"))]
    checks, na = [], []
    for p in props:
        pid = p["id"]
        if pid in CHECKS and os.path.isdir(os.path.join(ROOT, "props", pid.lower())):
            c = CHECKS[pid]
            checks.append({
                "property_id": pid,
                "quick_cmd": "./check %s --tier quick" % pid,
                "thorough_cmd": "./check %s --tier thorough" % pid,
                "evidence_file": "/verif/evidence/%s.json" % pid,
                "replay_cmd_template": "./check %s --replay {path}" % pid,
                "engine": "rapid+enumerators",
                "level_claimed": {"category": c.get("level", "exploration"), "text": c["text"], "design_ref": c["ref"]},
                "level_note": c["note"],
                "technique": c["technique"],
            })
        else:
            na.append({"property_id": pid, "reason": NOT_YET.get(pid, "check not built yet in this revision of /verif (planned in DESIGN.md §4); nothing is claimed for it")})
    m = {
        "version": 1,
        "setup_cmd": "sh ./setup.sh",
        "hooks": {
            "guard": "verif",
            "enable": "go test -tags verif (the driver passes -tags verif to every build)",
            "baseline_off_cmd": "cd /repo && go test -vet=off -count=1 ./...",
            "source_commits": HOOK_COMMITS,
            "add_only": True,
        },
        "engines": [
            {"name": "rapid+enumerators", "path": "/verif/check", "serves_properties": [c["property_id"] for c in checks],
             "kind_free_text": "python driver building one Go test binary per property (pgregory.net/rapid v1.3.0 properties, bounded-exhaustive enumerators, native go fuzzing in the thorough tier), sharded over processes; oracles are pure checkCase functions replayable from JSON"},
        ],
        "checks": checks,
        "not_applicable": na,
        "notes": "Exit 0 = held on everything explored; 1 = VIOLATION line(s); 2 = inconclusive (build failure, time-out, worker death), never a violation. known_findings.txt lists open/fixed findings.",
    }
    with open(os.path.join(ROOT, "MANIFEST.json"), "w") as f:
        json.dump(m, f, indent=1)
        f.write("\n")

HOOK_COMMITS = []
if __name__ == "__main__":
    main()
