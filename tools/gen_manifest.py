#!/usr/bin/env python3
"""Regenerates /verif/MANIFEST.json from the table below (kept in one place so the
manifest stays consistent with what is built)."""
import json, os
ROOT = os.path.dirname(os.path.dirname(os.path.abspath(__file__)))

CHECKS = {
 "C12": dict(
  technique="property-based testing (rapid) against a float64 reference rectangle",
  text="Randomised exploration: 200k (quick) / 32M (thorough) generated (viewBox, target, alignment, meet|slice) tuples over 12 decades compared with a float64 reference rectangle that is the statement itself; pure function of four numbers, so sampling with boundary classes is the appropriate level.",
  note="Trusts float64 arithmetic as reference; tolerance 32*eps32*max(target,result) calibrated (worst seen 4.6).",
  ref="DESIGN.md §4 C12"),
}
CHECKS.update({
 "C01": dict(
  technique="property-based round-trip and transcoding testing (rapid) with a per-kind numeric oracle; exhaustive zero-to-one grid",
  text="Generated protocol-respecting programs (all 30 methods, every colour kind, every float class, runs across the 16/32 limits, per-path resolution, custom metadata) are encoded and decoded and compared under a numeric rule fixed in DESIGN; decoder-accepted streams in arbitrary spellings (incl. ending inside a path) are transcoded twice. Exploration is the right level: the domain is unbounded programs, the oracle is a round trip.",
  note="Reference parser cross-checks the decoder on the encoder's output; tolerance rule as written in DESIGN §4 C01; one open finding (D10) is excluded by construction and counted.",
  ref="DESIGN.md §4 C01"),
 "C02": dict(
  technique="fuzz-style robustness oracle over corpus truncations/corruptions (enumerated), rapid mutations and hostile constants",
  text="Every truncation point of all 971 corpus graphics, single-byte corruptions (3 per position quick, all 255 thorough), mutated/spliced generated streams and adversarial constants run through five entry points with invariants checked inside the target (no panic, input and sentinel untouched, DecodeError only, agreement, nothing before valid metadata, Reset first, calls<=bytes, <=4 rasteriser calls per call, prefix monotonicity).",
  note="Termination by a 20 s watchdog; rasteriser activity observed with a recording rasteriser; linux/amd64 float->int conversions.",
  ref="DESIGN.md §4 C02"),
 "C03": dict(
  technique="differential testing against an independent reference parser; exhaustive opcode x width sweep; rapid non-canonical streams",
  text="The full 2x256 opcode table with every operand-width combination and every truncation of one spelling per opcode is enumerated; generated streams in arbitrary legal spellings have a constructive oracle (the op list they were assembled from); mutated streams and corpus files are compared with the reference parser for verdict and calls before the error.",
  note="Trusts internal/spec/parse.go as a reading of the specification (it agrees with the decoder on the whole corpus).",
  ref="DESIGN.md §4 C03"),
 "C11": dict(
  technique="property-based testing: the listing is parsed back and compared with Decode's calls",
  text="Generated streams covering every opcode/operand form/colour kind/metadata variant, mutated streams and the corpus: same error value from Decode and Disassemble; byte column reproduces the input; one instruction line per delivered call; printed numbers, colours, selectors, ADJ, repeat counts and arc flags parse back to the delivered values.",
  note="Listing grammar taken from the golden .disassembly files; float text re-read at 32 bits.",
  ref="DESIGN.md §4 C11"),
 "C13": dict(
  technique="property-based testing (rapid) of generated metadata sections with a constructive expectation + reference parser",
  text="Metadata sections with 0-3 chunks in every order, every palette format/count, every viewBox coordinate form, degenerate/inverted/non-finite boxes, lengths off by -3..+3 or huge, counts beyond the data, unknown MIDs; one injected defect per section => DecodeError and zero calls; valid => exact Reset arguments and DecodeViewBox result; DecodeViewBox independent of the instruction section.",
  note="One defect per generated section (two can cancel); reference parser for mutated real metadata.",
  ref="DESIGN.md §4 C13"),
})
CHECKS.update({
 "C04": dict(
  technique="model-based property testing (rapid): reference register VM vs paint captured at Rasterizer.Draw",
  text="Generated programs biased to register traffic (selector wrap-around, ADJ after increments, blends from registers, gradients at every CBASE/NBASE/NSTOPS with valid or broken stops, LOD pairs at the raster height) are rendered directly and through Encoder+Decode; each path's paint must equal the reference VM's prescription and skipped paths must cause no rasteriser call.",
  note="Reference VM written from the specification; paints snapshotted by value; gradient transform compared to 1e-6.",
  ref="DESIGN.md §4 C04"),
 "C05": dict(
  technique="property-based testing (rapid) of the rasteriser call log against a float64 SVG path-semantics reference; exhaustive 16^3 verb triples",
  text="Verb sequences over the 18 non-arc verbs with steering across the verb-transition matrix, under off-centre/non-square viewBoxes and arbitrary rectangles with non-uniform scale; call kinds and order must equal the reference and every coordinate lie within a calibrated float32 bound.",
  note="Recording rasteriser with x/image/vector pen semantics; tolerance 16*eps32*M*(k+1).",
  ref="DESIGN.md §4 C05"),
 "C06": dict(
  technique="property-based testing (rapid) with a constructive ellipse model and an independent SVG F.6.5 implementation",
  text="Arcs are built from a known ellipse (centre, radii, rotation, start angle, extent) so that the emitted cubics can be checked point by point (on-ellipse, monotone parameter, extent, end points), incl. radii scale-up, zero/negative radii, relative form and non-uniform maps.",
  note="Well-conditioned inputs only, as the property states (moderate magnitudes, distinct end points).",
  ref="DESIGN.md §4 C06"),
 "C07": dict(
  technique="model-based testing (rapid) over action sequences through four pipelines",
  text="Sequences of selector/register writes, read-backs, paths and Generator gradient helpers are driven through Generator->Renderer, Generator->Encoder and both through DestinationLogger; selectors are compared with the specification's machine after every step and the rasteriser log via bytes with the direct one at the end.",
  note="Grid coordinates so geometry must match exactly; gradient numbers to the 30-bit form.",
  ref="DESIGN.md §4 C07"),
 "C08": dict(
  technique="exhaustive enumeration (2^32 floats, 2^30 naturals, all decoder forms) through guarded hooks + rapid on the public paths",
  text="Thorough tier enumerates every float32 bit pattern through the real/coordinate/zero-to-one/angle codecs and the quantiser, every natural below 2^30 and every 4-byte decoder payload; quick tier covers strided patterns plus complete neighbourhoods of every boundary. Public number paths are checked separately by reading the widths back from the bytes.",
  note="Hooks are thin wrappers (tag verif). Zero-to-one minimality is not claimed by the property.",
  ref="DESIGN.md §4 C08", ),
 "C09": dict(
  technique="exhaustive enumeration of colour byte patterns and blend triples against specification tables; rapid palettes",
  text="All 1/2/3-byte colour patterns in every tier and all 2^32 four-byte patterns in the thorough tier are decoded through crafted SetCReg streams and compared with tables written from the spec; every RGBA value goes through Encoder.SetCReg and back; all 2^24 blend triples are resolved in several register contexts against the formula; generated suggested palettes round-trip through Reset.",
  note="Colours compared with == against values built by the public constructors.",
  ref="DESIGN.md §4 C09"),
 "C10": dict(
  technique="bounded-exhaustive enumeration of call histories against a 4-state specification automaton + rapid long histories",
  text="All histories up to depth 5 (quick) / 7 (thorough) over a 12-letter alphabet of call classes, and random histories up to 300 calls, run on a zero-value Encoder and on the automaton: verdict, stickiness, decode-to-history and zero-value equivalence.",
  note="The alphabet abstracts arguments, not call classes.",
  ref="DESIGN.md §4 C10"),
 "C14": dict(
  technique="property-based testing (rapid): option-list model + reference VM on the sanitised palette",
  text="Option lists mixing WithPalette and WithColorAt with every colour model and nonsensical values, on graphics that paint from palette indices directly, in blends, through CREG references and from untouched initial registers; Reset's palette and every path's paint are compared with the model.",
  note="Where sanitising happens is not dictated; only the paint and Reset's valid entries.",
  ref="DESIGN.md §4 C14"),
 "C15": dict(
  technique="property-based testing (rapid) with constructed exact hits and an interval oracle",
  text="Gradients with dyadic matrices let pixels be placed exactly on stop offsets and integers; the reference paint is evaluated with an interval around the offset so discontinuities admit either side; checked at Gradient.At and end to end through the Renderer.",
  note="Tolerance 1+2*slope*delta sixteen-bit units.",
  ref="DESIGN.md §4 C15"),
 "C16": dict(
  technique="metamorphic property-based testing (rapid) on pixels rendered with raster/vec",
  text="Four relations (offset inside a larger image, power-of-two scaling, colour indirection, compositing operator) are checked for exact pixel equality on generated graphics with all verbs, flat and gradient fills, RGBA and Alpha images, rectangles across the 512 px switch.",
  note="Moderate coordinates so that x/image/vector is well behaved.",
  ref="DESIGN.md §4 C16"),
 "C17": dict(
  technique="metamorphic property-based testing (rapid): reused object == fresh object",
  text="Pairs of an arbitrary earlier history (erroneous, cut mid-path, all registers dirtied, mutated raw streams) and a later program relying on defaults: Encoder bytes, recording-rasteriser logs and pixels must equal those of fresh objects.",
  note="Pixel comparison skipped (and counted) when coordinates exceed 20000 px.",
  ref="DESIGN.md §4 C17"),
 "C18": dict(
  technique="randomised concurrent workloads under the Go race detector with serial-result and input-immutability oracles",
  text="2-32 goroutines at GOMAXPROCS 2/4/16 run generated lists of independent pipelines over shared byte slices, a shared palette and the package-level defaults; any race report, result difference or modified shared input is a violation.",
  note="Schedules are sampled, not enumerated; the race detector compensates on executed paths.",
  ref="DESIGN.md §4 C18"),
 "C19": dict(
  technique="property-based testing (rapid): geometry read back from registers and rendered paint; exhaustive selector sweep",
  text="The four helpers with non-degenerate geometry over five decades, stop lists 0-300, every prior selector value reached by plain or wrapping incrementing writes, into Renderer, Encoder or recorder: error rules, selector restoration, register layout, geometry and rendered stops.",
  note="Tolerance 64*eps32*cond; exact pixel scale by construction.",
  ref="DESIGN.md §4 C19"),
 "C20": dict(
  technique="grammar-based property testing (rapid) with the generating structure as oracle",
  text="Path strings are rendered from a structured command list in every separator style each dialect allows; the structure interpreted by the property's rules is the expected op list for SetPathData, ParsePathData, ParsePath and ParseFile (generated SVG files).",
  note="Strings stay inside the dialects exactly as delimited in the property.",
  ref="DESIGN.md §4 C20"),
})
NOT_YET = {}

def main():
    props = [json.loads(l) for l in open(os.path.join(ROOT, "properties.jsonl"))]
    checks, na = [], []
    for p in props:
        pid = p["id"]
        if pid in CHECKS and os.path.isdir(os.path.join(ROOT, "props", pid.lower())):
            c = CHECKS[pid]
            checks.append({
                "property_id": pid,
                "quick_cmd": "./check %s --tier quick" % pid,
                "thorough_cmd": "./check %s --tier thorough" % pid,
                "evidence_file": "/verif/evidence/%s.json" % pid,
                "replay_cmd_template": "./check %s --replay {path}" % pid,
                "engine": "rapid+enumerators",
                "level_claimed": {"category": c.get("level", "exploration"), "text": c["text"], "design_ref": c["ref"]},
                "level_note": c["note"],
                "technique": c["technique"],
            })
        else:
            na.append({"property_id": pid, "reason": NOT_YET.get(pid, "check not built yet in this revision of /verif (planned in DESIGN.md §4); nothing is claimed for it")})
    m = {
        "version": 1,
        "setup_cmd": "sh ./setup.sh",
        "hooks": {
            "guard": "verif",
            "enable": "go test -tags verif (the driver passes -tags verif to every build)",
            "baseline_off_cmd": "cd /repo && go test -vet=off -count=1 ./...",
            "source_commits": HOOK_COMMITS,
            "add_only": True,
        },
        "engines": [
            {"name": "rapid+enumerators", "path": "/verif/check", "serves_properties": [c["property_id"] for c in checks],
             "kind_free_text": "python driver building one Go test binary per property (pgregory.net/rapid v1.3.0 properties, bounded-exhaustive enumerators, native go fuzzing in the thorough tier), sharded over processes; oracles are pure checkCase functions replayable from JSON"},
        ],
        "checks": checks,
        "not_applicable": na,
        "notes": "Exit 0 = held on everything explored; 1 = VIOLATION line(s); 2 = inconclusive (build failure, time-out, worker death), never a violation. known_findings.txt lists open/fixed findings.",
    }
    with open(os.path.join(ROOT, "MANIFEST.json"), "w") as f:
        json.dump(m, f, indent=1)
        f.write("\n")

HOOK_COMMITS = ["c77cf84"]
if __name__ == "__main__":
    main()
