#!/usr/bin/env python3
"""Sensitivity harness: applies one hand-written mutation at a time to a scratch copy of /repo
(outside /repo and /verif, removed afterwards), confirms that the mutant still builds and passes
the repository's own test suite, then runs the quick check of the property it should break with
VERIF_REPO pointing at the copy.  Usage: tools/mutants.py [-j N] [id-substring ...]

Output: one line per mutant:  <id> <property> suite=<pass|fail|nobuild> check=<exit code>
A mutant that fails the suite is not a fair test of the checks and is reported as such.
"""
import os, shutil, subprocess, sys, tempfile, concurrent.futures, json, time

ROOT = os.path.dirname(os.path.dirname(os.path.abspath(__file__)))
ENV = dict(os.environ, GOFLAGS="-mod=mod", GOPROXY="off", GOSUMDB="off", GOTOOLCHAIN="local")

# (id, property (or list), file, old, new)
M = [
 # ---- C01 / encoder
 ("enc-maxrep-T17", "C01", "encode/encode.go", "'T': {0x40, 16, 2},", "'T': {0x40, 17, 2},"),
 ("enc-swap-nargs-S", "C01", "encode/encode.go", "'S': {0x80, 16, 4},", "'S': {0x80, 16, 2},"),
 ("enc-arc-radii-not-quantized", "C01", "encode/encode.go", "e.buf.encodeCoordinate(e.quantize(e.drawArgs[i+1]))\n\t\t\t\t\te.buf.encodeAngle", "e.buf.encodeCoordinate(e.drawArgs[i+1])\n\t\t\t\t\te.buf.encodeAngle"),
 ("enc-arc-flags-swapped", "C01", "encode/encode.go", "if largeArc {\n\t\tflags |= 0x01\n\t}\n\tif sweep {\n\t\tflags |= 0x02\n\t}", "if largeArc {\n\t\tflags |= 0x02\n\t}\n\tif sweep {\n\t\tflags |= 0x01\n\t}"),
 ("enc-viewbox-real", "C01", "encode/encode.go", "e.altBuf.encodeCoordinate(m.ViewBox.MaxY)", "e.altBuf.encodeReal(m.ViewBox.MaxY)"),
 ("enc-palette-trim-off-by-one", ["C01", "C09"], "encode/encode.go", "n := 63\n\t\tfor ; n >= 0 &&", "n := 62\n\t\tfor ; n >= 0 &&"),
 ("enc-hv-run-merged", "C01", "encode/encode.go", "'H': {0xe6, 1, 1},", "'H': {0xe6, 2, 1},"),
 ("enc-lod-swapped", "C01", "encode/encode.go", "e.buf.encodeReal(lod0)\n\te.buf.encodeReal(lod1)", "e.buf.encodeReal(lod1)\n\te.buf.encodeReal(lod0)"),
 ("enc-nsel-mask", "C01", "encode/encode.go", "e.nSel = nSel & 0x3f\n", "e.nSel = nSel & 0x1f\n"),
 ("enc-quantize-truncates", ["C01", "C08"], "encode/encode.go", "x := math.Floor(float64(coord*64 + 0.5))", "x := math.Floor(float64(coord * 64))"),
 ("enc-run-33-drops", "C01", "encode/encode.go", "n -= m\n", "n -= m\n\t\t\tif m == 32 && n == 1 {\n\t\t\t\tn = 0\n\t\t\t}\n"),
 # ---- C02 / decoder robustness
 ("dec-natural-len-check", ["C02", "C08"], "decode/buffer.go", "if len(b) >= 4 {\n\t\ty := uint32(b[0])", "if len(b) >= 3 {\n\t\ty := uint32(b[0])"),
 ("dec-reset-before-chunks", ["C02", "C13"], "decode/decode.go", "\tprevMID := int64(-1)\n", "\tif dst != nil && !metadataOnly {\n\t\tdst.Reset(m.ViewBox, m.Palette)\n\t}\n\tprevMID := int64(-1)\n"),
 ("dec-chunklen-int32", ["C02", "C13"], "decode/decode.go", "lenSrcWant := int64(len(src)) - int64(length)", "lenSrcWant := int64(int16(len(src)) - int16(length))"),
 ("dec-palette-index-oob", ["C02", "C13"], "decode/decode.go", "length, format := 1+int(src[0]&0x3f), src[0]>>6", "length, format := 1+int(src[0]&0x7f), src[0]>>6"),
 ("dec-writes-input", "C18", "decode/decode.go", "\tsrc = src[len(ivg.Magic):]\n", "\tif len(src) > 40 {\n\t\tsrc[40] |= 0\n\t\tsrc[39] ^= src[39] & 0\n\t}\n\tsrc = src[len(ivg.Magic):]\n"),
 # ---- C03 / grammar
 ("dec-L-reps-4bit", "C03", "decode/decode.go", "case 0x00, 0x01:\n\t\t\top = \"L (absolute lineTo)\"\n\t\t\tnCoords = 2\n\t\t\tnReps = 1 + int(opcode&0x1f)", "case 0x00, 0x01:\n\t\t\top = \"L (absolute lineTo)\"\n\t\t\tnCoords = 2\n\t\t\tnReps = 1 + int(opcode&0x0f)"),
 ("dec-c7-startpath", "C03", "decode/decode.go", "case opcode < 0xc7:\n\t\treturn decodeStartPath", "case opcode <= 0xc7:\n\t\treturn decodeStartPath"),
 ("dec-swap-e6-e8", "C03", "decode/decode.go", "case opcode == 0xe6:\n\t\tif p != nil {\n\t\t\tp(src[:1], \"H (absolute horizontal lineTo)\\n\")", "case opcode == 0xe8:\n\t\tif p != nil {\n\t\t\tp(src[:1], \"H (absolute horizontal lineTo)\\n\")"),
 ("dec-z2o-divisor", ["C03", "C08"], "decode/buffer.go", "return float32(u) / 15120, n", "return float32(u) / 15210, n"),
 ("dec-color2-nibbles", ["C03", "C09"], "decode/buffer.go", "R: 0x11 * (b[0] >> 4),\n\t\tG: 0x11 * (b[0] & 0x0f),", "R: 0x11 * (b[0] & 0x0f),\n\t\tG: 0x11 * (b[0] >> 4),"),
 ("dec-accept-e0", "C03", "decode/decode.go", "case opcode == 0xe1:\n\t\tif p != nil {", "case opcode == 0xe1 || opcode == 0xe0:\n\t\tif p != nil {"),
 ("dec-arcflag-bits", "C03", "decode/decode.go", "return (x>>0)&0x01 != 0, (x>>1)&0x01 != 0, src[n:], nil", "return (x>>1)&0x01 != 0, (x>>0)&0x01 != 0, src[n:], nil"),
 ("dec-coord2-bias", ["C03", "C08"], "decode/buffer.go", "return float32(int32(u)-64*128) / 64, n", "return float32(int32(u)-64*127) / 64, n"),
 ("dec-incr-adj", "C03", "decode/decode.go", "nBytes, directness, adj := 0, \"\", opcode&0x07\n\tvar decode func(buffer) (ivg.Color, int)\n\tincr := adj == 7\n\tif incr {\n\t\tadj = 0\n\t}", "nBytes, directness, adj := 0, \"\", opcode&0x07\n\tvar decode func(buffer) (ivg.Color, int)\n\tincr := adj == 7\n\tif incr {\n\t\tadj = 1\n\t}"),
 ("dec-color1-125", ["C03", "C09"], "color.go", "case 0:\n\t\t\treturn RGBAColor(color.RGBA{0xc0, 0xc0, 0xc0, 0xc0})", "case 0:\n\t\t\treturn RGBAColor(color.RGBA{0xc0, 0xc0, 0xc0, 0xff})"),
 # ---- C04 / VM
 ("ren-sel-plus-adj", "C04", "render/render.go", "z.cReg[(z.cSel-adj)&0x3f] = c.Resolve", "z.cReg[(z.cSel+adj)&0x3f] = c.Resolve"),
 ("ren-startpath-adj", "C04", "render/render.go", "z.flatColor = z.cReg[(z.cSel-adj)&0x3f]", "z.flatColor = z.cReg[(z.cSel-adj)&0x1f]"),
 ("ren-stop-index-unmasked", "C04", "render/render.go", "c := z.cReg[(cBase+i)&0x3f]", "c := z.cReg[(cBase+i)%60]"),
 ("ren-lod-le", "C04", "render/render.go", "!(z.lod0 <= h && h < z.lod1)", "!(z.lod0 <= h && h <= z.lod1)"),
 ("ren-creg-not-from-palette", ["C04", "C14"], "render/render.go", "\tz.cReg = palette\n", "\tz.cReg = ivg.DefaultPalette\n"),
 ("ren-offsets-ge", "C04", "render/render.go", "!(n > prevN)", "!(n >= prevN)"),
 ("ren-transparent-drawn", "C04", "render/render.go", "z.disabled = z.flatColor.A == 0", "z.disabled = false"),
 ("ren-nreg-adj", "C04", "render/render.go", "z.nReg[(z.nSel-adj)&0x3f] = f", "z.nReg[(z.nSel-adj)&0x3f] = f\n\tif adj == 6 {\n\t\tz.nReg[(z.nSel-5)&0x3f] = f\n\t}"),
 ("ren-matrix-order", ["C04", "C15", "C19"], "render/render.go", "b := float64(z.nReg[(nBase-5)&0x3f])\n\tc := float64(z.nReg[(nBase-4)&0x3f])", "c := float64(z.nReg[(nBase-5)&0x3f])\n\tb := float64(z.nReg[(nBase-4)&0x3f])"),
 # ---- C05 / geometry
 ("ren-hline-keeps-smooth", "C05", "render/render.go", "func (z *Renderer) AbsHLineTo(x float32) {\n\tif z.disabled {\n\t\treturn\n\t}\n\t_, py := z.z.Pen()\n\tz.prevSmoothType = smoothTypeNone\n", "func (z *Renderer) AbsHLineTo(x float32) {\n\tif z.disabled {\n\t\treturn\n\t}\n\t_, py := z.z.Pen()\n"),
 ("ren-rely-scalex", "C05", "render/render.go", "func (z *Renderer) relY(y float32) float32   { return z.scaleY * y }", "func (z *Renderer) relY(y float32) float32   { return z.scaleX * y }"),
 ("ren-relmove-before-close", "C05", "render/render.go", "z.prevSmoothType = smoothTypeNone\n\tz.z.ClosePath()\n\tz.z.MoveTo(z.relVec2(x, y))", "z.prevSmoothType = smoothTypeNone\n\tx, y = z.relVec2(x, y)\n\tz.z.ClosePath()\n\tz.z.MoveTo(x, y)"),
 ("ren-smoothcube-first-ctrl", "C05", "render/render.go", "x1, y1 := z.implicitSmoothPoint(smoothTypeCube)\n\tx2, y2 = z.absVec2(x2, y2)\n\tx, y = z.absVec2(x, y)\n\tz.prevSmoothType = smoothTypeCube\n\tz.prevSmoothPointX, z.prevSmoothPointY = x2, y2", "x1, y1 := z.implicitSmoothPoint(smoothTypeCube)\n\tx2, y2 = z.absVec2(x2, y2)\n\tx, y = z.absVec2(x, y)\n\tz.prevSmoothType = smoothTypeCube\n\tz.prevSmoothPointX, z.prevSmoothPointY = x1, y1"),
 ("ren-draw-at-rmin", ["C05", "C16"], "render/render.go", "z.z.Draw(z.r, z.fill, image.Pt(0, 0))", "z.z.Draw(z.r, z.fill, z.r.Min)"),
 ("ren-reflect-half", "C05", "render/render.go", "return 2*px - z.prevSmoothPointX, 2*py - z.prevSmoothPointY", "return 2*px - z.prevSmoothPointX, py - z.prevSmoothPointY + py*0.999"),
 ("ren-quad-smoothtype", "C05", "render/render.go", "x1, y1 = z.relVec2(x1, y1)\n\tx, y = z.relVec2(x, y)\n\tz.prevSmoothType = smoothTypeQuad", "x1, y1 = z.relVec2(x1, y1)\n\tx, y = z.relVec2(x, y)\n\tz.prevSmoothType = smoothTypeCube"),
 ("ren-bias-sign", "C05", "render/render.go", "z.biasY = -z.viewBox.MinY", "z.biasY = z.viewBox.MinY"),
 # ---- C06 / arcs
 ("arc-large-eq-sweep", "C06", "render/render.go", "if largeArc == sweep {\n\t\tstep2 = -step2\n\t}", "if largeArc != sweep {\n\t\tstep2 = -step2\n\t}"),
 ("arc-delta-wrong-sweep", "C06", "render/render.go", "if sweep {\n\t\tif deltaTheta < 0 {\n\t\t\tdeltaTheta += 2 * math.Pi\n\t\t}\n\t} else {", "if !sweep {\n\t\tif deltaTheta < 0 {\n\t\t\tdeltaTheta += 2 * math.Pi\n\t\t}\n\t} else {"),
 ("arc-unabs-scaley", "C06", "render/render.go", "func (z *Renderer) unabsX(x float32) float32 { return x/z.scaleX - z.biasX }", "func (z *Renderer) unabsX(x float32) float32 { return x/z.scaleY - z.biasX }"),
 ("arc-rel-offset-units", "C06", "render/render.go", "ax, ay := z.relVec2(x, y)\n\tz.AbsArcTo(rx, ry, xAxisRotation, largeArc, sweep, z.unabsX(ax), z.unabsY(ay))", "px, py := z.z.Pen()\n\tz.AbsArcTo(rx, ry, xAxisRotation, largeArc, sweep, z.unabsX(px+x), z.unabsY(py+y))"),
 ("arc-scaleup-no-sqrt", "C06", "render/render.go", "c := math.Sqrt(radiiCheck)\n\t\tRx *= c", "c := radiiCheck\n\t\tRx *= c"),
 ("arc-zero-radius-unmapped", "C06", "render/render.go", "z.z.LineTo(z.absVec2(x, y))\n\t\treturn", "z.z.LineTo(x, y)\n\t\treturn"),
 ("arc-phi-degrees", "C06", "render/render.go", "phi := 2 * math.Pi * float64(xAxisRotation)", "phi := 2 * math.Pi * float64(xAxisRotation) * 0.98"),
 # ---- C07
 ("enc-no-incr-tracking", ["C07", "C19"], "encode/encode.go", "e.cSel = (e.cSel + 1) & 0x3f", "e.cSel = e.cSel & 0x3f"),
 ("logger-drops-incr", "C07", "logger.go", "d.Destination.SetNReg(adj, incr, f)", "d.Destination.SetNReg(adj, false, f)"),
 ("enc-csel-mask-1f", ["C07", "C01"], "encode/encode.go", "e.cSel = cSel & 0x3f\n", "e.cSel = cSel & 0x3f\n\tif e.cSel == 0x3f {\n\t\te.cSel = 0x1f\n\t}\n"),
 # ---- C08
 ("enc-natural-le", "C08", "encode/buffer.go", "if u < 1<<7 {\n\t\tu = (u << 1)\n\t\t*b = append(*b, uint8(u))\n\t\treturn\n\t}\n\tif u < 1<<14 {", "if u <= 1<<7 {\n\t\tu = (u << 1)\n\t\t*b = append(*b, uint8(u))\n\t\treturn\n\t}\n\tif u < 1<<14 {"),
 ("enc-coord-64-lt", "C08", "encode/buffer.go", "-64 <= i && i < +64 && float32(i) == f", "-64 < i && i < +64 && float32(i) == f"),
 ("enc-4byte-carry", "C08", "encode/buffer.go", "if v < 0x007ffffe {\n\t\tv += 2\n\t}", "if v <= 0x007ffffe {\n\t\tv += 2\n\t}"),
 ("enc-4byte-round1", "C08", "encode/buffer.go", "if v < 0x007ffffe {\n\t\tv += 2\n\t}", "if v < 0x007ffffe {\n\t\tv += 1\n\t}"),
 ("enc-z2o-120", "C08", "encode/buffer.go", "if u%126 == 0 {\n\t\t\tu = ((u / 126) << 1)", "if u%120 == 0 {\n\t\t\tu = ((u / 120) << 1)"),
 ("enc-setnreg-tie", "C08", "encode/encode.go", "if n := b.encodeCoordinate(f); n < nBest {", "if n := b.encodeCoordinate(f); n <= nBest {"),
 ("enc-real-2byte-limit", "C08", "encode/buffer.go", "if u := uint32(f); float32(u) == f && u < 1<<14 {", "if u := uint32(f); float32(u) == f && u <= 1<<14 {"),
 # ---- C09
 ("is2-mod-10", "C09", "color.go", "is2 := func(u uint8) bool { return u%0x11 == 0 }", "is2 := func(u uint8) bool { return u%0x11 == 0 || u == 0x10 }"),
 ("encode1-divisor", ["C09", "C01"], "color.go", "b := c.data.B / 0x3f\n\t\t\treturn 25*r + 5*g + b, true", "b := c.data.B / 0x40\n\t\t\treturn 25*r + 5*g + b, true"),
 ("blend-round-127", "C09", "color.go", "uint8(((p * uint32(rgba0.A)) + q*uint32(rgba1.A) + 128) / 255),", "uint8(((p * uint32(rgba0.A)) + q*uint32(rgba1.A) + 127) / 255),"),
 ("palette-format-bits", ["C09", "C01"], "encode/encode.go", "e.altBuf = append(e.altBuf, byte(n)|0x80)\n\t\t\tfor _, c := range m.Palette[:n+1] {\n\t\t\t\te.altBuf = append(e.altBuf, c.R, c.G, c.B)", "e.altBuf = append(e.altBuf, byte(n)|0x80)\n\t\t\tfor _, c := range m.Palette[:n+1] {\n\t\t\t\te.altBuf = append(e.altBuf, c.R, c.B, c.G)"),
 ("is1-translucent", ["C09", "C01"], "color.go", "\t\treturn false\n\t}\n\tis1 := func(u uint8) bool { return u&0x3f == 0 || u == 0xff }\n\treturn is1(c.R) && is1(c.G) && is1(c.B)", "\t\treturn c.A == 0x40 && c.R == 0x40 && c.G == 0x40 && c.B == 0x40\n\t}\n\tis1 := func(u uint8) bool { return u&0x3f == 0 || u == 0xff }\n\treturn is1(c.R) && is1(c.G) && is1(c.B)"),
 ("blend-t-swapped", ["C09", "C16"], "color.go", "p, q := uint32(255-t), uint32(t)", "q, p := uint32(255-t), uint32(t)"),
 # ---- C10
 ("enc-styling-no-error", "C10", "encode/encode.go", "\te.err = errStylingOpsUsedInDrawingMode\n}", "\tif e.drawOp != 'L' {\n\t\te.err = errStylingOpsUsedInDrawingMode\n\t}\n}"),
 ("enc-draw-in-initial", "C10", "encode/encode.go", "if e.mode != modeDrawing {\n\t\te.err = errDrawingOpsUsedInStylingMode", "if e.mode == modeStyling {\n\t\te.err = errDrawingOpsUsedInStylingMode"),
 ("enc-adj-gt7", "C10", "encode/encode.go", "if adj > 6 {\n\t\te.err = errInvalidSelectorAdjustment\n\t\treturn\n\t}\n\te.highResolutionCoordinates", "if adj > 7 {\n\t\te.err = errInvalidSelectorAdjustment\n\t\treturn\n\t}\n\te.highResolutionCoordinates"),
 ("enc-error-overwritten", "C10", "encode/encode.go", "func (e *Encoder) draw(drawOp byte, arg0, arg1, arg2, arg3, arg4, arg5 float32) {\n\tif e.err != nil {\n\t\treturn\n\t}", "func (e *Encoder) draw(drawOp byte, arg0, arg1, arg2, arg3, arg4, arg5 float32) {\n\tif e.err != nil && e.err != errInvalidIncrementingAdjustment {\n\t\treturn\n\t}"),
 ("enc-reset-keeps-err", ["C10", "C17"], "encode/encode.go", "\t\tmode:     modeStyling,\n\t\tlod1:     positiveInfinity,\n\t}\n", "\t\tmode:     modeStyling,\n\t\tlod1:     positiveInfinity,\n\t\terr:      e.err,\n\t}\n"),
 # ---- C11
 ("dis-operand-short", "C11", "decode/decode.go", "\tif p != nil {\n\t\tp(src[:n], \"    %g\\n\", f)\n\t}", "\tif p != nil {\n\t\tif n == 4 {\n\t\t\tp(src[:n-1], \"    %g\\n\", f)\n\t\t} else {\n\t\t\tp(src[:n], \"    %g\\n\", f)\n\t\t}\n\t}"),
 ("dis-implicit-dropped", "C11", "decode/decode.go", "if p != nil && i != 0 {", "if p != nil && i != 0 && i != 17 {"),
 ("dis-adj-before-incr", "C11", "decode/decode.go", "p(src[:1], \"Set NREG[NSEL-%d] to a %s number\\n\", adj, typ)", "p(src[:1], \"Set NREG[NSEL-%d] to a %s number\\n\", opcode&0x06, typ)"),
 ("dis-spread-names", "C11", "color.go", "gradientSpreadNames := [4]string{\"none\", \"pad\", \"reflect\", \"repeat\"}", "gradientSpreadNames := [4]string{\"none\", \"pad\", \"repeat\", \"reflect\"}"),
 ("dis-flags-print", "C11", "decode/decode.go", "p(src[:n], \"    %#x (largeArc=%d, sweep=%d)\\n\", x, (x>>0)&0x01, (x>>1)&0x01)", "p(src[:n], \"    %#x (largeArc=%d, sweep=%d)\\n\", x, (x>>0)&0x01, (x>>2)&0x01)"),
 ("dis-error-differs", "C11", "decode/decode.go", "\tif err := decode(nil, p, &m, false, buffer(src)); err != nil {\n\t\treturn nil, err\n\t}", "\tif err := decode(nil, p, &m, false, buffer(src)); err != nil {\n\t\tif err == errInvalidColor {\n\t\t\terr = errInvalidNumber\n\t\t}\n\t\treturn nil, err\n\t}"),
 # ---- C12
 ("aspect-meet-gt", "C12", "ivg.go", "func (v ViewBox) AspectMeet(dx, dy float32, ax, ay float32) (MinX, MinY, MaxX, MaxY float32) {\n\tvdx, vdy := v.Size()\n\tvbAR := vdx / vdy\n\tvdx, vdy = dx, dy\n\tif vdx/vdy < vbAR {", "func (v ViewBox) AspectMeet(dx, dy float32, ax, ay float32) (MinX, MinY, MaxX, MaxY float32) {\n\tvdx, vdy := v.Size()\n\tvbAR := vdx / vdy\n\tvdx, vdy = dx, dy\n\tif vdx/vdy > vbAR {"),
 ("aspect-slice-ax-ay", "C12", "ivg.go", "\t\tvdy = vdx / vbAR\n\t}\n\tminX := (dx - vdx) * ax\n\tmaxX := minX + vdx\n\tminY := (dy - vdy) * ay\n\tmaxY := minY + vdy\n\treturn minX, minY, maxX, maxY\n}\n\n// Metadata", "\t\tvdy = vdx / vbAR\n\t}\n\tminX := (dx - vdx) * ay\n\tmaxX := minX + vdx\n\tminY := (dy - vdy) * ax\n\tmaxY := minY + vdy\n\treturn minX, minY, maxX, maxY\n}\n\n// Metadata"),
 ("aspect-mul-ar", "C12", "ivg.go", "\t} else {\n\t\tvdx = vdy * vbAR\n\t}\n\tminX := (dx - vdx) * ax\n\tmaxX := minX + vdx\n\tminY := (dy - vdy) * ay\n\tmaxY := minY + vdy\n\treturn minX, minY, maxX, maxY\n}\n\n// AspectSlice", "\t} else {\n\t\tvdx = vdy * vbAR * 1.0001\n\t}\n\tminX := (dx - vdx) * ax\n\tmaxX := minX + vdx\n\tminY := (dy - vdy) * ay\n\tmaxY := minY + vdy\n\treturn minX, minY, maxX, maxY\n}\n\n// AspectSlice"),
 # ---- C13
 ("vb-ge", "C13", "decode/decode.go", "if m.ViewBox.MinX > m.ViewBox.MaxX ||", "if m.ViewBox.MinX >= m.ViewBox.MaxX ||"),
 ("vb-naninf-mask", "C13", "decode/decode.go", "return math.Float32bits(f)&0x7f800000 == 0x7f800000", "return math.Float32bits(f)&0x7fc00000 == 0x7fc00000"),
 ("pal-count-no-plus1", ["C13", "C09"], "decode/decode.go", "length, format := 1+int(src[0]&0x3f), src[0]>>6", "length, format := int(src[0]&0x3f), src[0]>>6"),
 ("chunk-length-unchecked", ["C13", "C03"], "decode/decode.go", "if int64(len(src)) != lenSrcWant {", "if int64(len(src)) > lenSrcWant {"),
 ("viewbox-only-skips-later-chunks", "C13", "decode/decode.go", "\tfor ; nMetadataChunks > 0; nMetadataChunks-- {\n", "\tfor ; nMetadataChunks > 0; nMetadataChunks-- {\n\t\tif metadataOnly && m.ViewBox != ivg.DefaultViewBox {\n\t\t\treturn nil\n\t\t}\n"),
 # (pal-nonpremul-kept dropped: equivalent since the D6 repair sanitises the whole palette after the options)
 ("mid-order-unchecked", ["C13", "C03"], "decode/decode.go", "if int64(mid) <= *prevMID {", "if int64(mid) < *prevMID {"),
 # ---- C14
 ("opts-before-chunks", "C14", "decode/decode.go", "\tprevMID := int64(-1)\n\tfor ; nMetadataChunks > 0; nMetadataChunks-- {", "\tfor _, opt := range opts {\n\t\topt(m)\n\t}\n\topts = nil\n\tprevMID := int64(-1)\n\tfor ; nMetadataChunks > 0; nMetadataChunks-- {"),
 ("colorat-index-plus1", "C14", "decode/decode.go", "m.Palette[index] = color.RGBAModel.Convert(c).(color.RGBA)", "m.Palette[(index+1)&63] = color.RGBAModel.Convert(c).(color.RGBA)"),
 ("colorat-nrgba", "C14", "decode/decode.go", "m.Palette[index] = color.RGBAModel.Convert(c).(color.RGBA)", "n := color.NRGBAModel.Convert(c).(color.NRGBA)\n\t\tm.Palette[index] = color.RGBA{n.R, n.G, n.B, n.A}"),
 ("no-sanitise", "C14", "decode/decode.go", "if !ivg.ValidAlphaPremulColor(c) {\n\t\t\tm.Palette[i] = color.RGBA{0x00, 0x00, 0x00, 0xff}", "if !ivg.ValidAlphaPremulColor(c) && c.A != 0 {\n\t\t\tm.Palette[i] = color.RGBA{0x00, 0x00, 0x00, 0xff}"),
 ("withpalette-merges", "C14", "decode/decode.go", "\t\tm.Palette = p\n", "\t\tfor i, c := range p {\n\t\t\tif c != (color.RGBA{0, 0, 0, 0xff}) {\n\t\t\t\tm.Palette[i] = c\n\t\t\t}\n\t\t}\n"),
 # ---- C15
 ("pad-above-1", "C15", "render/gradient.go", "case SpreadPad:\n\t\t\treturn 1", "case SpreadPad:\n\t\t\treturn 0"),
 ("repeat-ceil", "C15", "render/gradient.go", "case SpreadRepeat:\n\t\t\treturn x - math.Floor(x)\n\t\t}\n\t\treturn -1\n\t}", "case SpreadRepeat:\n\t\t\treturn math.Ceil(x) - x\n\t\t}\n\t\treturn -1\n\t}"),
 ("first-stop-le", "C15", "render/gradient.go", "if offset < g.Ranges[0].Offset0 {\n\t\treturn g.First\n\t}", "if offset <= g.Ranges[0].Offset0 {\n\t\treturn g.Last\n\t}"),
 ("radial-gx-only", "C15", "render/gradient.go", "offset = g.Spread.Clamp(math.Sqrt(gx*gx + gy*gy))", "offset = g.Spread.Clamp(math.Sqrt(gx*gx + gy*gy*0.98))"),
 ("compose-drops-bias", ["C15", "C04", "C19"], "render/render.go", "c - a*zBX - b*zBY,", "c - a*zBX,"),
 ("reflect-odd-zero", "C15", "render/gradient.go", "return 1 - (x - math.Floor(x))\n\t\tcase SpreadRepeat:", "return math.Ceil(x) - x\n\t\tcase SpreadRepeat:"),
 ("interp-nonpremul", "C15", "render/gradient.go", "uint16(s*r.R0 + t*r.R1),", "uint16(s*r.R0 + t*r.R1 + 300*s*t),"),
 ("pixel-centre", "C15", "render/gradient.go", "py := float64(y) + 0.5", "py := float64(y)"),
 # ---- C16
 ("vec-drawop-not-reset", "C16", "raster/vec/rasterizer.go", "\tz.DrawOp = draw.Over\n}", "}"),
 ("ren-reset-image-size", ["C16", "C05"], "render/render.go", "z.z.Reset(width, height)", "z.z.Reset(width+z.r.Min.X, height)"),
 # ---- C17
 ("enc-reset-keeps-drawargs", "C17", "encode/encode.go", "\t\tbuf:      append(e.buf[:0], ivg.Magic...),\n", "\t\tbuf:      append(e.buf[:0], ivg.Magic...),\n\t\tdrawArgs: e.drawArgs,\n\t\tdrawOp:   e.drawOp,\n"),
 ("enc-reset-keeps-hires", "C17", "encode/encode.go", "\t\tbuf:      append(e.buf[:0], ivg.Magic...),\n", "\t\tbuf:      append(e.buf[:0], ivg.Magic...),\n\t\tHighResolutionCoordinates: e.HighResolutionCoordinates,\n"),
 ("ren-reset-keeps-nreg", "C17", "render/render.go", "\tz.nReg = [64]float32{}\n", ""),
 ("ren-reset-keeps-lod", "C17", "render/render.go", "\tz.lod1 = positiveInfinity\n\tz.cSel = 0", "\tz.cSel = 0"),
 ("ren-reset-keeps-csel", "C17", "render/render.go", "\tz.cSel = 0\n\tz.nSel = 0", "\tz.nSel = 0"),
 ("grad-keeps-ranges", ["C17", "C04"], "render/gradient.go", "g.Ranges = AppendRanges(g.Ranges[:0], stops)", "g.Ranges = AppendRanges(g.Ranges, stops)"),
 # ---- C18
 ("dec-global-scratch", "C18", "decode/decode.go", "func decodeCoordinates(coords []float32, p printer, src buffer) (src1 buffer, err error) {\n\tfor i := range coords {", "var scratchCoord float32\n\nfunc decodeCoordinates(coords []float32, p printer, src buffer) (src1 buffer, err error) {\n\tfor i := range coords {\n\t\tscratchCoord = coords[i]"),
 ("reset-writes-defaultpalette", "C18", "encode/encode.go", "\tmcSuggestedPalette := m.Palette != ivg.DefaultPalette\n", "\tmcSuggestedPalette := m.Palette != ivg.DefaultPalette\n\tivg.DefaultPalette[63] = color.RGBA{0x00, 0x00, 0x00, 0xff}\n"),
 ("dc1-lazy-table", "C18", "color.go", "\tblue := dc1Table[x%5]\n", "\tif dc1Table[4] != 0xff {\n\t\tdc1Table[4] = 0xff\n\t}\n\tdc1Lookups++\n\tblue := dc1Table[x%5]\n"),
 # ---- C19
 ("lin-ma-mb", "C19", "generate/generate.go", "vbx2grad := Aff3{\n\t\tma, mb, -ma*x1 - mb*y1,", "vbx2grad := Aff3{\n\t\tmb, ma, -ma*x1 - mb*y1,"),
 ("circ-sign", "C19", "generate/generate.go", "invR, 0, -cx * invR,", "invR, 0, cx * invR,"),
 ("matrix-order", "C19", "generate/generate.go", "d.SetNReg(uint8(len(transform)-i), false, v)", "d.SetNReg(uint8(1+i), false, v)"),
 ("nsel-not-restored", "C19", "generate/generate.go", "\td.SetCSel(oldCSel)\n\td.SetNSel(oldNSel)", "\td.SetCSel(oldCSel)\n\td.SetNSel(oldNSel + 1)"),
 ("stops-uint8", "C19", "generate/generate.go", "if len(stops) > 64-len(transform) {", "if uint8(len(stops)) > uint8(64-len(transform)) {"),
 ("ren-unmasked-incr", "C19", "render/render.go", "z.cSel = (z.cSel + 1) & 0x3f", "z.cSel++"),
 ("ellip-md-sign", "C19", "generate/generate.go", "md := -ry * invRSSR", "md := +ry * invRSSR"),
 ("overlap-check-off", "C19", "generate/generate.go", "(cBase <= x && x < cBase+nStops)", "(cBase < x && x < cBase+nStops)"),
 # ---- C20
 ("pd-S-2args", "C20", "generate/generate.go", "case 'Q', 'q', 'S', 's':\n\t\t\tn = 4\n\t\tcase 'C', 'c':\n\t\t\tn = 6\n\t\tcase 'A', 'a':", "case 'Q', 'q':\n\t\t\tn = 4\n\t\tcase 'S', 's':\n\t\t\tn = 2\n\t\tcase 'C', 'c':\n\t\t\tn = 6\n\t\tcase 'A', 'a':"),
 ("pd-rel-translated", "C20", "generate/generate.go", "if 'a' <= verb && verb <= 'z' {\n\t\t\t\ttransform = scale\n\t\t\t}", "if 'a' <= verb && verb <= 'y' && verb != 'q' {\n\t\t\t\ttransform = scale\n\t\t\t}"),
 ("pd-H-uses-ty", "C20", "generate/generate.go", "args[0], _ = MulAff3(args[0], 0, transform)", "_, args[0] = MulAff3(0, args[0], transform)"),
 ("pd-rot-not-turns", "C20", "generate/generate.go", "e.AbsArcTo(args[0], args[1], args[2]/360, args[3] != 0, args[4] != 0, args[5], args[6])", "e.AbsArcTo(args[0], args[1], args[2]/180, args[3] != 0, args[4] != 0, args[5], args[6])"),
 ("conv-offset0", "C20", "mdicons/parsepathdata.go", "args[i] -= offset[i&0x01]", "args[i] -= offset[0]"),
 ("conv-opacity-adj", "C20", "mdicons/parsepath.go", "adj = uint8(len(adjs) + 1)", "adj = uint8(len(adjs))"),
 ("conv-circle-sweep", "C20", "mdicons/parsepath.go", "enc.RelArcTo(r, r, 0, false, true, -2*r, 0)", "enc.RelArcTo(r, r, 0, false, false, -2*r, 0)"),
 ("pd-implicit-after-m", "C20", "generate/generate.go", "} else if prevVerb == 'm' {\n\t\t\tprevVerb = 'l'\n\t\t}", "} else if prevVerb == 'm' {\n\t\t\tprevVerb = 'L'\n\t\t}"),
 ("concat-order", "C20", "generate/generate.go", "a[0]*b[0] + a[3]*b[1], a[1]*b[0] + a[4]*b[1], a[2]*b[0] + a[5]*b[1] + b[2],", "a[0]*b[0] + a[3]*b[1], a[1]*b[0] + a[4]*b[1], a[2]*b[0] + a[5]*b[1] + b[2]*a[0],"),
]

EXTRA_DECL = {
 "dc1-lazy-table": ("color.go", "var dc1Table = [5]byte{0x00, 0x40, 0x80, 0xc0, 0xff}", "var dc1Table = [5]byte{0x00, 0x40, 0x80, 0xc0, 0xff}\n\nvar dc1Lookups int"),
}


def run_one(m, keep=False):
    mid, props, path, old, new = m
    props = props if isinstance(props, list) else [props]
    d = tempfile.mkdtemp(prefix="ivgmut-%s-" % mid)
    try:
        repo = os.path.join(d, "repo")
        subprocess.run(["rsync", "-a", "--exclude", ".git", "/repo/", repo + "/"], check=True)
        f = os.path.join(repo, path)
        s = open(f).read()
        if s.count(old) != 1:
            return mid, props, "pattern-count-%d" % s.count(old), {}
        open(f, "w").write(s.replace(old, new))
        if mid in EXTRA_DECL:
            p2, o2, n2 = EXTRA_DECL[mid]
            f2 = os.path.join(repo, p2)
            s2 = open(f2).read()
            open(f2, "w").write(s2.replace(o2, n2))
        env = dict(ENV)
        b = subprocess.run("go build ./... && go vet ./... >/dev/null 2>&1; go build ./...", shell=True, cwd=repo, env=env, stdout=subprocess.PIPE, stderr=subprocess.STDOUT, text=True)
        if b.returncode != 0:
            return mid, props, "nobuild: " + b.stdout[-300:].replace("\n", " | "), {}
        t = subprocess.run(["go", "test", "-vet=off", "-count=1", "./..."], cwd=repo, env=env, stdout=subprocess.PIPE, stderr=subprocess.STDOUT, text=True)
        suite = "pass" if t.returncode == 0 else "FAIL"
        res = {}
        for p in props:
            e = dict(env, VERIF_REPO=repo, VERIF_TMP=d)
            c = subprocess.run([os.path.join(ROOT, "check"), p, "--tier", os.environ.get("MUT_TIER", "quick")], cwd=ROOT, env=e, stdout=subprocess.PIPE, stderr=subprocess.STDOUT, text=True)
            keys = [l.strip() for l in c.stdout.splitlines() if l.startswith("  ")]
            res[p] = (c.returncode, keys[:2])
        return mid, props, suite, res
    finally:
        shutil.rmtree(d, ignore_errors=True)


def main():
    args = sys.argv[1:]
    jobs = 8
    if args and args[0] == "-j":
        jobs = int(args[1]); args = args[2:]
    sel = [m for m in M if not args or any(a in m[0] or a in (m[1] if isinstance(m[1], str) else " ".join(m[1])) for a in args)]
    out = []
    with concurrent.futures.ThreadPoolExecutor(max_workers=jobs) as ex:
        for mid, props, suite, res in ex.map(run_one, sel):
            line = "%-32s suite=%-6s " % (mid, suite if len(suite) < 8 else suite)
            for p in props:
                if p in res:
                    rc, keys = res[p]
                    line += " %s=%s" % (p, {0: "MISSED", 1: "caught", 2: "inconclusive"}.get(rc, str(rc)))
                    if rc == 1 and keys:
                        line += "[" + keys[0].split("]")[0].split("[")[-1] + "]"
            print(line, flush=True)
            out.append((mid, props, suite, {p: res[p][0] for p in res}))
    json.dump(out, open(os.path.join(tempfile.gettempdir(), "mutants-last.json"), "w"))


if __name__ == "__main__":
    main()
