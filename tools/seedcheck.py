#!/usr/bin/env python3
"""Confirms a seeded change and runs the checks against it.

  tools/seedcheck.py confirm <src_dir> <seed_id> <property> <demo_dir_in_repo> [checks...]
      src_dir holds patch.diff, demo_test.go (or other *_test.go), notes.md as written by an
      independent sub-agent. In a scratch copy of /repo (outside /repo and /verif, removed afterwards):
      the patch applies, the library builds and vets, the repository's own suite passes, the
      demonstration fails with the patch and passes without it. On success the seed is stored as
      /verif/seeded/<seed_id>/ (patch.diff, demo file, notes.md, meta.json) and the quick checks
      named (default: the property's own) are run against the copy with VERIF_REPO.

  tools/seedcheck.py run <seed_id> [--tier quick|thorough] [checks...]
      Applies /verif/seeded/<seed_id>/patch.diff to /repo itself (git -C /repo apply), runs the
      checks, and undoes it straight afterwards (git -C /repo checkout -- .), as the brief
      prescribes. Results are appended to meta.json.

  tools/seedcheck.py runall [--tier quick]
  tools/seedcheck.py runmissing [--tier quick]
      runall, restricted to the seeds whose meta.json has no checks_on_repo entry for the tier.

  tools/seedcheck.py try <seed_id> [checks...]
      One seed against a scratch copy, nothing recorded (while strengthening a check).

  tools/seedcheck.py sweep [-j N] [id-prefix...]
      Regression sweep after the checks themselves changed: every seed's patch is applied to its
      own scratch copy (VERIF_REPO, removed afterwards) and the target property's quick check is
      run, N at a time. Prints the seeds no longer caught; meta.json gets "checks_sweep".
"""
import glob, json, os, shutil, subprocess, sys, tempfile, time

ROOT = os.path.dirname(os.path.dirname(os.path.abspath(__file__)))
ENV = dict(os.environ, GOFLAGS="-mod=mod", GOPROXY="off", GOSUMDB="off", GOTOOLCHAIN="local")


def sh(cmd, cwd, env=ENV, timeout=3600):
    p = subprocess.run(cmd, cwd=cwd, env=env, shell=isinstance(cmd, str), stdout=subprocess.PIPE, stderr=subprocess.STDOUT, text=True, timeout=timeout)
    return p.returncode, p.stdout


def run_checks(checks, env, tier="quick"):
    res = {}
    for c in checks:
        rc, out = sh([os.path.join(ROOT, "check"), c, "--tier", tier], ROOT, env)
        keys = [l.strip() for l in out.splitlines() if l.startswith("  ") and "[" in l]
        res[c] = {"exit": rc, "verdict": {0: "missed", 1: "caught", 2: "inconclusive"}.get(rc, str(rc)),
                  "keys": sorted(set(k.split("]")[0].split("[")[-1] for k in keys))}
    return res


def confirm(src, sid, prop, demo_dir, checks):
    old = os.path.join(ROOT, "seeded", sid, "patch.diff")
    if os.path.exists(old) and open(old).read() != open(os.path.join(src, "patch.diff")).read():
        print("REFUSED: seeded/%s already holds another change; pick a new id" % sid); return 1
    d = tempfile.mkdtemp(prefix="ivgseed-%s-" % sid)
    try:
        repo = os.path.join(d, "repo")
        subprocess.run(["rsync", "-a", "--exclude", ".git", os.environ.get("SEED_SRC", "/repo").rstrip("/") + "/", repo + "/"], check=True)
        demos = [f for f in glob.glob(os.path.join(src, "*_test.go"))]
        if not demos:
            print("no demo *_test.go in", src); return 1
        target = os.path.join(repo, demo_dir)
        os.makedirs(target, exist_ok=True)
        names = []
        for f in demos:
            n = "zz_seed_" + os.path.basename(f)
            shutil.copy(f, os.path.join(target, n)); names.append(n)
        pkg = "./" + demo_dir if demo_dir not in (".", "") else "."
        flags = os.environ.get("SEED_DEMO_FLAGS", "").split()
        if os.environ.get("SEED_DEMO_RUN"):
            flags += ["-run", os.environ["SEED_DEMO_RUN"]]
        rc0, out0 = sh(["go", "test", "-vet=off", "-count=1"] + flags + [pkg], repo)
        if rc0 != 0:
            print("REJECT: demonstration does not pass on the unchanged tree\n" + out0[-1500:]); return 1
        rc, out = sh(["git", "apply", "--whitespace=nowarn", os.path.abspath(os.path.join(src, "patch.diff"))], repo)
        if rc != 0:
            print("REJECT: patch does not apply\n" + out); return 1
        rc1, out1 = sh(["go", "test", "-vet=off", "-count=1"] + flags + [pkg], repo)
        if rc1 == 0:
            print("REJECT: demonstration still passes with the change"); return 1
        for n in names:
            os.remove(os.path.join(target, n))
        rcb, outb = sh("go build ./... && go vet ./...", repo)
        if rcb != 0:
            print("REJECT: does not build/vet\n" + outb[-1500:]); return 1
        rcs, outs = sh(["go", "test", "-vet=off", "-count=1", "./..."], repo)
        if rcs != 0:
            print("REJECT: the existing suite fails with the change\n" + outs[-1500:]); return 1
        # also with the hook tag
        rct, outt = sh(["go", "build", "-tags", "verif", "./..."], repo)
        if rct != 0:
            print("REJECT: does not build with -tags verif\n" + outt[-800:]); return 1
        print("CONFIRMED %s: applies, builds, suite green, demo red with / green without" % sid)
        dst = os.path.join(ROOT, "seeded", sid)
        os.makedirs(dst, exist_ok=True)
        shutil.copy(os.path.join(src, "patch.diff"), os.path.join(dst, "patch.diff"))
        for f in demos:
            shutil.copy(f, os.path.join(dst, os.path.basename(f) + ".txt"))  # .txt: not compiled as part of /verif
        if os.path.exists(os.path.join(src, "notes.md")):
            shutil.copy(os.path.join(src, "notes.md"), os.path.join(dst, "notes.md"))
        env = dict(ENV, VERIF_REPO=repo, VERIF_TMP=d)
        res = run_checks(checks or [prop], env)
        meta = {"seed": sid, "breaks_property": prop, "origin": "independent sub-agent given only the property text and a scratch worktree",
                "demo": {"files": [os.path.basename(f) + ".txt" for f in demos], "place_in": demo_dir, "command": "go test -vet=off -count=1 " + " ".join(flags + [pkg]),
                         "fails_with_change": True, "passes_without": True},
                "confirmed": {"applies": True, "builds_and_vets": True, "existing_suite_passes": True, "at_repo_commit": sh(["git", "-C", "/repo", "log", "--format=%h", "-1"], ROOT)[1].strip()},
                "checks_on_scratch_copy": res}
        mp = os.path.join(dst, "meta.json")
        if os.path.exists(mp):
            old = json.load(open(mp))
            for k in ("needs_to_manifest", "checks_on_repo"):
                if k in old:
                    meta[k] = old[k]
        json.dump(meta, open(mp, "w"), indent=1)
        for c, r in res.items():
            print("  %s: %s %s" % (c, r["verdict"], r["keys"]))
        return 0
    finally:
        shutil.rmtree(d, ignore_errors=True)


def run_on_repo(sid, tier, checks):
    dst = os.path.join(ROOT, "seeded", sid)
    meta = json.load(open(os.path.join(dst, "meta.json")))
    st = sh(["git", "-C", "/repo", "status", "--porcelain"], ROOT)[1].strip()
    if st:
        print("refusing: /repo is not clean:\n" + st); return 2
    rc, out = sh(["git", "-C", "/repo", "apply", "--whitespace=nowarn", os.path.join(dst, "patch.diff")], ROOT)
    if rc != 0:
        print("patch does not apply to /repo:\n" + out); return 2
    try:
        res = run_checks(checks or [meta["breaks_property"]], ENV, tier)
    finally:
        sh(["git", "-C", "/repo", "checkout", "--", "."], ROOT)
        sh(["git", "-C", "/repo", "clean", "-fdq"], ROOT)
    meta.setdefault("checks_on_repo", {})[tier] = res
    json.dump(meta, open(os.path.join(dst, "meta.json"), "w"), indent=1)
    for c, r in res.items():
        print("%s %s: %s %s" % (sid, c, r["verdict"], r["keys"]))
    return 0


def main():
    a = sys.argv[1:]
    if not a:
        print(__doc__); return 2
    if a[0] == "confirm":
        return confirm(a[1], a[2], a[3], a[4], a[5:])
    tier = "quick"
    if "--tier" in a:
        i = a.index("--tier"); tier = a[i + 1]; del a[i:i + 2]
    if a[0] == "run":
        return run_on_repo(a[1], tier, a[2:])
    if a[0] == "runall":
        for d in sorted(glob.glob(os.path.join(ROOT, "seeded", "*", "meta.json"))):
            run_on_repo(os.path.basename(os.path.dirname(d)), tier, a[1:])
        return 0
    if a[0] == "runmissing":
        for d in sorted(glob.glob(os.path.join(ROOT, "seeded", "*", "meta.json"))):
            if tier not in json.load(open(d)).get("checks_on_repo", {}):
                run_on_repo(os.path.basename(os.path.dirname(d)), tier, a[1:])
        return 0
    if a[0] == "try":
        sid, res = sweep_one(a[1], a[2:], record=False)
        for c, r in res.items():
            print("%s %s: %s %s" % (sid, c, r.get("verdict"), r.get("keys")))
        return 0
    if a[0] == "sweep":
        j = int(a[a.index("-j") + 1]) if "-j" in a else 4
        only = [x for x in a[1:] if not x.startswith("-") and not x.isdigit()]
        return sweep(j, only)
    print(__doc__); return 2


def sweep_one(sid, only=None, record=True):
    dst = os.path.join(ROOT, "seeded", sid)
    meta = json.load(open(os.path.join(dst, "meta.json")))
    d = tempfile.mkdtemp(prefix="ivgsweep-%s-" % sid)
    try:
        repo = os.path.join(d, "repo")
        subprocess.run(["rsync", "-a", "--exclude", ".git", os.environ.get("SEED_SRC", "/repo").rstrip("/") + "/", repo + "/"], check=True)
        rc, out = sh(["git", "apply", "--whitespace=nowarn", os.path.join(dst, "patch.diff")], repo)
        if rc != 0:
            return sid, {"error": "patch does not apply"}
        prop = meta["breaks_property"]
        checks = [prop]
        prev = meta.get("checks_on_repo", {}).get("quick", {}) or meta.get("checks_on_scratch_copy", {})
        if prev.get(prop, {}).get("verdict") != "caught":
            checks = [c for c, r in prev.items() if r.get("verdict") == "caught"] or [prop]
        res = run_checks(only or checks, dict(ENV, VERIF_REPO=repo, VERIF_TMP=d))
        if record:
            meta["checks_sweep"] = res
            json.dump(meta, open(os.path.join(dst, "meta.json"), "w"), indent=1)
        return sid, res
    finally:
        shutil.rmtree(d, ignore_errors=True)


def sweep(j, only=None):
    from concurrent.futures import ThreadPoolExecutor
    sids = [os.path.basename(os.path.dirname(d)) for d in sorted(glob.glob(os.path.join(ROOT, "seeded", "*", "meta.json")))]
    if only:
        sids = [x for x in sids if any(x.startswith(o) for o in only)]
    bad = []
    with ThreadPoolExecutor(j) as ex:
        for sid, res in ex.map(sweep_one, sids):
            ok = any(r.get("verdict") == "caught" for r in res.values() if isinstance(r, dict))
            print("%s %s" % (sid, " ".join("%s=%s" % (c, r.get("verdict") if isinstance(r, dict) else r) for c, r in res.items())), flush=True)
            if not ok:
                bad.append(sid)
    print("NOT CAUGHT:", bad)
    return 1 if bad else 0


if __name__ == "__main__":
    sys.exit(main())
