#!/opt/veriftools/pyvenv/bin/python
import json, jsonschema, sys, glob, os
ROOT = os.path.dirname(os.path.dirname(os.path.abspath(__file__)))
jsonschema.validate(json.load(open(ROOT + '/MANIFEST.json')), json.load(open('/root/.vp/MANIFEST.schema.json')))
es = json.load(open('/root/.vp/EVIDENCE.schema.json'))
for f in sorted(glob.glob(ROOT + '/evidence/*.json')):
    jsonschema.validate(json.load(open(f)), es)
    print('ok', f)
print('manifest ok')
