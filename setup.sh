#!/bin/sh
# Offline warm-up: compile every property package once so that quick checks only relink.
set -e
cd "$(dirname "$0")"
export GOFLAGS=-mod=mod GOPROXY=off GOSUMDB=off GOTOOLCHAIN=local
mkdir -p .bin evidence replays
go build ./internal/... 
for d in props/*/; do
  id=$(basename "$d")
  extra=""
  [ "$id" = "c18" ] && extra="-race"
  go test -c -tags verif -vet=off $extra -o ".bin/$id.test" "./$d" >/dev/null
done
echo "setup ok"
