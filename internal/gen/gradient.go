package gen

import (
	"image/color"
	"math"
	"sort"

	"pgregory.net/rapid"

	"verif/internal/ops"
	"verif/internal/spec"
)

// GradSetup describes a generated gradient register block.
type GradSetup struct {
	Bits    spec.GradientBits
	Offsets []float32
	Colors  []color.RGBA
	Matrix  [6]float32
	Break   string // "" or how the stops were made invalid
	Reg     uint8  // colour register holding the gradient value
	// ReservedRedBits: the gradient value was written with (some of) the two reserved high bits of
	// its red byte set.
	ReservedRedBits bool
}

// Offsets draws n strictly increasing offsets in [0,1] on exactly
// representable grids.
func Offsets(t *rapid.T, n int, label string) []float32 {
	den := rapid.SampledFrom([]int{120, 64, 256, 15120, 1 << 14}).Draw(t, label+".den")
	if den < n+1 {
		den = 15120
	}
	set := map[int]bool{}
	if rapid.IntRange(0, 2).Draw(t, label+".ends") != 0 {
		set[0], set[den] = true, true
	}
	for len(set) < n {
		set[rapid.IntRange(0, den).Draw(t, label+".k")] = true
	}
	var ks []int
	for k := range set {
		ks = append(ks, k)
	}
	sort.Ints(ks)
	ks = ks[:n]
	out := make([]float32, n)
	for i, k := range ks {
		out[i] = float32(k) / float32(den)
	}
	// float32 division can merge neighbours on the finest grid: enforce strictness
	for i := 1; i < n; i++ {
		if !(out[i] > out[i-1]) {
			out[i] = math.Nextafter32(out[i-1], 2)
		}
	}
	if n >= 2 && rapid.IntRange(0, 5).Draw(t, label+".close") == 0 {
		// two stops next to nothing apart at the very start (a hard step at 0 that is still
		// strictly increasing): 0, then the smallest float32 or some other tiny value
		out[0] = 0
		// (values whose two low mantissa bits are clear: they survive the 4-byte number form, so the
		// two stops stay distinct through an Encoder as well)
		out[1] = math.Float32frombits(rapid.SampledFrom([]uint32{4, math.Float32bits(1e-30) &^ 3, math.Float32bits(1e-10) &^ 3, math.Float32bits(3e-8) &^ 3}).Draw(t, label+".closeby"))
		for i := 2; i < n; i++ {
			if !(out[i] > out[i-1]) {
				out[i] = math.Nextafter32(out[i-1], 2)
			}
		}
	}
	if n > 0 && out[0] == 0 && rapid.IntRange(0, 3).Draw(t, label+".negzero") == 0 {
		out[0] = float32(math.Copysign(0, -1)) // minus zero is zero: a valid first offset
	}
	return out
}

// PremulColor draws a valid premultiplied colour, sometimes transparent.
func PremulColor(t *rapid.T, label string) color.RGBA {
	switch rapid.IntRange(0, 5).Draw(t, label+".class") {
	case 0:
		return color.RGBA{}
	case 1:
		return RGBAOfClass(t, label, RGBAOpaque)
	case 2:
		return RGBAOfClass(t, label, RGBAOneByte)
	default:
		return RGBAOfClass(t, label, RGBAPremul)
	}
}

// GradientBlock draws the styling ops that set up a gradient in the registers
// (stops, matrix, and the gradient value in a colour register), valid or broken
// in one of the listed ways. matrix supplies the six matrix entries.
func GradientBlock(t *rapid.T, matrix func(t *rapid.T, label string) [6]float32, allowBreak bool) ([]ops.Op, GradSetup) {
	var g GradSetup
	g.Bits.CBase = Sel(t, "g.cbase")
	g.Bits.NBase = Sel(t, "g.nbase")
	g.Bits.NStops = uint8(rapid.SampledFrom([]int{2, 2, 3, 3, 4, 5, 8, 17, 58}).Draw(t, "g.nstops"))
	g.Bits.Spread = uint8(rapid.IntRange(0, 3).Draw(t, "g.spread"))
	g.Bits.Radial = rapid.Bool().Draw(t, "g.radial")
	if allowBreak {
		switch rapid.IntRange(0, 11).Draw(t, "g.break") {
		case 0:
			g.Break = "nstops<2"
			g.Bits.NStops = uint8(rapid.IntRange(0, 1).Draw(t, "g.fewstops"))
		case 1:
			g.Break = "non-premultiplied stop colour"
		case 2:
			g.Break = "offset below 0"
		case 3:
			g.Break = "offset above 1"
		case 4:
			g.Break = "offset NaN"
		case 5:
			g.Break = "offsets equal"
		case 6:
			g.Break = "offsets decreasing"
		case 7:
			g.Break = "nstops>58 (stops overlap the matrix)"
			g.Bits.NStops = uint8(rapid.IntRange(59, 63).Draw(t, "g.manystops"))
		}
	}
	n := int(g.Bits.NStops)
	g.Offsets = Offsets(t, n, "g.off")
	for i := 0; i < n; i++ {
		g.Colors = append(g.Colors, PremulColor(t, "g.col"))
	}
	if n > 0 {
		k := rapid.IntRange(0, n-1).Draw(t, "g.breakat")
		switch g.Break {
		case "non-premultiplied stop colour":
			g.Colors[k] = RGBAOfClass(t, "g.bad", rapid.SampledFrom([]int{RGBANonPremul, RGBAGradient}).Draw(t, "g.badclass"))
		case "offset below 0":
			g.Offsets[0] = -float32(rapid.IntRange(1, 100).Draw(t, "g.neg")) / 64
		case "offset above 1":
			g.Offsets[n-1] = 1 + float32(rapid.IntRange(1, 100).Draw(t, "g.pos"))/64
		case "offset NaN":
			g.Offsets[k] = rapid.SampledFrom(NonFinite[2:]).Draw(t, "g.nan")
		case "offsets equal":
			if n >= 2 {
				if k == 0 {
					k = 1
				}
				g.Offsets[k] = g.Offsets[k-1]
			}
		case "offsets decreasing":
			if n >= 2 {
				if k == 0 {
					k = 1
				}
				g.Offsets[k], g.Offsets[k-1] = g.Offsets[k-1], g.Offsets[k]
			}
		}
	}
	g.Matrix = matrix(t, "g.m")
	var out []ops.Op
	// matrix below NBASE; stops from CBASE/NBASE upwards (wrapping modulo 64)
	writeMatrix := func() {
		if rapid.Bool().Draw(t, "g.madj") {
			out = append(out, ops.OpSetNSel(g.Bits.NBase))
			for j := 0; j < 6; j++ {
				out = append(out, ops.OpSetNReg(uint8(6-j), false, g.Matrix[j]))
			}
		} else {
			out = append(out, ops.OpSetNSel((g.Bits.NBase-6)&63))
			for j := 0; j < 6; j++ {
				out = append(out, ops.OpSetNReg(0, true, g.Matrix[j]))
			}
		}
	}
	writeStops := func() {
		out = append(out, ops.OpSetCSel(g.Bits.CBase), ops.OpSetNSel(g.Bits.NBase))
		for i := 0; i < n; i++ {
			out = append(out, ops.OpSetCReg(0, true, ops.RGBAv(g.Colors[i])), ops.OpSetNReg(0, true, g.Offsets[i]))
		}
	}
	if rapid.Bool().Draw(t, "g.order") {
		writeMatrix()
		writeStops()
	} else {
		writeStops()
		writeMatrix() // with > 58 stops the matrix now overwrites stop offsets
	}
	// the gradient value itself, somewhere outside the stop range when possible
	g.Reg = Sel(t, "g.reg")
	if n < 60 {
		for tries := 0; tries < 64 && (g.Reg-g.Bits.CBase)&63 < uint8(n); tries++ {
			g.Reg = (g.Reg + 7) & 63
		}
	}
	adj := Adj(t, "g.adj")
	gv := spec.EncodeGradientBits(g.Bits)
	if rapid.IntRange(0, 4).Draw(t, "g.reserved") == 0 {
		// "The high 2 bits of the red value are reserved": NSTOPS is the low six whatever they hold
		gv.R |= uint8(rapid.IntRange(1, 3).Draw(t, "g.reservedbits")) << 6
		g.ReservedRedBits = true
	}
	out = append(out, ops.OpSetCSel((g.Reg+adj)&63), ops.OpSetCReg(adj, false, ops.RGBAv(gv)))
	return out, g
}

// SimpleMatrix draws finite matrix entries of moderate size.
func SimpleMatrix(t *rapid.T, label string) [6]float32 {
	var m [6]float32
	for i := range m {
		switch rapid.IntRange(0, 3).Draw(t, label+".class") {
		case 0:
			m[i] = 0
		case 1:
			m[i] = float32(rapid.IntRange(-64, 64).Draw(t, label)) / 64
		default:
			m[i] = rapid.Float32Range(-2, 2).Draw(t, label)
		}
	}
	if m[0] == 0 && m[1] == 0 {
		m[0] = 1.0 / 64
	}
	return m
}
