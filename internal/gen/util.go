package gen

import "github.com/reactivego/ivg"

func vbOf(v [4]float32) ivg.ViewBox {
	return ivg.ViewBox{MinX: v[0], MinY: v[1], MaxX: v[2], MaxY: v[3]}
}

// VB converts a [4]float32 to an ivg.ViewBox.
func VB(v [4]float32) ivg.ViewBox { return vbOf(v) }
