package gen

import (
	"image/color"
	"math"

	"pgregory.net/rapid"

	"verif/internal/spec"
)

// MetaExpect is what the specification assigns to a generated metadata section.
type MetaExpect struct {
	Valid   bool
	Defect  string // why it is ill-formed (when !Valid)
	ViewBox [4]float32
	Palette [64]color.RGBA
	Labels  []string
}

// coordAny encodes an arbitrary viewBox coordinate: returns bytes and the
// decoded value. class selects valid-looking or hostile values.
func coordAny(t *rapid.T, label string) ([]byte, float32) {
	raw, v, _ := RawNum(t, spec.Coordinate, label)
	return raw, v
}

// MetaSection draws magic + metadata, well-formed or ill-formed in one of the
// listed ways, and what the specification says about it.
func MetaSection(t *rapid.T) ([]byte, MetaExpect) {
	if rapid.IntRange(0, 15).Draw(t, "meta.maximal") == 0 {
		return maximalMeta(t)
	}
	exp := MetaExpect{Valid: true, ViewBox: [4]float32{-32, -32, 32, 32}}
	for i := range exp.Palette {
		exp.Palette[i] = spec.Black
	}
	bad := func(why string) {
		if exp.Valid {
			exp.Valid = false
			exp.Defect = why
		}
	}
	label := func(l string) { exp.Labels = append(exp.Labels, l) }
	lengthOffOnly := 0 // the only defect so far: an earlier chunk's length is off by this much

	// which chunks, in which order
	order := rapid.SampledFrom([]string{"", "V", "P", "VP", "VP", "VP", "PV", "VV", "PP", "U", "VU", "UV", "VPU", "B"}).Draw(t, "meta.order")
	label("order=" + order)
	var chunks [][]byte
	prev := -1
	for _, ch := range order {
		var body []byte
		mid := 0
		switch ch {
		case 'V':
			mid = 0
			body = spec.EncodeNaturalW(0, rapid.SampledFrom([]int{1, 1, 2, 4}).Draw(t, "midw"))
			var vb [4]float32
			mode := rapid.IntRange(0, 10).Draw(t, "vb.mode")
			switch {
			case mode == 10: // finite and ordered, but so large that max - min overflows float32: valid
				vb = [4]float32{-1, -1, 1, 1}
				huge := func(l string) float32 {
					b := math.Float32bits(float32(math.Ldexp(rapid.Float64Range(1, 1.99).Draw(t, l), rapid.IntRange(120, 127).Draw(t, l+".e")))) &^ 3
					return math.Float32frombits(b)
				}
				k := rapid.IntRange(0, 1).Draw(t, "vb.hugeaxis")
				vb[k], vb[k+2] = -huge("vb.hmin"), huge("vb.hmax")
				if rapid.Bool().Draw(t, "vb.hugeboth") {
					vb[1-k], vb[3-k] = -huge("vb.hmin2"), huge("vb.hmax2")
				}
				for _, v := range vb {
					if v == 1 || v == -1 {
						body = append(body, gridCoord(t, v, "vb.c")...)
					} else {
						body = append(body, spec.EncodeNaturalW(math.Float32bits(v)>>2, 4)...)
					}
				}
				label("viewbox-valid")
				label("viewbox-span-overflows-float32")
			case mode <= 4: // valid, any widths
				for {
					x0 := float32(rapid.IntRange(-150*64, 150*64).Draw(t, "vb.x0")) / 64
					y0 := float32(rapid.IntRange(-150*64, 150*64).Draw(t, "vb.y0")) / 64
					w := float32(rapid.IntRange(0, 64*64).Draw(t, "vb.w")) / 64
					h := float32(rapid.IntRange(0, 64*64).Draw(t, "vb.h")) / 64
					if mode == 0 {
						w = 0 // degenerate: min == max is valid
						label("viewbox-degenerate")
					}
					vb = [4]float32{x0, y0, x0 + w, y0 + h}
					break
				}
				for _, v := range vb {
					body = append(body, gridCoord(t, v, "vb.c")...)
				}
				label("viewbox-valid")
			case mode == 5: // inverted
				x0 := float32(rapid.IntRange(-60, 60).Draw(t, "vb.x0"))
				vb = [4]float32{x0, 0, x0 - float32(rapid.IntRange(1, 64).Draw(t, "vb.inv"))/64, 1}
				if rapid.Bool().Draw(t, "vb.swapaxis") {
					vb = [4]float32{vb[1], vb[0], vb[3], vb[2]}
				}
				for _, v := range vb {
					body = append(body, gridCoord(t, v, "vb.c")...)
				}
				bad("viewBox inverted")
				label("viewbox-inverted")
			case mode == 6: // non-finite member
				vb = [4]float32{-1, -1, 1, 1}
				k := rapid.IntRange(0, 3).Draw(t, "vb.which")
				nf := rapid.SampledFrom(NonFinite).Draw(t, "vb.nf")
				both := rapid.IntRange(0, 2).Draw(t, "vb.bothends") == 0 // both ends of the axis the same non-finite value
				for i, v := range vb {
					if i == k || both && i == (k+2)%4 {
						body = append(body, spec.EncodeNaturalW(math.Float32bits(nf)>>2, 4)...)
					} else {
						body = append(body, gridCoord(t, v, "vb.c")...)
					}
				}
				bad("viewBox not finite")
				label("viewbox-nonfinite")
			default: // arbitrary encoded numbers: the reference decides
				ok := true
				for i := range vb {
					raw, v := coordAny(t, "vb.any")
					body = append(body, raw...)
					vb[i] = v
					if v != v || v-v != 0 {
						ok = false
					}
				}
				if !ok || vb[0] > vb[2] || vb[1] > vb[3] {
					bad("viewBox invalid")
					label("viewbox-arbitrary-invalid")
				} else {
					label("viewbox-arbitrary-valid")
				}
			}
			if exp.Valid || exp.Defect == "" {
				exp.ViewBox = vb
			}
			if exp.Valid {
				exp.ViewBox = vb
			}
		case 'P':
			mid = 1
			body = spec.EncodeNaturalW(1, rapid.SampledFrom([]int{1, 1, 2, 4}).Draw(t, "midw"))
			form := rapid.IntRange(0, 3).Draw(t, "pal.form")
			n := rapid.SampledFrom([]int{1, 1, 2, 3, 5, 17, 32, 63, 64}).Draw(t, "pal.n")
			body = append(body, byte(n-1)|byte(form)<<6)
			for i := 0; i < n; i++ {
				raw, c := RawColor(t, form, "pal.c")
				body = append(body, raw...)
				if exp.Valid {
					if c.T == 0 && spec.Premultiplied(c.RGBA()) {
						exp.Palette[i] = c.RGBA()
					} else {
						exp.Palette[i] = spec.Black
						label("palette-entry-sanitised")
					}
				}
			}
			label("palette-format-" + string(rune('1'+form)))
			if exp.Valid && rapid.IntRange(0, 9).Draw(t, "pal.short") == 0 {
				cut := rapid.IntRange(1, len(body)-1).Draw(t, "pal.cut")
				if cut >= 2 {
					body = body[:cut]
					bad("palette cut short")
					label("palette-cut-short")
				}
			}
		case 'U':
			mid = rapid.SampledFrom([]int{2, 3, 127, 128, 1 << 20, 1<<29 + 5}).Draw(t, "mid.unknown")
			body = spec.EncodeNaturalW(uint32(mid), spec.NaturalWidth(uint32(mid)))
			body = append(body, rapid.SliceOfN(rapid.Byte(), 0, 6).Draw(t, "unknown.body")...)
			bad("unknown MID")
			label("unknown-mid")
		case 'B': // empty chunk body: no MID at all
			mid = 99
			bad("chunk without MID")
			label("empty-chunk")
		}
		if mid <= prev && ch != 'B' {
			bad("MIDs not strictly increasing")
			label("mid-order")
		}
		prev = mid

		// declared length: exact, off by a little, or huge
		declared := len(body)
		lenMode := rapid.IntRange(0, 11).Draw(t, "len.mode")
		if !exp.Valid {
			// one defect per section: two can cancel out. The exception: a wrong length on an
			// earlier chunk cannot be made good by a later chunk, whose own extent is fixed by
			// its content, so a second wrong length (often the opposite amount) is allowed.
			if lengthOffOnly != 0 && lenMode < 6 {
				lenMode = 12
			} else {
				lenMode = 11
			}
		}
		switch lenMode {
		case 12:
			d := rapid.SampledFrom([]int{-lengthOffOnly, -lengthOffOnly, -1, 1, 2}).Draw(t, "len.delta2")
			if declared+d >= 0 {
				declared += d
				label("length-off-on-two-chunks")
				if d == -lengthOffOnly {
					label("length-errors-sum-to-zero")
				}
			}
		case 0:
			d := rapid.SampledFrom([]int{-3, -2, -1, 1, 2, 3}).Draw(t, "len.delta")
			if declared+d >= 0 {
				declared += d
				if exp.Valid {
					lengthOffOnly = d
				}
				bad("chunk length disagrees with content")
				label("length-off")
			}
		case 2:
			// far too small: shorter than the identifier itself can be
			if d := rapid.IntRange(0, 3).Draw(t, "len.tiny"); d != declared {
				declared = d
				bad("chunk length disagrees with content")
				label("length-tiny")
			}
		case 1:
			// far too large, incl. values that equal the true length modulo 2^16 / 2^24
			declared = rapid.SampledFrom([]int{1 << 14, 1<<30 - 1, 1 << 20, len(body) + 1<<16, len(body) + 1<<24, len(body) + 3<<16, len(body) + 1<<29}).Draw(t, "len.huge")
			bad("chunk length past end of input")
			label("length-huge")
		}
		w := spec.NaturalWidth(uint32(declared))
		if rapid.IntRange(0, 3).Draw(t, "len.w") == 0 && w < 4 {
			w = rapid.SampledFrom([]int{2, 4}).Draw(t, "len.w2")
			if w < spec.NaturalWidth(uint32(declared)) {
				w = 4
			}
		}
		chunks = append(chunks, append(spec.EncodeNaturalW(uint32(declared), w), body...))
	}

	count := len(chunks)
	countMode := rapid.IntRange(0, 14).Draw(t, "count.mode")
	if !exp.Valid {
		countMode = 14
	}
	switch countMode {
	case 0:
		count += rapid.SampledFrom([]int{1, 2, 1000, 1<<30 - 1 - len(chunks)}).Draw(t, "count.more")
		bad("more chunks announced than present")
		label("count-too-large")
	}
	out := append([]byte{}, spec.Magic...)
	cw := spec.NaturalWidth(uint32(count))
	if rapid.IntRange(0, 4).Draw(t, "count.w") == 0 && cw < 4 {
		cw = 4
	}
	out = append(out, spec.EncodeNaturalW(uint32(count), cw)...)
	for _, c := range chunks {
		out = append(out, c...)
	}
	if !exp.Valid {
		exp.ViewBox = [4]float32{}
	}
	return out, exp
}

// maximalMeta: a well-formed metadata section about as long as one can be: both chunks, 64
// palette entries of 4 bytes, viewBox coordinates in the 4-byte form and (nearly) every natural
// in a non-minimal 4-byte form (286-297 bytes with the magic identifier).
func maximalMeta(t *rapid.T) ([]byte, MetaExpect) {
	exp := MetaExpect{Valid: true}
	w := func(l string) int { return rapid.SampledFrom([]int{4, 4, 4, 2, 1}).Draw(t, l) }
	nat := func(v uint32, width int) []byte {
		if width < spec.NaturalWidth(v) {
			width = spec.NaturalWidth(v)
		}
		return spec.EncodeNaturalW(v, width)
	}
	vb := [4]float32{float32(rapid.IntRange(-300, 0).Draw(t, "max.x0")), float32(rapid.IntRange(-300, 0).Draw(t, "max.y0")), float32(rapid.IntRange(1, 300).Draw(t, "max.x1")), float32(rapid.IntRange(1, 300).Draw(t, "max.y1"))}
	exp.ViewBox = vb
	body := nat(0, w("max.mid0"))
	for _, v := range vb {
		body = append(body, spec.EncodeNaturalW(math.Float32bits(v)>>2, 4)...)
	}
	chunkV := append(nat(uint32(len(body)), w("max.len0")), body...)
	body = nat(1, w("max.mid1"))
	body = append(body, 0xff) // 64 entries, 4 bytes each
	for i := 0; i < 64; i++ {
		c := ValidRGBA(t, "max.c")
		exp.Palette[i] = c
		body = append(body, c.R, c.G, c.B, c.A)
	}
	chunkP := append(nat(uint32(len(body)), w("max.len1")), body...)
	out := append([]byte{}, spec.Magic...)
	out = append(out, nat(2, w("max.count"))...)
	out = append(out, chunkV...)
	out = append(out, chunkP...)
	exp.Labels = []string{"order=VP", "viewbox-valid", "palette-format-4", "metadata-in-its-longest-forms"}
	return out, exp
}
