package gen

import (
	"image/color"
	"math"

	"pgregory.net/rapid"

	"verif/internal/ops"
	"verif/internal/spec"
)

// RawNum draws an encoded number of the given kind in any width, together with
// the value the specification assigns to it.
func RawNum(t *rapid.T, k spec.NumKind, label string) (raw []byte, v float32, payload uint32) {
	w := rapid.SampledFrom([]int{1, 1, 1, 2, 2, 4, 4}).Draw(t, label+".w")
	var u uint32
	switch w {
	case 1:
		if rapid.Bool().Draw(t, label+".edge") {
			u = rapid.SampledFrom([]uint32{0, 1, 63, 64, 65, 119, 120, 126, 127}).Draw(t, label)
		} else {
			u = rapid.Uint32Range(0, 127).Draw(t, label)
		}
	case 2:
		switch rapid.IntRange(0, 2).Draw(t, label+".class") {
		case 0:
			u = rapid.SampledFrom([]uint32{0, 1, 127, 128, 8191, 8192, 8193, 8192 + 64, 8192 - 64, 15119, 15120, 16383, 126, 252}).Draw(t, label)
		case 1:
			u = rapid.Uint32Range(0, 127).Draw(t, label) // non-canonical for naturals/reals
		default:
			u = rapid.Uint32Range(0, 16383).Draw(t, label)
		}
	default:
		if k == spec.Natural {
			switch rapid.IntRange(0, 2).Draw(t, label+".class") {
			case 0:
				u = rapid.Uint32Range(0, 3).Draw(t, label)
			case 1:
				u = rapid.Uint32Range(0, 1<<30-1).Draw(t, label)
			default:
				u = rapid.SampledFrom([]uint32{1 << 14, 1<<30 - 1, 1<<30 - 2, 0x3ffffffd, 4, 5, 6, 7, 0x20000001, 0x20000002}).Draw(t, label)
			}
		} else {
			var f float32
			switch rapid.IntRange(0, 5).Draw(t, label+".class") {
			case 0:
				f = float32(rapid.IntRange(-70, 130).Draw(t, label)) // non-canonical
			case 1:
				f = float32(rapid.IntRange(-130*64, 130*64).Draw(t, label)) / 64
			case 2:
				f = rapid.SampledFrom(NonFinite).Draw(t, label)
			case 3:
				f = rapid.SampledFrom(Boundary).Draw(t, label)
			case 4:
				f = rapid.Float32Range(-300, 300).Draw(t, label)
			default:
				f = bits(rapid.Uint32().Draw(t, label))
			}
			u = math.Float32bits(f) >> 2
		}
	}
	return spec.EncodeNaturalW(u, w), spec.Value(k, u, w), u
}

// RawColor draws the bytes of a colour in the given form and its meaning.
func RawColor(t *rapid.T, form int, label string) ([]byte, ops.ColorV) {
	n := spec.ColorFormLen[form]
	b := make([]byte, n)
	if form == 3 && rapid.IntRange(0, 2).Draw(t, label+".grad") == 0 {
		c := RGBAOfClass(t, label, rapid.SampledFrom([]int{RGBAGradient, RGBANonPremul, RGBAPremul}).Draw(t, label+".cl"))
		b[0], b[1], b[2], b[3] = c.R, c.G, c.B, c.A
	} else {
		for i := range b {
			if rapid.IntRange(0, 3).Draw(t, label+".edge") == 0 {
				b[i] = rapid.SampledFrom([]byte{0, 0x7c, 0x7d, 0x7e, 0x7f, 0x80, 0xbf, 0xc0, 0xff, 0x0f, 0xf0}).Draw(t, label)
			} else {
				b[i] = rapid.Byte().Draw(t, label)
			}
		}
	}
	c, _ := spec.DecodeColor(form, b)
	return b, c
}

// MetaInfo describes a generated metadata section.
type MetaInfo struct {
	ViewBox    [4]float32
	Palette    [64]color.RGBA
	HasViewBox bool
	HasPalette bool
}

func chunk(body []byte, t *rapid.T, label string) []byte {
	// the length may itself be written in a longer-than-necessary form
	w := spec.NaturalWidth(uint32(len(body)))
	if rapid.IntRange(0, 3).Draw(t, label+".lenw") == 0 {
		w = rapid.SampledFrom([]int{2, 4}).Draw(t, label+".lenw2")
		if w < spec.NaturalWidth(uint32(len(body))) {
			w = 4
		}
	}
	return append(spec.EncodeNaturalW(uint32(len(body)), w), body...)
}

// gridNum encodes a grid value v (integer or multiple of 1/64, |v| small) as a
// coordinate in a randomly chosen sufficient width.
func gridCoord(t *rapid.T, v float32, label string) []byte {
	min, _ := spec.ExactWidth(spec.Coordinate, v)
	ws := []int{1, 2, 4}
	var ok []int
	for _, w := range ws {
		if w >= min {
			ok = append(ok, w)
		}
	}
	w := rapid.SampledFrom(ok).Draw(t, label+".w")
	switch w {
	case 1:
		return spec.EncodeNaturalW(uint32(int32(v)+64), 1)
	case 2:
		return spec.EncodeNaturalW(uint32(int32(v*64)+64*128), 2)
	}
	return spec.EncodeNaturalW(math.Float32bits(v)>>2, 4)
}

// ValidMeta draws a well-formed metadata section (magic included).
func ValidMeta(t *rapid.T) ([]byte, MetaInfo) {
	info := MetaInfo{ViewBox: [4]float32{-32, -32, 32, 32}}
	for i := range info.Palette {
		info.Palette[i] = spec.Black
	}
	out := append([]byte{}, spec.Magic...)
	var chunks [][]byte
	if rapid.IntRange(0, 2).Draw(t, "meta.vb") != 0 {
		info.HasViewBox = true
		var vb [4]float32
		switch rapid.IntRange(0, 3).Draw(t, "meta.vbclass") {
		case 0:
			vb = [4]float32{-24, -24, 24, 24}
		case 1:
			x0 := float32(rapid.IntRange(-128*64, 127*64).Draw(t, "vb.x0")) / 64
			y0 := float32(rapid.IntRange(-128*64, 127*64).Draw(t, "vb.y0")) / 64
			x1 := x0 + float32(rapid.IntRange(0, 64*64).Draw(t, "vb.w"))/64
			y1 := y0 + float32(rapid.IntRange(0, 64*64).Draw(t, "vb.h"))/64
			vb = [4]float32{x0, y0, x1, y1}
		case 2:
			x0 := float32(rapid.IntRange(-1000, 1000).Draw(t, "vb.x0"))
			y0 := float32(rapid.IntRange(-1000, 1000).Draw(t, "vb.y0"))
			vb = [4]float32{x0, y0, x0 + float32(rapid.IntRange(0, 2000).Draw(t, "vb.w")), y0 + float32(rapid.IntRange(0, 2000).Draw(t, "vb.h"))}
		default:
			vb = [4]float32{0, 0, 48, 48}
		}
		body := spec.EncodeNaturalW(0, rapid.SampledFrom([]int{1, 1, 2, 4}).Draw(t, "meta.midw"))
		for i, v := range vb {
			body = append(body, gridCoord(t, v, "vb")...)
			info.ViewBox[i] = v
		}
		chunks = append(chunks, chunk(body, t, "meta.vbchunk"))
	}
	if rapid.IntRange(0, 2).Draw(t, "meta.pal") != 0 {
		info.HasPalette = true
		form := rapid.IntRange(0, 3).Draw(t, "pal.form")
		n := rapid.SampledFrom([]int{1, 1, 2, 3, 5, 17, 63, 64}).Draw(t, "pal.n")
		body := spec.EncodeNaturalW(1, rapid.SampledFrom([]int{1, 1, 2, 4}).Draw(t, "meta.midw"))
		body = append(body, byte(n-1)|byte(form)<<6)
		for i := 0; i < n; i++ {
			raw, c := RawColor(t, form, "pal.c")
			body = append(body, raw...)
			if c.T == 0 && spec.Premultiplied(c.RGBA()) {
				info.Palette[i] = c.RGBA()
			} else {
				info.Palette[i] = spec.Black
			}
		}
		chunks = append(chunks, chunk(body, t, "meta.palchunk"))
	}
	nw := 1
	if rapid.IntRange(0, 4).Draw(t, "meta.nw") == 0 {
		nw = rapid.SampledFrom([]int{2, 4}).Draw(t, "meta.nw2")
	}
	out = append(out, spec.EncodeNaturalW(uint32(len(chunks)), nw)...)
	for _, c := range chunks {
		out = append(out, c...)
	}
	return out, info
}

// StreamCfg shapes Stream.
type StreamCfg struct {
	MaxBlocks   int
	MaxRun      int
	DefaultMeta bool // magic + 0 chunks only
	AllowOpen   bool // may end inside a path (the decoder accepts that)
}

type drawSpec struct {
	k    ops.Kind
	base byte
	max  int
}

var drawSpecs = func() []drawSpec {
	var out []drawSpec
	for _, k := range DrawVerbs {
		b, m := spec.DrawOpcode(k)
		out = append(out, drawSpec{k, b, m})
	}
	return out
}()

// Instructions appends a well-formed instruction section in arbitrary
// spellings and returns the calls it spells.
func Instructions(t *rapid.T, cfg StreamCfg) (out []byte, want []ops.Op, open bool) {
	if cfg.MaxBlocks == 0 {
		cfg.MaxBlocks = 3
	}
	if cfg.MaxRun == 0 {
		cfg.MaxRun = 70
	}
	nb := rapid.IntRange(0, cfg.MaxBlocks).Draw(t, "blocks")
	for b := 0; b < nb; b++ {
		ns := rapid.IntRange(0, 5).Draw(t, "nstyling")
		for i := 0; i < ns; i++ {
			switch rapid.IntRange(0, 9).Draw(t, "sty.kind") {
			case 0:
				s := Sel(t, "csel")
				out = append(out, s)
				want = append(want, ops.OpSetCSel(s))
			case 1:
				s := Sel(t, "nsel")
				out = append(out, 0x40|s)
				want = append(want, ops.OpSetNSel(s))
			case 2, 3, 4:
				form := rapid.IntRange(0, 4).Draw(t, "creg.form")
				adj := uint8(rapid.IntRange(0, 7).Draw(t, "creg.adj"))
				out = append(out, 0x80+byte(form)*8+adj)
				raw, c := RawColor(t, form, "creg.c")
				out = append(out, raw...)
				if adj == 7 {
					want = append(want, ops.OpSetCReg(0, true, c))
				} else {
					want = append(want, ops.OpSetCReg(adj, false, c))
				}
			case 5, 6, 7:
				kind := rapid.IntRange(0, 2).Draw(t, "nreg.kind")
				adj := uint8(rapid.IntRange(0, 7).Draw(t, "nreg.adj"))
				out = append(out, 0xa8+byte(kind)*8+adj)
				raw, v, _ := RawNum(t, [3]spec.NumKind{spec.Real, spec.Coordinate, spec.ZeroToOne}[kind], "nreg.f")
				out = append(out, raw...)
				if adj == 7 {
					want = append(want, ops.OpSetNReg(0, true, v))
				} else {
					want = append(want, ops.OpSetNReg(adj, false, v))
				}
			default:
				out = append(out, 0xc7)
				r0, v0, _ := RawNum(t, spec.Real, "lod0")
				r1, v1, _ := RawNum(t, spec.Real, "lod1")
				out = append(append(out, r0...), r1...)
				want = append(want, ops.OpSetLOD(v0, v1))
			}
		}
		if rapid.IntRange(0, 5).Draw(t, "nopath") == 0 {
			continue
		}
		adj := uint8(rapid.IntRange(0, 6).Draw(t, "sp.adj"))
		out = append(out, 0xc0+adj)
		rx, x, _ := RawNum(t, spec.Coordinate, "sp.x")
		ry, y, _ := RawNum(t, spec.Coordinate, "sp.y")
		out = append(append(out, rx...), ry...)
		want = append(want, ops.OpStartPath(adj, x, y))
		nv := rapid.IntRange(0, 6).Draw(t, "nverbs")
		for v := 0; v < nv; v++ {
			ds := rapid.SampledFrom(drawSpecs).Draw(t, "verb")
			total := runLen(t, "run", cfg.MaxRun)
			for total > 0 {
				// any split of the run into repeat groups is a legal spelling
				g := total
				if g > ds.max {
					g = ds.max
				}
				if g > 1 && rapid.IntRange(0, 2).Draw(t, "split") == 0 {
					g = rapid.IntRange(1, g).Draw(t, "group")
				}
				out = append(out, ds.base+byte(g-1))
				for i := 0; i < g; i++ {
					if ds.k == ops.AbsArcTo || ds.k == ops.RelArcTo {
						r0, rxv, _ := RawNum(t, spec.Coordinate, "arc.rx")
						r1, ryv, _ := RawNum(t, spec.Coordinate, "arc.ry")
						r2, rot, _ := RawNum(t, spec.ZeroToOne, "arc.rot")
						r3, _, flags := RawNum(t, spec.Natural, "arc.flags")
						r4, xv, _ := RawNum(t, spec.Coordinate, "arc.x")
						r5, yv, _ := RawNum(t, spec.Coordinate, "arc.y")
						for _, r := range [][]byte{r0, r1, r2, r3, r4, r5} {
							out = append(out, r...)
						}
						want = append(want, ops.OpArc(ds.k, rxv, ryv, rot, flags&1 != 0, flags&2 != 0, xv, yv))
						continue
					}
					n := ds.k.NArgs()
					args := make([]float32, n)
					for j := 0; j < n; j++ {
						r, val, _ := RawNum(t, spec.Coordinate, "d")
						out = append(out, r...)
						args[j] = val
					}
					want = append(want, ops.OpDraw(ds.k, args...))
				}
				total -= g
			}
		}
		if cfg.AllowOpen && b == nb-1 && rapid.IntRange(0, 4).Draw(t, "open") == 0 {
			open = true
			break
		}
		out = append(out, 0xe1)
		want = append(want, ops.OpDraw(ops.ClosePathEndPath))
	}
	return out, want, open
}

// Stream draws a complete well-formed graphic in arbitrary spellings and the
// call sequence (Reset first) the specification assigns to it.
func Stream(t *rapid.T, cfg StreamCfg) (b []byte, want []ops.Op, open bool) {
	var info MetaInfo
	if cfg.DefaultMeta {
		b = append(append([]byte{}, spec.Magic...), 0)
		info.ViewBox = [4]float32{-32, -32, 32, 32}
		for i := range info.Palette {
			info.Palette[i] = spec.Black
		}
	} else {
		b, info = ValidMeta(t)
	}
	ins, w, open := Instructions(t, cfg)
	b = append(b, ins...)
	vb := info.ViewBox
	want = append([]ops.Op{ops.OpReset(vbOf(vb), info.Palette)}, w...)
	return b, want, open
}

// Hostile byte strings: adversarial counts and lengths.
var Hostile = [][]byte{
	{},
	{0x89},
	{0x89, 'I', 'V', 'G'},
	{0x89, 'I', 'V', 'G', 0x00},
	{0x89, 'I', 'V', 'G', 0xff, 0xff, 0xff, 0xff},                                                             // 2^30-1 chunks, no data
	{0x89, 'I', 'V', 'G', 0x02, 0xff, 0xff, 0xff, 0xff},                                                       // chunk length 2^30-1
	{0x89, 'I', 'V', 'G', 0x02, 0xff, 0xff, 0xff, 0xff, 0x00},                                                 // idem + MID
	{0x89, 'I', 'V', 'G', 0x02, 0x17, 0x00, 0x04, 0x00, 0x00, 0x50, 0x50, 0xb0, 0xb0, 0xc0, 0x80, 0x80, 0xe1}, // viewBox chunk, declared length 5 + 2^16
	{0x89, 'I', 'V', 'G', 0x02, 0x17, 0x00, 0x00, 0x04, 0x00, 0x50, 0x50, 0xb0, 0xb0},                         // idem, 5 + 2^24
	{0x89, 'I', 'V', 'G', 0x02, 0x04, 0x02, 0x3f},                                                             // palette N=63, no colours
	{0x89, 'I', 'V', 'G', 0x02, 0x04, 0x02, 0xff},                                                             // palette N=63, 4 bytes, no colours
	{0x89, 'I', 'V', 'G', 0x02, 0x02, 0x04},                                                                   // unknown MID 2
	{0x89, 'I', 'V', 'G', 0x02, 0x08, 0xff, 0xff, 0xff, 0xff},                                                 // unknown MID 2^30-1
	{0x89, 'I', 'V', 'G', 0x00, 0xc0, 0x80, 0x80, 0xff},                                                       // reserved drawing opcode
	{0x89, 'I', 'V', 'G', 0x00, 0xc8},                                                                         // reserved styling opcode
	{0x89, 'I', 'V', 'G', 0x00, 0xc0, 0x80, 0x80, 0xe0},                                                       // reserved 0xe0
	{0x89, 'I', 'V', 'G', 0x00, 0xc0, 0x80, 0x80, 0x1f},                                                       // 32 line-tos, no data
	{0x89, 'I', 'V', 'G', 0x00, 0xc0, 0x80, 0x80, 0xcf, 0x80},                                                 // 16 arcs, cut short
	{0x89, 'I', 'V', 'G', 0x00, 0xc7, 0x03, 0x00, 0x80, 0x7f, 0x03},                                           // LOD +Inf, cut short
	{0x89, 'I', 'V', 'G', 0x00, 0xc0, 0x03, 0x00, 0x80, 0x7f, 0x03, 0x00, 0xc0, 0x7f, 0xc0, 0x03, 0x00, 0x80, 0xff, 0x03, 0x00, 0xc0, 0xff, 0x08, 0x06, 0x80, 0x80, 0xe1},
}

func init() {
	// declared chunk lengths 0..3 with the identifier in every width
	for l := 0; l <= 3; l++ {
		for _, mid := range [][]byte{{0x00}, {0x01, 0x00}, {0x03, 0x00, 0x00, 0x00}, {0x02}, {0x05, 0x00}, {0x07, 0x00, 0x00, 0x00}} {
			b := append([]byte{0x89, 'I', 'V', 'G', 0x02, byte(l) << 1}, mid...)
			Hostile = append(Hostile, append(b, 0x50, 0x50, 0xb0, 0xb0, 0xc0, 0x80, 0x80, 0xe1))
		}
	}
}

func init() {
	// two metadata chunks whose declared lengths are both wrong, by every pair of small amounts
	// (also pairs that sum to zero, so that the metadata as a whole ends where it should)
	for d1 := -3; d1 <= 3; d1++ {
		for d2 := -3; d2 <= 3; d2++ {
			if d1 == 0 && d2 == 0 {
				continue
			}
			Hostile = append(Hostile, []byte{0x89, 'I', 'V', 'G', 0x04,
				byte(5+d1) << 1, 0x00, 0x50, 0x50, 0xb0, 0xb0,
				byte(5+d2) << 1, 0x02, 0x80, 0x12, 0x34, 0x56,
				0xc0, 0x70, 0x70, 0x01, 0x90, 0x70, 0x80, 0x90, 0xe1})
		}
	}
}

func init() {
	// viewBox chunks with a non-finite member (4-byte form) in every position, alone and at both
	// ends of its axis; the other members are -1,-1,1,1 in the one-byte form
	for _, nf := range NonFinite {
		num := spec.EncodeNaturalW(math.Float32bits(nf)>>2, 4)
		for k := 0; k < 4; k++ {
			for _, both := range []bool{false, true} {
				var body []byte
				for i, one := range []byte{0x7e, 0x7e, 0x82, 0x82} {
					if i == k || both && i == (k+2)%4 {
						body = append(body, num...)
					} else {
						body = append(body, one)
					}
				}
				b := append([]byte{0x89, 'I', 'V', 'G', 0x02, byte(1+len(body)) << 1, 0x00}, body...)
				Hostile = append(Hostile, append(b, 0xc0, 0x80, 0x80, 0x01, 0x90, 0x70, 0x80, 0x90, 0xe1))
			}
		}
	}
}

// Mutate draws a mutation of b (other provides material for splices).
func Mutate(t *rapid.T, b, other []byte) []byte {
	out := append([]byte{}, b...)
	n := rapid.IntRange(1, 3).Draw(t, "mut.n")
	for i := 0; i < n; i++ {
		if len(out) == 0 {
			out = append(out, rapid.Byte().Draw(t, "mut.byte"))
			continue
		}
		pos := rapid.IntRange(0, len(out)-1).Draw(t, "mut.pos")
		switch rapid.IntRange(0, 7).Draw(t, "mut.kind") {
		case 0: // truncate
			out = out[:pos]
		case 1: // flip a bit
			out[pos] ^= 1 << uint(rapid.IntRange(0, 7).Draw(t, "mut.bit"))
		case 2: // overwrite
			out[pos] = rapid.Byte().Draw(t, "mut.byte")
		case 3: // insert
			ins := rapid.SliceOfN(rapid.Byte(), 1, 4).Draw(t, "mut.ins")
			out = append(out[:pos], append(ins, out[pos:]...)...)
		case 4: // delete a range
			end := pos + rapid.IntRange(1, 6).Draw(t, "mut.len")
			if end > len(out) {
				end = len(out)
			}
			out = append(out[:pos], out[end:]...)
		case 5: // splice: head of this, tail of other
			if len(other) > 0 {
				q := rapid.IntRange(0, len(other)-1).Draw(t, "mut.q")
				out = append(out[:pos], other[q:]...)
			}
		case 6: // duplicate a range
			end := pos + rapid.IntRange(1, 8).Draw(t, "mut.len")
			if end > len(out) {
				end = len(out)
			}
			dup := append([]byte{}, out[pos:end]...)
			out = append(out[:end], append(dup, out[end:]...)...)
		default: // interesting byte
			out[pos] = rapid.SampledFrom([]byte{0x00, 0x01, 0x03, 0x7f, 0x80, 0xc0, 0xc7, 0xe0, 0xe1, 0xe2, 0xe3, 0xe6, 0xff}).Draw(t, "mut.ib")
		}
	}
	return out
}
