// Package gen holds the rapid generators shared by the property packages. All
// randomness comes from rapid so that shrinking and replay work.
package gen

import (
	"image/color"
	"math"

	"pgregory.net/rapid"

	"verif/internal/ops"
)

func bits(u uint32) float32 { return math.Float32frombits(u) }

// Boundary values of the number formats.
var Boundary = []float32{
	0, bits(0x80000000), 1, -1, 63, 64, -64, -65, 127, 128, 127.984375, 127.99, 127.9921875, 127.992188, -128, -128.015625, -127.984375,
	16383, 16384, 16385, 8191, 8192, 120, 15120, 15119, 0.5, 0.25, 0.015625, 0.0078125, -0.0078125, 0.0234375,
	float32(1) / 120, float32(2) / 120, float32(4) / 120, float32(7) / 120, float32(63) / 120, float32(119) / 120, float32(127) / 120,
	float32(1) / 15120, float32(570) / 15120, float32(15119) / 15120, float32(16383) / 15120,
	bits(0x3f7ffffe), bits(0x3f7fffff), bits(0x3f800001), bits(0x3f800002), bits(0x3f800003),
	bits(0x7f7fffff), bits(0x7f7ffffe), bits(0x7f7ffffd), bits(0x7f7ffffc), bits(0xff7fffff),
	bits(0x00800000), bits(0x007fffff), bits(0x00000001), bits(0x00000002), bits(0x00000003), bits(0x80000001),
	bits(0x42fffffe), bits(0x42ffffff), bits(0x43000001), bits(0xc3000001), bits(0xc2ffffff),
	bits(0x4b000000), bits(0x4b800000), bits(0x4f000000), bits(0x4f800000), bits(0x5f000000), bits(0x5f800000), bits(0xdf000000),
	1e10, -1e10, 1e20, 3e38,
}

var NonFinite = []float32{
	bits(0x7f800000), bits(0xff800000), bits(0x7fc00000), bits(0xffc00000), bits(0x7f800001), bits(0x7f800002), bits(0x7f800003),
	bits(0x7f800004), bits(0x7fffffff), bits(0x7ffffffc), bits(0xff800001), bits(0x7fa00000),
}

// Float32Any draws from every float class.
func Float32Any(t *rapid.T, label string) float32 {
	switch rapid.IntRange(0, 11).Draw(t, label+".class") {
	case 0:
		return float32(rapid.IntRange(-64, 63).Draw(t, label))
	case 1:
		return float32(rapid.IntRange(-300, 20000).Draw(t, label))
	case 2:
		return float32(rapid.IntRange(-130*64, 130*64).Draw(t, label)) / 64
	case 3:
		if rapid.Bool().Draw(t, label+".d") {
			return float32(rapid.IntRange(0, 130).Draw(t, label)) / 120
		}
		return float32(rapid.IntRange(0, 16500).Draw(t, label)) / 15120
	case 4:
		return rapid.SampledFrom(Boundary).Draw(t, label)
	case 5:
		return bits(rapid.Uint32().Draw(t, label))
	case 6:
		return rapid.SampledFrom(NonFinite).Draw(t, label)
	case 7:
		e := rapid.Float64Range(5, 38).Draw(t, label+".e")
		v := float32(math.Pow(10, e))
		if rapid.Bool().Draw(t, label+".neg") {
			v = -v
		}
		return v
	case 8:
		return rapid.Float32Range(-200, 200).Draw(t, label)
	case 9:
		// around a rounding tie of the low-resolution grid
		k := rapid.IntRange(-128*64, 128*64).Draw(t, label+".k")
		v := (float32(k) + 0.5) / 64
		d := rapid.IntRange(-3, 3).Draw(t, label+".ulp")
		return bits(uint32(int32(math.Float32bits(v)) + int32(d)))
	case 10:
		// mantissas that round up into the next exponent
		e := rapid.Uint32Range(1, 254).Draw(t, label+".e")
		m := uint32(0x7ffffc) + rapid.Uint32Range(0, 3).Draw(t, label+".m")
		s := rapid.Uint32Range(0, 1).Draw(t, label+".s")
		return bits(s<<31 | e<<23 | m)
	default:
		return rapid.Float32Range(-1, 2).Draw(t, label)
	}
}

// Moderate draws a finite coordinate of moderate size, on or off the 1/64 grid.
func Moderate(t *rapid.T, label string, lim float32) float32 {
	switch rapid.IntRange(0, 3).Draw(t, label+".class") {
	case 0:
		return float32(rapid.IntRange(-int(lim), int(lim)).Draw(t, label))
	case 1:
		return float32(rapid.IntRange(-int(lim)*64, int(lim)*64).Draw(t, label)) / 64
	default:
		return rapid.Float32Range(-lim, lim).Draw(t, label)
	}
}

// Grid draws a coordinate that survives low-resolution encoding unchanged.
func Grid(t *rapid.T, label string, lim int) float32 {
	if lim > 127 {
		lim = 127
	}
	if rapid.Bool().Draw(t, label+".int") {
		return float32(rapid.IntRange(-lim, lim).Draw(t, label))
	}
	return float32(rapid.IntRange(-lim*64, lim*64).Draw(t, label)) / 64
}

var chan5 = []uint8{0x00, 0x40, 0x80, 0xc0, 0xff}

// RGBA classes.
const (
	RGBAOneByte = iota
	RGBAChan5Translucent
	RGBATwoByte
	RGBAOpaque
	RGBAPremul
	RGBANonPremul
	RGBAGradient
	numRGBAClasses
)

func RGBAOfClass(t *rapid.T, label string, class int) color.RGBA {
	u8 := func(l string) uint8 { return rapid.Uint8().Draw(t, label+l) }
	switch class {
	case RGBAOneByte:
		switch rapid.IntRange(0, 7).Draw(t, label+".1") {
		case 0:
			return color.RGBA{0xc0, 0xc0, 0xc0, 0xc0}
		case 1:
			return color.RGBA{0x80, 0x80, 0x80, 0x80}
		case 2:
			return color.RGBA{}
		}
		c := rapid.SampledFrom(chan5)
		return color.RGBA{c.Draw(t, label+".r"), c.Draw(t, label+".g"), c.Draw(t, label+".b"), 0xff}
	case RGBAChan5Translucent:
		c := rapid.SampledFrom(chan5)
		a := rapid.SampledFrom(chan5[:4]).Draw(t, label+".a")
		ch := func(l string) uint8 {
			v := c.Draw(t, label+l)
			if v > a {
				v = a
			}
			return v
		}
		return color.RGBA{ch(".r"), ch(".g"), ch(".b"), a}
	case RGBATwoByte:
		a := uint8(rapid.IntRange(0, 15).Draw(t, label+".a"))
		ch := func(l string) uint8 { return uint8(rapid.IntRange(0, int(a)).Draw(t, label+l)) * 0x11 }
		return color.RGBA{ch(".r"), ch(".g"), ch(".b"), a * 0x11}
	case RGBAOpaque:
		return color.RGBA{u8(".r"), u8(".g"), u8(".b"), 0xff}
	case RGBAPremul:
		a := u8(".a")
		ch := func(l string) uint8 { return uint8(rapid.IntRange(0, int(a)).Draw(t, label+l)) }
		return color.RGBA{ch(".r"), ch(".g"), ch(".b"), a}
	case RGBANonPremul:
		// not premultiplied and not a gradient (A > 0, or B < 128)
		for {
			c := color.RGBA{u8(".r"), u8(".g"), u8(".b"), uint8(rapid.IntRange(0, 254).Draw(t, label+".a"))}
			if c.A == 0 {
				c.B &= 0x7f
			}
			if c.R <= c.A && c.G <= c.A && c.B <= c.A {
				c.R = c.A + 1
			}
			return c
		}
	default:
		return color.RGBA{u8(".r"), u8(".g"), u8(".b") | 0x80, 0}
	}
}

// ValidRGBA draws a valid premultiplied colour of any encodable length.
func ValidRGBA(t *rapid.T, label string) color.RGBA {
	class := rapid.SampledFrom([]int{RGBAOneByte, RGBAChan5Translucent, RGBATwoByte, RGBAOpaque, RGBAPremul}).Draw(t, label+".class")
	return RGBAOfClass(t, label, class)
}

// AnyRGBA draws from all classes, nonsensical ones included.
func AnyRGBA(t *rapid.T, label string) color.RGBA {
	return RGBAOfClass(t, label, rapid.IntRange(0, numRGBAClasses-1).Draw(t, label+".class"))
}

// Sel draws a selector / register index clustered at the wrap-around points.
func Sel(t *rapid.T, label string) uint8 {
	if rapid.Bool().Draw(t, label+".edge") {
		return rapid.SampledFrom([]uint8{0, 1, 2, 5, 6, 7, 61, 62, 63}).Draw(t, label)
	}
	return uint8(rapid.IntRange(0, 63).Draw(t, label))
}

// SelArg draws the argument of a selector write: any uint8, the registers being
// addressed modulo 64 (255 is what d.SetCSel(d.CSel()-1) passes at CSEL 0).
func SelArg(t *rapid.T, label string) uint8 {
	if w := rapid.IntRange(0, 11).Draw(t, label+".wide"); w == 0 {
		return uint8(rapid.IntRange(64, 255).Draw(t, label+".any")) // every value names a register: modulo 64
	} else if w == 1 {
		return rapid.SampledFrom([]uint8{64, 65, 70, 127, 128, 129, 191, 192, 254, 255}).Draw(t, label)
	}
	return Sel(t, label)
}

// Color draws any ivg colour kind.
func Color(t *rapid.T, label string) ops.ColorV {
	switch rapid.IntRange(0, 5).Draw(t, label+".kind") {
	case 0:
		return ops.ColorV{T: 1, R: Sel(t, label+".pal")}.Norm()
	case 1:
		return ops.ColorV{T: 2, R: Sel(t, label+".creg")}.Norm()
	case 2:
		return ops.ColorV{T: 3, R: BlendT(t, label+".t"), G: rapid.Uint8().Draw(t, label+".c0"), B: rapid.Uint8().Draw(t, label+".c1")}
	default:
		return ops.RGBAv(AnyRGBA(t, label))
	}
}

func BlendT(t *rapid.T, label string) uint8 {
	if rapid.IntRange(0, 3).Draw(t, label+".edge") == 0 {
		return rapid.SampledFrom([]uint8{0, 1, 127, 128, 254, 255}).Draw(t, label)
	}
	return rapid.Uint8().Draw(t, label)
}

// Palette draws a suggested palette: n explicit entries then opaque black.
// valid => premultiplied entries only.
func Palette(t *rapid.T, label string, valid bool) ops.Palette {
	p := ops.DefaultPalette()
	n := rapid.SampledFrom([]int{0, 1, 1, 2, 3, 8, 63, 64}).Draw(t, label+".n")
	// restrict the classes sometimes so that every palette format (1/2/3/4
	// bytes per colour) is reached
	maxClass := rapid.SampledFrom([]int{RGBAOneByte, RGBATwoByte, RGBAOpaque, RGBAPremul, -1}).Draw(t, label+".fmt")
	for i := 0; i < n; i++ {
		l := label + ".e"
		switch {
		case maxClass == RGBAOneByte:
			p[i] = RGBAOfClass(t, l, RGBAOneByte)
		case maxClass == RGBATwoByte:
			p[i] = RGBAOfClass(t, l, rapid.SampledFrom([]int{RGBAOneByte, RGBATwoByte}).Draw(t, l+".c"))
		case maxClass == RGBAOpaque:
			p[i] = RGBAOfClass(t, l, RGBAOpaque)
		case valid || maxClass == RGBAPremul:
			p[i] = ValidRGBA(t, l)
		default:
			p[i] = AnyRGBA(t, l)
		}
	}
	if n > 0 && rapid.IntRange(0, 7).Draw(t, label+".uniform") == 0 {
		// every explicit entry the same colour (all 64 transparent, say): valid, and unlike
		// anything drawn entry by entry
		v := rapid.SampledFrom([]color.RGBA{{}, {0x80, 0x80, 0x80, 0x80}, p[0], {0xff, 0xff, 0xff, 0xff}}).Draw(t, label+".uniformv")
		for i := 0; i < n; i++ {
			p[i] = v
		}
	}
	return p
}

// ViewBox draws a finite valid viewBox (min <= max, possibly degenerate when
// allowDegenerate).
func ViewBox(t *rapid.T, label string, allowDegenerate bool) [4]float32 {
	switch rapid.IntRange(0, 8).Draw(t, label+".class") {
	case 7:
		// the default box with one or two members changed (the others exactly the default)
		vb := [4]float32{-32, -32, 32, 32}
		for n := rapid.IntRange(1, 2).Draw(t, label+".nchanged"); n > 0; n-- {
			i := rapid.IntRange(0, 3).Draw(t, label+".member")
			d := float32(rapid.IntRange(1, 31).Draw(t, label+".by"))
			if i < 2 {
				vb[i] = -32 + d*float32(rapid.SampledFrom([]int{1, -1}).Draw(t, label+".dir"))
			} else {
				vb[i] = 32 + d*float32(rapid.SampledFrom([]int{1, -1}).Draw(t, label+".dir"))
			}
		}
		return vb
	case 8:
		// the default size at another origin, moved along one axis or both
		dx, dy := float32(rapid.IntRange(-40, 40).Draw(t, label+".dx")), float32(rapid.IntRange(-40, 40).Draw(t, label+".dy"))
		if rapid.Bool().Draw(t, label+".oneaxis") {
			if rapid.Bool().Draw(t, label+".x") {
				dy = 0
			} else {
				dx = 0
			}
		}
		return [4]float32{-32 + dx, -32 + dy, 32 + dx, 32 + dy}
	case 0:
		return [4]float32{-32, -32, 32, 32}
	case 1:
		return [4]float32{-24, -24, 24, 24}
	case 2:
		w := float32(rapid.IntRange(1, 300).Draw(t, label+".w"))
		h := float32(rapid.IntRange(1, 300).Draw(t, label+".h"))
		return [4]float32{0, 0, w, h}
	case 3:
		x := float32(rapid.IntRange(-100, 100).Draw(t, label+".x"))
		y := float32(rapid.IntRange(-100, 100).Draw(t, label+".y"))
		w := float32(rapid.IntRange(1, 64*100).Draw(t, label+".w")) / 64
		h := float32(rapid.IntRange(1, 64*100).Draw(t, label+".h")) / 64
		return [4]float32{x, y, x + w, y + h}
	case 4:
		x := rapid.Float32Range(-1000, 1000).Draw(t, label+".x")
		y := rapid.Float32Range(-1000, 1000).Draw(t, label+".y")
		w := rapid.Float32Range(0.001, 5000).Draw(t, label+".w")
		h := rapid.Float32Range(0.001, 5000).Draw(t, label+".h")
		vb := [4]float32{x, y, x + w, y + h}
		if !(vb[2] > vb[0]) || !(vb[3] > vb[1]) {
			return [4]float32{0, 0, 1, 1}
		}
		return vb
	case 5:
		if allowDegenerate {
			x := float32(rapid.IntRange(-10, 10).Draw(t, label+".x"))
			return [4]float32{x, x, x, x + float32(rapid.IntRange(0, 1).Draw(t, label+".h"))}
		}
		return [4]float32{-32, -32, 32, 32}
	default:
		return [4]float32{-1e6, -1e-3, 1e6, 1e-3}
	}
}
