package gen

import (
	"pgregory.net/rapid"

	"verif/internal/ops"
)

// NumFn draws one number for an operand.
type NumFn func(t *rapid.T, label string) float32

// ProgCfg shapes Program.
type ProgCfg struct {
	MaxBlocks  int   // styling+path blocks (default 4)
	MaxRun     int   // longest run of one verb (default 80)
	MaxVerbs   int   // verbs per path (default 6)
	Num        NumFn // operand numbers (default Float32Any)
	Col        func(t *rapid.T, label string) ops.ColorV
	NoArcs     bool
	NoStyling  bool
	OpenEnd    bool // leave the last path open (no ClosePathEndPath)
	AlwaysPath bool
}

var DrawVerbs = []ops.Kind{
	ops.ClosePathAbsMoveTo, ops.ClosePathRelMoveTo, ops.AbsHLineTo, ops.RelHLineTo, ops.AbsVLineTo, ops.RelVLineTo,
	ops.AbsLineTo, ops.RelLineTo, ops.AbsSmoothQuadTo, ops.RelSmoothQuadTo, ops.AbsQuadTo, ops.RelQuadTo,
	ops.AbsSmoothCubeTo, ops.RelSmoothCubeTo, ops.AbsCubeTo, ops.RelCubeTo, ops.AbsArcTo, ops.RelArcTo,
}

// Adj draws a register adjustment 0..6.
func Adj(t *rapid.T, label string) uint8 {
	return uint8(rapid.SampledFrom([]int{0, 0, 0, 1, 2, 3, 4, 5, 6}).Draw(t, label))
}

func runLen(t *rapid.T, label string, max int) int {
	var n int
	if max >= 600 && rapid.IntRange(0, 39).Draw(t, label+".huge") == 0 {
		// counts around the 8-bit boundary: a circle drawn as 300 segments is ordinary use
		return rapid.SampledFrom([]int{255, 256, 257, 300, 513}).Draw(t, label+".hugelen")
	}
	switch rapid.IntRange(0, 9).Draw(t, label+".class") {
	case 0, 1, 2, 3, 4:
		n = 1
	case 5, 6:
		n = rapid.IntRange(2, 5).Draw(t, label)
	case 7:
		n = rapid.SampledFrom([]int{15, 16, 17, 31, 32, 33}).Draw(t, label)
	case 8:
		n = rapid.IntRange(6, 40).Draw(t, label)
	default:
		n = rapid.IntRange(33, 80).Draw(t, label)
	}
	if n > max {
		n = max
	}
	return n
}

// DrawOp draws one drawing op of kind k.
func DrawOp(t *rapid.T, k ops.Kind, num NumFn, label string) ops.Op {
	if k == ops.AbsArcTo || k == ops.RelArcTo {
		return ops.OpArc(k, num(t, label+".rx"), num(t, label+".ry"), num(t, label+".rot"),
			rapid.Bool().Draw(t, label+".la"), rapid.Bool().Draw(t, label+".sw"), num(t, label+".x"), num(t, label+".y"))
	}
	n := k.NArgs()
	args := make([]float32, n)
	for i := range args {
		args[i] = num(t, label+".a")
	}
	return ops.OpDraw(k, args...)
}

// Styling draws one styling op (not StartPath).
func Styling(t *rapid.T, num NumFn, col func(*rapid.T, string) ops.ColorV, label string) ops.Op {
	switch rapid.IntRange(0, 9).Draw(t, label+".kind") {
	case 0:
		return ops.OpSetCSel(SelArg(t, label+".csel"))
	case 1:
		return ops.OpSetNSel(SelArg(t, label+".nsel"))
	case 2, 3, 4:
		incr := rapid.IntRange(0, 3).Draw(t, label+".incr") == 0
		adj := uint8(0)
		if !incr {
			adj = Adj(t, label+".adj")
		}
		return ops.OpSetCReg(adj, incr, col(t, label+".c"))
	case 5, 6, 7:
		incr := rapid.IntRange(0, 3).Draw(t, label+".incr") == 0
		adj := uint8(0)
		if !incr {
			adj = Adj(t, label+".adj")
		}
		return ops.OpSetNReg(adj, incr, num(t, label+".f"))
	default:
		return ops.OpSetLOD(num(t, label+".lod0"), num(t, label+".lod1"))
	}
}

// Again returns, one time in six, a styling op that writes once more what prev just wrote: the
// identical op, or the same value through the other addressing form so that it lands on the
// register that already holds it (an incrementing write after a plain one at ADJ 0, a plain one at
// ADJ 1 after an incrementing one). The value is redundant, the selector side effect is not.
func Again(t *rapid.T, prev ops.Op, label string) (ops.Op, bool) {
	if !prev.K.IsStyling() || prev.K == ops.StartPath || rapid.IntRange(0, 5).Draw(t, label+".again") != 0 {
		return ops.Op{}, false
	}
	o := prev
	if (o.K == ops.SetCReg || o.K == ops.SetNReg) && rapid.Bool().Draw(t, label+".otherform") {
		switch {
		case !o.Incr && o.Adj == 0:
			o.Incr = true
		case o.Incr:
			o.Incr, o.Adj = false, 1
		}
	}
	return o, true
}

// Program draws a protocol-respecting call sequence (without the Reset):
// (styling* (StartPath drawing* ClosePathEndPath))*.
func Program(t *rapid.T, cfg ProgCfg) []ops.Op {
	if cfg.MaxBlocks == 0 {
		cfg.MaxBlocks = 4
	}
	if cfg.MaxRun == 0 {
		cfg.MaxRun = 600
	}
	if cfg.MaxVerbs == 0 {
		cfg.MaxVerbs = 6
	}
	if cfg.Num == nil {
		cfg.Num = Float32Any
	}
	if cfg.Col == nil {
		cfg.Col = Color
	}
	verbs := DrawVerbs
	if cfg.NoArcs {
		verbs = DrawVerbs[:16]
	}
	var out []ops.Op
	nb := rapid.IntRange(1, cfg.MaxBlocks).Draw(t, "blocks")
	for b := 0; b < nb; b++ {
		if !cfg.NoStyling {
			ns := rapid.IntRange(0, 5).Draw(t, "nstyling")
			for i := 0; i < ns; i++ {
				out = append(out, Styling(t, cfg.Num, cfg.Col, "sty"))
				if o, ok := Again(t, out[len(out)-1], "sty"); ok {
					out = append(out, o)
				}
			}
		}
		if !cfg.AlwaysPath && rapid.IntRange(0, 5).Draw(t, "nopath") == 0 {
			continue
		}
		out = append(out, ops.OpStartPath(Adj(t, "sp.adj"), cfg.Num(t, "sp.x"), cfg.Num(t, "sp.y")))
		nv := rapid.IntRange(0, cfg.MaxVerbs).Draw(t, "nverbs")
		for v := 0; v < nv; v++ {
			k := rapid.SampledFrom(verbs).Draw(t, "verb")
			n := runLen(t, "run", cfg.MaxRun)
			for i := 0; i < n; i++ {
				out = append(out, DrawOp(t, k, cfg.Num, "d"))
			}
		}
		if !(cfg.OpenEnd && b == nb-1) {
			out = append(out, ops.OpDraw(ops.ClosePathEndPath))
		}
	}
	return out
}
