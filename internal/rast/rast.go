// Package rast is a recording raster.Rasterizer with the pen semantics of
// golang.org/x/image/vector (Reset zeroes the pen and the sub-path start;
// MoveTo sets both; Line/Quad/Cube move the pen to their last point; ClosePath
// moves the pen to the sub-path start).
package rast

import (
	"fmt"
	"image"
	"image/color"

	"github.com/reactivego/ivg/raster"
)

type CallKind uint8

const (
	Reset CallKind = iota
	MoveTo
	LineTo
	QuadTo
	CubeTo
	ClosePath
	Draw
)

var callNames = [...]string{"Reset", "MoveTo", "LineTo", "QuadTo", "CubeTo", "ClosePath", "Draw"}

func (k CallKind) String() string { return callNames[k] }

// Paint is a by-value snapshot of the src image handed to Draw (the Renderer
// hands out pointers into itself that the next path overwrites).
type Paint struct {
	Kind    string // "uniform", "gradient", "other"
	Uniform color.RGBA
	// gradient
	Shape, Spread int
	Offsets       []float64
	Colors        []color.RGBA
	Transform     [6]float64
	Lattice       []color.RGBA64 // At(x,y) on a small lattice of pixel coordinates
	Other         string
}

// LatticePoints are the pixel coordinates sampled from gradient paints.
var LatticePoints = []image.Point{{0, 0}, {1, 0}, {0, 1}, {7, 3}, {-5, 11}, {31, 31}, {100, -40}, {-300, 250}}

type Call struct {
	K    CallKind
	F    [6]float32 // coordinates
	W, H int        // Reset
	R    image.Rectangle
	SP   image.Point
	P    *Paint
	// PenX, PenY: pen before the call.
	PenX, PenY float32
}

func (c Call) String() string {
	switch c.K {
	case Reset:
		return fmt.Sprintf("Reset(%d,%d)", c.W, c.H)
	case MoveTo, LineTo:
		return fmt.Sprintf("%v(%v,%v)", c.K, c.F[0], c.F[1])
	case QuadTo:
		return fmt.Sprintf("QuadTo(%v,%v,%v,%v)", c.F[0], c.F[1], c.F[2], c.F[3])
	case CubeTo:
		return fmt.Sprintf("CubeTo(%v,%v,%v,%v,%v,%v)", c.F[0], c.F[1], c.F[2], c.F[3], c.F[4], c.F[5])
	case Draw:
		return fmt.Sprintf("Draw(%v,%v,%v)", c.R, c.P.describe(), c.SP)
	}
	return c.K.String() + "()"
}

func (p *Paint) describe() string {
	if p == nil {
		return "nil"
	}
	switch p.Kind {
	case "uniform":
		return fmt.Sprintf("uniform %02x%02x%02x%02x", p.Uniform.R, p.Uniform.G, p.Uniform.B, p.Uniform.A)
	case "gradient":
		return fmt.Sprintf("gradient shape=%d spread=%d offsets=%v colors=%v transform=%v", p.Shape, p.Spread, p.Offsets, p.Colors, p.Transform)
	}
	return p.Other
}

// Recorder implements raster.Rasterizer.
type Recorder struct {
	Calls      []Call
	PenReads   int
	w, h       int
	penX, penY float32
	startX     float32
	startY     float32
	// NoLattice skips sampling At on gradient paints.
	NoLattice bool
	// Points, when set, replaces LatticePoints for the At samples.
	Points []image.Point
	// Limit > 0 stops recording (but keeps counting) after Limit calls.
	Limit int
	Count int
}

var _ raster.Rasterizer = (*Recorder)(nil)

func (r *Recorder) add(c Call) {
	r.Count++
	if r.Limit > 0 && len(r.Calls) >= r.Limit {
		return
	}
	c.PenX, c.PenY = r.penX, r.penY
	r.Calls = append(r.Calls, c)
}

func (r *Recorder) Reset(w, h int) {
	r.add(Call{K: Reset, W: w, H: h})
	r.w, r.h = w, h
	r.penX, r.penY, r.startX, r.startY = 0, 0, 0, 0
}
func (r *Recorder) Size() image.Point       { return image.Pt(r.w, r.h) }
func (r *Recorder) Bounds() image.Rectangle { return image.Rect(0, 0, r.w, r.h) }
func (r *Recorder) Pen() (x, y float32)     { r.PenReads++; return r.penX, r.penY }
func (r *Recorder) MoveTo(ax, ay float32) {
	r.add(Call{K: MoveTo, F: [6]float32{ax, ay}})
	r.penX, r.penY, r.startX, r.startY = ax, ay, ax, ay
}
func (r *Recorder) LineTo(bx, by float32) {
	r.add(Call{K: LineTo, F: [6]float32{bx, by}})
	r.penX, r.penY = bx, by
}
func (r *Recorder) QuadTo(bx, by, cx, cy float32) {
	r.add(Call{K: QuadTo, F: [6]float32{bx, by, cx, cy}})
	r.penX, r.penY = cx, cy
}
func (r *Recorder) CubeTo(bx, by, cx, cy, dx, dy float32) {
	r.add(Call{K: CubeTo, F: [6]float32{bx, by, cx, cy, dx, dy}})
	r.penX, r.penY = dx, dy
}
func (r *Recorder) ClosePath() {
	r.add(Call{K: ClosePath})
	r.penX, r.penY = r.startX, r.startY
}
func (r *Recorder) Draw(rect image.Rectangle, src image.Image, sp image.Point) {
	r.add(Call{K: Draw, R: rect, SP: sp, P: snapshot(src, !r.NoLattice, r.Points, sp)})
}

// Snapshot copies what matters of a paint.
func Snapshot(src image.Image, lattice bool) *Paint { return snapshot(src, lattice, nil, image.Point{}) }

// The sample points are pixels of the drawn rectangle, relative to its corner: the pixel (x,y) of
// the rectangle shows the paint at sp+(x,y), sp being the source point given to Draw.
func snapshot(src image.Image, lattice bool, points []image.Point, sp image.Point) *Paint {
	if points == nil {
		points = LatticePoints
	}
	switch s := src.(type) {
	case *image.Uniform:
		c, ok := s.C.(*color.RGBA)
		if ok {
			return &Paint{Kind: "uniform", Uniform: *c}
		}
		if cv, ok := s.C.(color.RGBA); ok {
			return &Paint{Kind: "uniform", Uniform: cv}
		}
		rr, gg, bb, aa := s.C.RGBA()
		return &Paint{Kind: "uniform", Uniform: color.RGBA{uint8(rr >> 8), uint8(gg >> 8), uint8(bb >> 8), uint8(aa >> 8)}}
	case raster.GradientConfig:
		p := &Paint{Kind: "gradient", Shape: s.GradientShape(), Spread: s.SpreadMethod()}
		p.Offsets = append([]float64{}, s.StopOffsets()...)
		p.Colors = append([]color.RGBA{}, s.StopColors()...)
		a, b, c, d, e, f := s.Transform()
		p.Transform = [6]float64{a, b, c, d, e, f}
		if lattice {
			for _, pt := range points {
				rr, gg, bb, aa := src.At(pt.X+sp.X, pt.Y+sp.Y).RGBA()
				p.Lattice = append(p.Lattice, color.RGBA64{uint16(rr), uint16(gg), uint16(bb), uint16(aa)})
			}
		}
		return p
	}
	return &Paint{Kind: "other", Other: fmt.Sprintf("%T", src)}
}

// SamePaint compares two snapshots exactly.
func SamePaint(a, b *Paint) bool {
	if a == nil || b == nil {
		return a == b
	}
	if a.Kind != b.Kind || a.Uniform != b.Uniform || a.Shape != b.Shape || a.Spread != b.Spread || a.Transform != b.Transform || a.Other != b.Other {
		return false
	}
	if len(a.Offsets) != len(b.Offsets) || len(a.Colors) != len(b.Colors) || len(a.Lattice) != len(b.Lattice) {
		return false
	}
	for i := range a.Offsets {
		if a.Offsets[i] != b.Offsets[i] {
			return false
		}
	}
	for i := range a.Colors {
		if a.Colors[i] != b.Colors[i] {
			return false
		}
	}
	for i := range a.Lattice {
		if a.Lattice[i] != b.Lattice[i] {
			return false
		}
	}
	return true
}

// SameCall compares two calls exactly (coordinates bit-for-bit, NaNs one class).
func SameCall(a, b Call) bool {
	if a.K != b.K || a.W != b.W || a.H != b.H || a.R != b.R || a.SP != b.SP {
		return false
	}
	for i := range a.F {
		if a.F[i] != b.F[i] && !(a.F[i] != a.F[i] && b.F[i] != b.F[i]) {
			return false
		}
	}
	if a.K == Draw {
		return SamePaint(a.P, b.P)
	}
	return true
}

// DiffCalls returns "" if the logs are identical.
func DiffCalls(got, want []Call) string {
	n := len(got)
	if len(want) < n {
		n = len(want)
	}
	for i := 0; i < n; i++ {
		if !SameCall(got[i], want[i]) {
			return fmt.Sprintf("rasteriser call %d differs: got %v, want %v", i, got[i], want[i])
		}
	}
	if len(got) != len(want) {
		return fmt.Sprintf("rasteriser call count differs: got %d, want %d", len(got), len(want))
	}
	return ""
}
