// Package corpus loads the graphics that ship with the repository: testdata/*.ivg
// and the Material Design icons in cmd/mdicons/test/data.go (parsed with go/parser
// at run time, so the corpus follows the working tree).
package corpus

import (
	"go/ast"
	"go/parser"
	"go/token"
	"os"
	"path/filepath"
	"sort"
	"strconv"
	"sync"

	"verif/internal/harness"
)

type File struct {
	Name string
	Data []byte
}

var (
	once  sync.Once
	files []File
	tdata []File
)

func load() {
	repo := harness.Repo()
	names, _ := filepath.Glob(filepath.Join(repo, "testdata", "*.ivg"))
	sort.Strings(names)
	for _, n := range names {
		if b, err := os.ReadFile(n); err == nil {
			tdata = append(tdata, File{Name: "testdata/" + filepath.Base(n), Data: b})
		}
	}
	files = append(files, tdata...)
	fset := token.NewFileSet()
	f, err := parser.ParseFile(fset, filepath.Join(repo, "cmd", "mdicons", "test", "data.go"), nil, 0)
	if err != nil {
		return
	}
	for _, d := range f.Decls {
		gd, ok := d.(*ast.GenDecl)
		if !ok || gd.Tok != token.VAR {
			continue
		}
		for _, sp := range gd.Specs {
			vs, ok := sp.(*ast.ValueSpec)
			if !ok || len(vs.Names) != 1 || len(vs.Values) != 1 {
				continue
			}
			cl, ok := vs.Values[0].(*ast.CompositeLit)
			if !ok {
				continue
			}
			data := make([]byte, 0, len(cl.Elts))
			good := true
			for _, e := range cl.Elts {
				bl, ok := e.(*ast.BasicLit)
				if !ok {
					good = false
					break
				}
				u, err := strconv.ParseUint(bl.Value, 0, 8)
				if err != nil {
					good = false
					break
				}
				data = append(data, byte(u))
			}
			if good && len(data) > 4 {
				files = append(files, File{Name: "mdicons/" + vs.Names[0].Name, Data: data})
			}
		}
	}
}

// All returns testdata graphics followed by the Material Design icons.
func All() []File { once.Do(load); return files }

// Testdata returns only the testdata graphics.
func Testdata() []File { once.Do(load); return tdata }

// Sample returns every k-th icon plus all testdata graphics.
func Sample(k int) []File {
	all := All()
	out := append([]File{}, Testdata()...)
	for i := len(Testdata()); i < len(all); i += k {
		out = append(out, all[i])
	}
	return out
}
