package corpus

import (
	"testing"

	"github.com/reactivego/ivg/decode"

	"verif/internal/ops"
	"verif/internal/spec"
)

// Self-test of the shared machinery on the unchanged corpus: the reference
// parser and the decoder agree on every shipped graphic.
func TestCorpusLoadsAndParses(t *testing.T) {
	all := All()
	if len(all) < 900 {
		t.Fatalf("corpus has only %d files", len(all))
	}
	for _, f := range all {
		p := spec.Parse(f.Data)
		var rec ops.Recorder
		err := decode.Decode(&rec, f.Data)
		if (err == nil) != p.OK {
			t.Fatalf("%s: decoder err=%v reference ok=%v (%s at %d)", f.Name, err, p.OK, p.Err, p.ErrPos)
		}
		if d := ops.DiffOps(rec.Ops, p.Ops); d != "" {
			t.Fatalf("%s: %s", f.Name, d)
		}
	}
	t.Logf("%d files", len(all))
}
