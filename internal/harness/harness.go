// Package harness is the glue shared by every property package: tier/seed/shard
// handling, rapid configuration, panic-safe evaluation of a pure check function,
// replay files, known-finding keys, and the statistics that become evidence.
package harness

import (
	"bufio"
	"encoding/json"
	"flag"
	"fmt"
	"hash/fnv"
	"os"
	"path/filepath"
	"runtime/debug"
	"sort"
	"strconv"
	"strings"
	"sync"
	"testing"
	"time"

	"pgregory.net/rapid"
)

// ---------------------------------------------------------------- environment

var (
	Property string
	tier     = envStr("VERIF_TIER", "quick")
	seed     = envU64("VERIF_SEED", 1)
	shard    = int(envU64("VERIF_SHARD", 0))
	shards   = int(envU64("VERIF_SHARDS", 1))
	root     = envStr("VERIF_ROOT", "/verif")
	repo     = envStr("VERIF_REPO", "/repo")
	outDir   = envStr("VERIF_OUT", "")
	replay   = envStr("VERIF_REPLAY", "")
	replays  = envStr("VERIF_REPLAY_DIR", "")
	start    = time.Now()
)

func envStr(k, d string) string {
	if v := os.Getenv(k); v != "" {
		return v
	}
	return d
}

func envU64(k string, d uint64) uint64 {
	if v := os.Getenv(k); v != "" {
		if n, err := strconv.ParseUint(v, 0, 64); err == nil {
			return n
		}
		if n, err := strconv.ParseInt(v, 0, 64); err == nil {
			return uint64(n)
		}
	}
	return d
}

func Tier() string   { return tier }
func Thorough() bool { return tier == "thorough" }
func Seed() uint64   { return seed }
func Shard() int     { return shard }
func Shards() int {
	if shards < 1 {
		return 1
	}
	return shards
}
func Root() string { return root }
func Repo() string { return repo }

// N returns the number of cases for this process: quick as given, thorough
// divided over the shards.
func N(quick, thorough int) int {
	if !Thorough() {
		return quick
	}
	n := thorough / Shards()
	if n < 1 {
		n = 1
	}
	return n
}

// Range splits [0,n) over the shards (thorough) or returns the whole range.
func Range(n uint64) (lo, hi uint64) {
	s, k := uint64(Shards()), uint64(Shard())
	lo = n / s * k
	hi = n / s * (k + 1)
	if k == s-1 {
		hi = n
	}
	return
}

// ---------------------------------------------------------------- hashing

func Hash(parts ...[]byte) uint64 {
	h := fnv.New64a()
	for _, p := range parts {
		var l [4]byte
		l[0], l[1], l[2], l[3] = byte(len(p)), byte(len(p)>>8), byte(len(p)>>16), byte(len(p)>>24)
		h.Write(l[:])
		h.Write(p)
	}
	return h.Sum64()
}

func HashJSON(v any) uint64 {
	b, _ := json.Marshal(v)
	return Hash(b)
}

// ---------------------------------------------------------------- violations

// Violation is an error with a stable key used to match known findings.
type Violation struct {
	Key string
	Msg string
}

func (v *Violation) Error() string { return v.Key + ": " + v.Msg }

func Violatef(key, format string, args ...any) error {
	return &Violation{Key: key, Msg: fmt.Sprintf(format, args...)}
}

type violationRec struct {
	Sub    string `json:"sub"`
	Key    string `json:"key"`
	Replay string `json:"replay"`
	Msg    string `json:"msg"`
}

type knownRec struct {
	Key string `json:"key"`
	Msg string `json:"msg"`
}

var (
	mu         sync.Mutex
	subs       = map[string]*Stat{}
	subOrder   []string
	violations = map[string]violationRec{}
	knownSeen  = map[string]knownRec{}
	openKeys   map[string]string
	replayers  = map[string]func(json.RawMessage) error{}
	notes      []string
)

func loadKnown() {
	openKeys = map[string]string{}
	f, err := os.Open(filepath.Join(root, "known_findings.txt"))
	if err != nil {
		return
	}
	defer f.Close()
	sc := bufio.NewScanner(f)
	for sc.Scan() {
		line := strings.TrimSpace(sc.Text())
		if !strings.HasPrefix(line, "open:") {
			continue
		}
		fields := strings.Fields(line[len("open:"):])
		prop, key := "", ""
		rest := []string{}
		for _, f := range fields {
			switch {
			case strings.HasPrefix(f, "property=") && prop == "":
				prop = f[len("property="):]
			case strings.HasPrefix(f, "key=") && key == "":
				key = f[len("key="):]
			default:
				rest = append(rest, f)
			}
		}
		if prop == Property && key != "" {
			openKeys[key] = strings.Join(rest, " ")
		}
	}
}

// IsKnown reports whether key is listed as an open finding for this property.
// A check may then exclude that class by construction (and must count what it
// excluded) so that the search goes on behind it.
func IsKnown(key string) bool {
	mu.Lock()
	defer mu.Unlock()
	_, ok := openKeys[key]
	return ok
}

// KnownFinding records that a listed open finding still reproduces.
func KnownFinding(key, what string) {
	mu.Lock()
	defer mu.Unlock()
	if _, ok := knownSeen[key]; !ok {
		knownSeen[key] = knownRec{Key: key, Msg: what}
		fmt.Fprintf(os.Stderr, "VERIF-KNOWN property=%s key=%s %s\n", Property, key, what)
	}
}

// Note adds a free-text remark to the evidence.
func Note(format string, args ...any) {
	mu.Lock()
	defer mu.Unlock()
	notes = append(notes, fmt.Sprintf(format, args...))
}

// ---------------------------------------------------------------- statistics

const distinctCap = 200000

type Stat struct {
	Name        string            `json:"name"`
	Rule        string            `json:"rule"`
	Evaluations int64             `json:"evaluations"`
	NonTrivial  int64             `json:"nontrivial_evaluations"`
	Enumerated  int64             `json:"enumerated_distinct_nontrivial"`
	Hashes      []uint64          `json:"hashes,omitempty"`
	Overflow    int64             `json:"distinct_overflow"`
	Labels      map[string]int64  `json:"labels,omitempty"`
	Samples     []json.RawMessage `json:"samples,omitempty"`
	Exhaustive  bool              `json:"exhaustive,omitempty"`
	Excluded    int64             `json:"excluded_known,omitempty"`

	mu       sync.Mutex
	distinct map[uint64]struct{}
}

func newStat(name, rule string) *Stat {
	mu.Lock()
	defer mu.Unlock()
	if s, ok := subs[name]; ok {
		return s
	}
	s := &Stat{Name: name, Rule: rule, Labels: map[string]int64{}, distinct: map[uint64]struct{}{}}
	subs[name] = s
	subOrder = append(subOrder, name)
	return s
}

// Counter returns a named statistics bucket not tied to a typed Sub (used by
// enumerators).
func Counter(name, rule string) *Stat { return newStat(name, rule) }

func (s *Stat) Label(l string, n int64) {
	s.mu.Lock()
	s.Labels[l] += n
	s.mu.Unlock()
}

// AddEnumerated accounts for cases produced by an enumerator, which are
// distinct by construction.
func (s *Stat) AddEnumerated(evals, nontrivial int64) {
	s.mu.Lock()
	s.Evaluations += evals
	s.NonTrivial += nontrivial
	s.Enumerated += nontrivial
	s.mu.Unlock()
}

func (s *Stat) SetExhaustive() {
	s.mu.Lock()
	s.Exhaustive = true
	s.mu.Unlock()
}

func (s *Stat) AddExcluded(n int64) {
	s.mu.Lock()
	s.Excluded += n
	s.mu.Unlock()
}

func (s *Stat) AddSample(v any) {
	s.mu.Lock()
	defer s.mu.Unlock()
	if len(s.Samples) >= 6 {
		return
	}
	s.Samples = append(s.Samples, sampleJSON(v))
}

func sampleJSON(v any) json.RawMessage {
	b, err := json.Marshal(v)
	if err != nil {
		b, _ = json.Marshal(fmt.Sprintf("%+v", v))
	}
	if len(b) > 3000 {
		b, _ = json.Marshal(map[string]any{"truncated_json": string(b[:2800]), "full_length": len(b)})
	}
	return b
}

// observe counts one generated case.
func (s *Stat) observe(nontrivial bool, hash uint64, sample func() any, labels []string) {
	s.mu.Lock()
	defer s.mu.Unlock()
	s.Evaluations++
	for _, l := range labels {
		s.Labels[l]++
	}
	if !nontrivial {
		return
	}
	s.NonTrivial++
	if _, seen := s.distinct[hash]; seen {
		return
	}
	if len(s.distinct) >= distinctCap {
		s.Overflow++
		return
	}
	s.distinct[hash] = struct{}{}
	n := len(s.distinct)
	if sample != nil && (n <= 2 || n == 50 || n == 500 || n == 5000) && len(s.Samples) < 6 {
		s.Samples = append(s.Samples, sampleJSON(sample()))
	}
}

// Observe on a bare counter.
func (s *Stat) Observe(nontrivial bool, hash uint64, sample func() any, labels ...string) {
	s.observe(nontrivial, hash, sample, labels)
}

// ---------------------------------------------------------------- typed sub-checks

// TB is satisfied by *testing.T and *rapid.T.
type TB interface {
	Helper()
	Fatalf(format string, args ...any)
}

// Sub is one oracle: a pure function over a JSON-serialisable case.
type Sub[C any] struct {
	*Stat
	check func(C) error
}

func Define[C any](name, rule string, check func(C) error) *Sub[C] {
	s := &Sub[C]{Stat: newStat(name, rule), check: check}
	mu.Lock()
	replayers[name] = func(raw json.RawMessage) error {
		var c C
		if err := json.Unmarshal(raw, &c); err != nil {
			return fmt.Errorf("replay: cannot decode case: %v", err)
		}
		return s.safe(c)
	}
	mu.Unlock()
	return s
}

func (s *Sub[C]) safe(c C) (err error) {
	defer func() {
		if r := recover(); r != nil {
			err = &Violation{Key: s.Name + "/panic", Msg: fmt.Sprintf("panic: %v\n%s", r, trimStack(debug.Stack()))}
		}
	}()
	return s.check(c)
}

func trimStack(b []byte) string {
	lines := strings.Split(string(b), "\n")
	if len(lines) > 40 {
		lines = lines[:40]
	}
	return strings.Join(lines, "\n")
}

// Eval runs the oracle; on failure the case is saved as a replay file.
func (s *Sub[C]) Eval(c C) error {
	err := s.safe(c)
	if err != nil {
		s.record(c, err)
	}
	return err
}

// Run is Eval + Fatalf, for use inside rapid properties and plain tests.
func (s *Sub[C]) Run(t TB, c C) {
	t.Helper()
	if err := s.Eval(c); err != nil {
		t.Fatalf("%s: %v", s.Name, err)
	}
}

// See counts one generated case (call once per generated case, before Run).
func (s *Sub[C]) See(c C, nontrivial bool, hash uint64, labels ...string) {
	s.observe(nontrivial, hash, func() any { return c }, labels)
}

func (s *Sub[C]) record(c C, err error) {
	key := s.Name
	if v, ok := err.(*Violation); ok {
		key = v.Key
	}
	raw, _ := json.Marshal(c)
	dir := replayDir()
	os.MkdirAll(dir, 0o755)
	file := filepath.Join(dir, fmt.Sprintf("%s-s%d-%d.json", sanitize(key), seed, shard))
	doc := map[string]any{
		"property": Property, "sub": s.Name, "key": key, "message": err.Error(),
		"tier": tier, "seed": seed, "shard": shard, "case": json.RawMessage(raw),
	}
	b, _ := json.MarshalIndent(doc, "", " ")
	os.WriteFile(file, b, 0o644)
	mu.Lock()
	violations[s.Name+"|"+key] = violationRec{Sub: s.Name, Key: key, Replay: file, Msg: firstLine(err.Error())}
	mu.Unlock()
	fmt.Fprintf(os.Stderr, "VERIF-VIOLATION property=%s sub=%s key=%s replay=%s\n", Property, s.Name, key, file)
}

func replayDir() string {
	if replays != "" {
		return filepath.Join(replays, Property)
	}
	return filepath.Join(root, "replays", Property)
}

func firstLine(s string) string {
	if i := strings.IndexByte(s, '\n'); i >= 0 {
		s = s[:i]
	}
	if len(s) > 400 {
		s = s[:400]
	}
	return s
}

func sanitize(s string) string {
	return strings.Map(func(r rune) rune {
		if r >= 'a' && r <= 'z' || r >= 'A' && r <= 'Z' || r >= '0' && r <= '9' || r == '-' || r == '_' {
			return r
		}
		return '_'
	}, s)
}

// ---------------------------------------------------------------- rapid

// Rapid runs a rapid property with the number of checks given, a seed derived
// from VERIF_SEED, the shard index and the test name, and no rapid fail files
// (the JSON replay written by Sub.Eval is the reproducible unit).
func Rapid(t *testing.T, checks int, prop func(*rapid.T)) {
	t.Helper()
	if checks < 1 {
		checks = 1
	}
	s := Hash([]byte(t.Name()), []byte(strconv.FormatUint(seed, 10)), []byte(strconv.Itoa(shard)))
	s &= 0x7fffffffffff
	if s == 0 {
		s = 1
	}
	flag.Set("rapid.checks", strconv.Itoa(checks))
	flag.Set("rapid.seed", strconv.FormatUint(s, 10))
	flag.Set("rapid.nofailfile", "true")
	flag.Set("rapid.shrinktime", "15s")
	rapid.Check(t, prop)
}

// ---------------------------------------------------------------- main

// Main is called from TestMain of every property package.
func Main(m *testing.M, property string) {
	Property = property
	loadKnown()
	flag.Parse()
	if replay != "" {
		os.Exit(runReplay(replay, true))
	}
	code := 0
	// Regression replays first: shrunk cases of violations that were repaired.
	if files, _ := filepath.Glob("testdata/regress/*.json"); len(files) > 0 {
		sort.Strings(files)
		st := newStat("regress", "saved shrunk cases of repaired violations, re-run first")
		for _, f := range files {
			st.AddEnumerated(1, 0)
			if runReplay(f, false) != 0 {
				code = 1
			}
		}
	}
	if c := m.Run(); c != 0 {
		code = c
	}
	writeStats()
	os.Exit(code)
}

func runReplay(file string, verbose bool) int {
	b, err := os.ReadFile(file)
	if err != nil {
		fmt.Fprintf(os.Stderr, "replay: %v\n", err)
		return 2
	}
	var doc struct {
		Sub  string          `json:"sub"`
		Key  string          `json:"key"`
		Case json.RawMessage `json:"case"`
	}
	if err := json.Unmarshal(b, &doc); err != nil {
		fmt.Fprintf(os.Stderr, "replay: %v\n", err)
		return 2
	}
	mu.Lock()
	fn := replayers[doc.Sub]
	mu.Unlock()
	if fn == nil {
		fmt.Fprintf(os.Stderr, "replay: unknown sub-check %q\n", doc.Sub)
		return 2
	}
	if err := fn(doc.Case); err != nil {
		key := doc.Sub
		if v, ok := err.(*Violation); ok {
			key = v.Key
		}
		mu.Lock()
		violations["replay:"+file] = violationRec{Sub: doc.Sub, Key: key, Replay: file, Msg: firstLine(err.Error())}
		mu.Unlock()
		fmt.Fprintf(os.Stderr, "VERIF-VIOLATION property=%s sub=%s key=%s replay=%s\n", Property, doc.Sub, key, file)
		if verbose {
			fmt.Fprintf(os.Stderr, "%v\n", err)
		}
		return 1
	}
	if verbose {
		fmt.Fprintf(os.Stderr, "replay: %s passes\n", file)
	}
	return 0
}

func writeStats() {
	if outDir == "" {
		return
	}
	mu.Lock()
	defer mu.Unlock()
	type out struct {
		Property   string         `json:"property"`
		Tier       string         `json:"tier"`
		Seed       uint64         `json:"seed"`
		Shard      int            `json:"shard"`
		Shards     int            `json:"shards"`
		WallS      float64        `json:"wall_s"`
		Subs       []*Stat        `json:"subs"`
		Violations []violationRec `json:"violations"`
		Known      []knownRec     `json:"known"`
		Notes      []string       `json:"notes,omitempty"`
	}
	o := out{Property: Property, Tier: tier, Seed: seed, Shard: shard, Shards: Shards(), WallS: time.Since(start).Seconds(), Notes: notes}
	for _, name := range subOrder {
		s := subs[name]
		s.mu.Lock()
		s.Hashes = s.Hashes[:0]
		for h := range s.distinct {
			s.Hashes = append(s.Hashes, h)
		}
		sort.Slice(s.Hashes, func(i, j int) bool { return s.Hashes[i] < s.Hashes[j] })
		s.mu.Unlock()
		o.Subs = append(o.Subs, s)
	}
	for _, v := range violations {
		o.Violations = append(o.Violations, v)
	}
	sort.Slice(o.Violations, func(i, j int) bool { return o.Violations[i].Sub < o.Violations[j].Sub })
	for _, k := range knownSeen {
		o.Known = append(o.Known, k)
	}
	sort.Slice(o.Known, func(i, j int) bool { return o.Known[i].Key < o.Known[j].Key })
	b, _ := json.Marshal(o)
	os.MkdirAll(outDir, 0o755)
	name := fmt.Sprintf("stats-%d.json", shard)
	if os.Getenv("VERIF_FUZZ") != "" {
		// fuzz coordinator and workers are separate processes running this binary
		name = fmt.Sprintf("stats-fuzz-%d.json", os.Getpid())
	}
	os.WriteFile(filepath.Join(outDir, name), b, 0o644)
}

// ---------------------------------------------------------------- watchdog

// Watchdog reports a case that does not terminate: Enter/Leave bracket each
// evaluation; if one evaluation lasts longer than limit the case is saved as a
// violation (key <sub>/hang) and the process exits with status 1 after
// writing its statistics. It is the only place where time is an oracle; the
// limit is seven orders of magnitude above the normal cost.
type Watchdog struct {
	sub   string
	limit time.Duration
	mu    sync.Mutex
	cur   []byte
	seq   uint64
	since time.Time
}

func NewWatchdog(sub string, limit time.Duration) *Watchdog {
	w := &Watchdog{sub: sub, limit: limit}
	go w.loop()
	return w
}

func (w *Watchdog) Enter(input []byte) {
	w.mu.Lock()
	w.cur = input
	w.seq++
	w.since = time.Now()
	w.mu.Unlock()
}

func (w *Watchdog) Leave() {
	w.mu.Lock()
	w.cur = nil
	w.seq++
	w.mu.Unlock()
}

func (w *Watchdog) loop() {
	for {
		time.Sleep(w.limit / 10)
		w.mu.Lock()
		cur, since := w.cur, w.since
		w.mu.Unlock()
		if cur == nil || time.Since(since) < w.limit {
			continue
		}
		dir := replayDir()
		os.MkdirAll(dir, 0o755)
		file := filepath.Join(dir, fmt.Sprintf("%s-hang-s%d-%d.json", sanitize(w.sub), seed, shard))
		doc := map[string]any{
			"property": Property, "sub": w.sub, "key": w.sub + "/hang",
			"message": fmt.Sprintf("evaluation did not terminate within %v", w.limit),
			"tier":    tier, "seed": seed, "shard": shard, "case": map[string]any{"bytes": fmt.Sprintf("%x", cur)},
		}
		b, _ := json.MarshalIndent(doc, "", " ")
		os.WriteFile(file, b, 0o644)
		mu.Lock()
		violations[w.sub+"/hang"] = violationRec{Sub: w.sub, Key: w.sub + "/hang", Replay: file, Msg: "evaluation did not terminate"}
		mu.Unlock()
		fmt.Fprintf(os.Stderr, "VERIF-VIOLATION property=%s sub=%s key=%s replay=%s\n", Property, w.sub, w.sub+"/hang", file)
		writeStats()
		os.Exit(1)
	}
}

// ---------------------------------------------------------------- native fuzzing

// FuzzBytes registers a native go fuzz target over byte strings: the semantic
// oracle runs inside the target. seeds populate the corpus. It only does real
// work in the thorough tier, where the driver runs the instrumented binary
// with -test.fuzz.
func FuzzBytes(f *testing.F, seeds [][]byte, eval func(b []byte) error, observe func(b []byte)) {
	for _, s := range seeds {
		f.Add(s)
	}
	f.Fuzz(func(t *testing.T, b []byte) {
		if observe != nil {
			observe(b)
		}
		if err := eval(append([]byte{}, b...)); err != nil {
			t.Fatal(err)
		}
	})
}

// OnlyFirstShard skips deterministic tables and enumerations that are not split
// over the shards, so that they are counted once in the merged evidence.
func OnlyFirstShard(t *testing.T) {
	if Shard() != 0 {
		t.Skip("deterministic enumeration: runs in shard 0 only")
	}
}
