package spec

import (
	"math"
)

// Stop16 is a gradient stop with premultiplied 16-bit channels.
type Stop16 struct {
	Offset     float64
	R, G, B, A float64
}

// Candidate is one acceptable colour with a per-channel tolerance (16-bit units).
type Candidate struct {
	R, G, B, A float64
	Tol        float64
	Why        string
}

// colourAt interpolates the stops piece-wise linearly in premultiplied space
// at offset t in [0,1].
func colourAt(stops []Stop16, t float64) (r, g, b, a float64) {
	if t <= stops[0].Offset {
		s := stops[0]
		return s.R, s.G, s.B, s.A
	}
	for i := 1; i < len(stops); i++ {
		s0, s1 := stops[i-1], stops[i]
		if t <= s1.Offset {
			u := (t - s0.Offset) / (s1.Offset - s0.Offset)
			return s0.R + u*(s1.R-s0.R), s0.G + u*(s1.G-s0.G), s0.B + u*(s1.B-s0.B), s0.A + u*(s1.A-s0.A)
		}
	}
	s := stops[len(stops)-1]
	return s.R, s.G, s.B, s.A
}

// maxSlope is the steepest channel slope (16-bit units per offset unit).
func maxSlope(stops []Stop16) float64 {
	m := 0.0
	for i := 1; i < len(stops); i++ {
		w := stops[i].Offset - stops[i-1].Offset
		for _, d := range []float64{stops[i].R - stops[i-1].R, stops[i].G - stops[i-1].G, stops[i].B - stops[i-1].B, stops[i].A - stops[i-1].A} {
			if s := math.Abs(d) / w; s > m {
				m = s
			}
		}
	}
	return m
}

// localSlope is the steepest channel slope among the segments that meet [t-delta, t+delta].
func localSlope(stops []Stop16, t, delta float64) float64 {
	m := 0.0
	for i := 1; i < len(stops); i++ {
		if stops[i].Offset < t-delta || stops[i-1].Offset > t+delta {
			continue
		}
		w := stops[i].Offset - stops[i-1].Offset
		for _, d := range []float64{stops[i].R - stops[i-1].R, stops[i].G - stops[i-1].G, stops[i].B - stops[i-1].B, stops[i].A - stops[i-1].A} {
			if s := math.Abs(d) / w; s > m {
				m = s
			}
		}
	}
	return m
}

// GradientCandidates returns the colours the statement allows for a gradient
// evaluated at offset o known to within +-delta: the spread function is applied
// with an interval, so a discontinuity inside the interval admits either side.
func GradientCandidates(stops []Stop16, spread uint8, o, delta float64) []Candidate {
	return GradientCandidates2(stops, spread, o, delta, delta)
}

// GradientCandidates2 separates the two uses of the rounding bound: disc is
// the half-width of the interval used to decide on which side of a
// discontinuity the offset lies (0 when the offset is known exactly), delta
// bounds the rounding of the offset for the colour tolerance.
func GradientCandidates2(stops []Stop16, spread uint8, o, disc, delta float64) []Candidate {
	at := func(t float64, why string) Candidate {
		r, g, b, a := colourAt(stops, t)
		// the steepest segment the offset can lie in, given its rounding bound (a hard edge
		// elsewhere in the gradient does not loosen the verdict here)
		return Candidate{r, g, b, a, 1 + 1e-6 + 2*localSlope(stops, t, delta)*delta, why}
	}
	transparent := Candidate{0, 0, 0, 0, 0, "transparent (spread none, outside [0,1])"}
	lo, hi := o-disc, o+disc
	var out []Candidate
	switch spread {
	case 0: // none
		if hi >= 0 && lo <= 1 {
			out = append(out, at(math.Min(1, math.Max(0, o)), "inside [0,1]"))
		}
		if lo < 0 || hi > 1 {
			out = append(out, transparent)
		}
	case 1: // pad
		out = append(out, at(math.Min(1, math.Max(0, o)), "pad"))
	case 2: // reflect: triangle wave of period 2 (continuous)
		r := math.Mod(math.Abs(o), 2) // the wave is even: no 2 - tiny, which would round to 2
		if r > 1 {
			r = 2 - r
		}
		out = append(out, at(r, "reflect"))
	case 3: // repeat: fractional part; every integer is a discontinuity
		if o >= 0 && o <= 1 {
			out = append(out, at(o, "repeat, inside [0,1]"))
		} else {
			out = append(out, at(o-math.Floor(o), "repeat, fractional part"))
		}
		// disc == 0: the offset is exact, so is its fractional part (0 at an integer outside [0,1])
		if disc > 0 && (math.Floor(hi) != math.Floor(lo) || lo == math.Floor(lo) || hi == math.Floor(hi)) {
			out = append(out, at(0, "repeat, just above an integer"), at(1, "repeat, just below an integer"))
		}
	}
	return out
}
