package spec

import (
	"image/color"

	"verif/internal/ops"
)

var Black = color.RGBA{0, 0, 0, 0xff}

var base5 = [5]uint8{0x00, 0x40, 0x80, 0xc0, 0xff}

// Color1 is the spec's 1-byte colour table.
func Color1(x byte) ops.ColorV {
	switch {
	case x < 125:
		return ops.ColorV{T: 0, R: base5[x/25], G: base5[(x/5)%5], B: base5[x%5], A: 0xff}
	case x == 125:
		return ops.ColorV{T: 0, R: 0xc0, G: 0xc0, B: 0xc0, A: 0xc0}
	case x == 126:
		return ops.ColorV{T: 0, R: 0x80, G: 0x80, B: 0x80, A: 0x80}
	case x == 127:
		return ops.ColorV{T: 0}
	case x < 192:
		return ops.ColorV{T: 1, R: x - 128}
	}
	return ops.ColorV{T: 2, R: x - 192}
}

func Color2(b0, b1 byte) ops.ColorV {
	return ops.ColorV{T: 0, R: (b0 >> 4) * 0x11, G: (b0 & 15) * 0x11, B: (b1 >> 4) * 0x11, A: (b1 & 15) * 0x11}
}

func Color3Direct(b0, b1, b2 byte) ops.ColorV { return ops.ColorV{T: 0, R: b0, G: b1, B: b2, A: 0xff} }
func Color4(b0, b1, b2, b3 byte) ops.ColorV   { return ops.ColorV{T: 0, R: b0, G: b1, B: b2, A: b3} }
func Color3Indirect(t, c0, c1 byte) ops.ColorV {
	return ops.ColorV{T: 3, R: t, G: c0, B: c1}
}

// ColorForm numbers the five encodings: 0 = 1 byte, 1 = 2 byte, 2 = 3 byte
// direct, 3 = 4 byte, 4 = 3 byte indirect.
var ColorFormLen = [5]int{1, 2, 3, 4, 3}

// DecodeColor decodes a colour in the given form; n == 0 on short input.
func DecodeColor(form int, b []byte) (c ops.ColorV, n int) {
	n = ColorFormLen[form]
	if len(b) < n {
		return ops.ColorV{}, 0
	}
	switch form {
	case 0:
		return Color1(b[0]), n
	case 1:
		return Color2(b[0], b[1]), n
	case 2:
		return Color3Direct(b[0], b[1], b[2]), n
	case 3:
		return Color4(b[0], b[1], b[2], b[3]), n
	}
	return Color3Indirect(b[0], b[1], b[2]), n
}

func Premultiplied(c color.RGBA) bool { return c.R <= c.A && c.G <= c.A && c.B <= c.A }

// IsGradient: "Any color register whose alpha value is 0 but whose blue value
// is at least 128 is a gradient."
func IsGradient(c color.RGBA) bool { return c.A == 0 && c.B >= 128 }

// Resolve gives the RGBA value of a colour in context.
func Resolve(c ops.ColorV, pal, creg *[64]color.RGBA) color.RGBA {
	switch c.T {
	case 0:
		return c.RGBA()
	case 1:
		return pal[c.R&63]
	case 2:
		return creg[c.R&63]
	case 3:
		c0 := Resolve(Color1(c.G), pal, creg)
		c1 := Resolve(Color1(c.B), pal, creg)
		t := uint32(c.R)
		mix := func(a, b uint8) uint8 { return uint8(((255-t)*uint32(a) + t*uint32(b) + 128) / 255) }
		return color.RGBA{mix(c0.R, c1.R), mix(c0.G, c1.G), mix(c0.B, c1.B), mix(c0.A, c1.A)}
	}
	return color.RGBA{}
}

// ShortestColorForm is the shortest form in which a direct RGBA value can be
// written exactly: 0 (1 byte), 1 (2 bytes), 2 (3 bytes direct) or 3 (4 bytes).
func ShortestColorForm(c color.RGBA) int {
	if _, ok := Encode1RGBA(c); ok {
		return 0
	}
	if c.R%0x11 == 0 && c.G%0x11 == 0 && c.B%0x11 == 0 && c.A%0x11 == 0 {
		return 1
	}
	if c.A == 0xff {
		return 2
	}
	return 3
}

// Encode1RGBA inverts the direct part of the 1-byte table.
func Encode1RGBA(c color.RGBA) (byte, bool) {
	switch c {
	case color.RGBA{0xc0, 0xc0, 0xc0, 0xc0}:
		return 125, true
	case color.RGBA{0x80, 0x80, 0x80, 0x80}:
		return 126, true
	case color.RGBA{}:
		return 127, true
	}
	if c.A != 0xff {
		return 0, false
	}
	idx := func(v uint8) int {
		for i, b := range base5 {
			if b == v {
				return i
			}
		}
		return -1
	}
	r, g, b := idx(c.R), idx(c.G), idx(c.B)
	if r < 0 || g < 0 || b < 0 {
		return 0, false
	}
	return byte(25*r + 5*g + b), true
}

// Gradient fields of a gradient-encoding colour.
type GradientBits struct {
	NStops, CBase, NBase uint8
	Spread               uint8 // 0 none, 1 pad, 2 reflect, 3 repeat
	Radial               bool
}

func DecodeGradientBits(c color.RGBA) GradientBits {
	return GradientBits{
		NStops: c.R & 0x3f,
		CBase:  c.G & 0x3f,
		Spread: c.G >> 6,
		NBase:  c.B & 0x3f,
		Radial: c.B&0x40 != 0,
	}
}

func EncodeGradientBits(g GradientBits) color.RGBA {
	b := uint8(0x80) | g.NBase&0x3f
	if g.Radial {
		b |= 0x40
	}
	return color.RGBA{R: g.NStops & 0x3f, G: g.CBase&0x3f | g.Spread<<6, B: b, A: 0}
}
