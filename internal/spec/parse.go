package spec

import (
	"image/color"

	"github.com/reactivego/ivg"

	"verif/internal/ops"
)

type ivgViewBox = ivg.ViewBox

// Parsed is the reference reading of a byte string.
type Parsed struct {
	OK      bool   // the whole string is well formed
	MetaOK  bool   // magic and every metadata chunk are valid
	ErrPos  int    // offset of the first byte of the element that is ill-formed (when !OK)
	Err     string // why
	ViewBox [4]float32
	Palette [64]color.RGBA // suggested palette, sanitised as the spec says
	NChunks uint32
	MIDs    []uint32
	// Ops are the calls the specification assigns, Reset first (present iff
	// MetaOK); when !OK these are the calls before the error.
	Ops []ops.Op
	// EndsInDrawing: input ended (or failed) while a path was open.
	EndsInDrawing bool
	// InstrStart is the offset of the first instruction byte.
	InstrStart int
	// NonCanonical: some number uses a longer form than its value needs (the
	// encoder never emits those).
	NonCanonical bool
	// NonCanonicalKind: the same, per number kind.
	NonCanonicalKind [4]bool
	// Nums lists every number of the stream in order (only with
	// Options.RecordNums).
	Nums []NumRec
	// Opcodes seen, per mode (coverage bookkeeping).
	StylingOpcodes, DrawingOpcodes [256]bool
}

// NumRec is one encoded number.
type NumRec struct {
	Kind    NumKind
	Width   int
	Payload uint32
	Value   float32
	Pos     int
}

// Options relaxes the reference where a caller wants to study a sub-language.
type Options struct {
	// RecordNums fills Parsed.Nums.
	RecordNums bool
	// AllowUnorderedMIDs accepts metadata chunks in any order and repeated
	// (the specification forbids this; only used to classify inputs).
	AllowUnorderedMIDs bool
}

var Magic = []byte{0x89, 'I', 'V', 'G'}

type drawRow struct {
	lo, hi byte
	kind   ops.Kind
	ncoord int
	arc    bool
}

// The drawing-mode opcode table, transcribed from the "Drawing Opcodes" section.
var drawTable = []drawRow{
	{0x00, 0x1f, ops.AbsLineTo, 2, false},
	{0x20, 0x3f, ops.RelLineTo, 2, false},
	{0x40, 0x4f, ops.AbsSmoothQuadTo, 2, false},
	{0x50, 0x5f, ops.RelSmoothQuadTo, 2, false},
	{0x60, 0x6f, ops.AbsQuadTo, 4, false},
	{0x70, 0x7f, ops.RelQuadTo, 4, false},
	{0x80, 0x8f, ops.AbsSmoothCubeTo, 4, false},
	{0x90, 0x9f, ops.RelSmoothCubeTo, 4, false},
	{0xa0, 0xaf, ops.AbsCubeTo, 6, false},
	{0xb0, 0xbf, ops.RelCubeTo, 6, false},
	{0xc0, 0xcf, ops.AbsArcTo, 0, true},
	{0xd0, 0xdf, ops.RelArcTo, 0, true},
	{0xe1, 0xe1, ops.ClosePathEndPath, 0, false},
	{0xe2, 0xe2, ops.ClosePathAbsMoveTo, 2, false},
	{0xe3, 0xe3, ops.ClosePathRelMoveTo, 2, false},
	{0xe6, 0xe6, ops.AbsHLineTo, 1, false},
	{0xe7, 0xe7, ops.RelHLineTo, 1, false},
	{0xe8, 0xe8, ops.AbsVLineTo, 1, false},
	{0xe9, 0xe9, ops.RelVLineTo, 1, false},
}

// DrawOpcode returns the base opcode and the maximum repeat count of a
// drawing kind.
func DrawOpcode(k ops.Kind) (base byte, maxRep int) {
	for _, r := range drawTable {
		if r.kind == k {
			return r.lo, int(r.hi-r.lo) + 1
		}
	}
	return 0, 0
}

type parser struct {
	b   []byte
	pos int
	p   *Parsed
	rec bool
}

func (s *parser) fail(at int, why string) *Parsed {
	s.p.OK = false
	s.p.ErrPos = at
	s.p.Err = why
	return s.p
}

func (s *parser) num(k NumKind) (float32, uint32, bool) {
	u, n := DecodeNatural(s.b[s.pos:])
	if n == 0 {
		return 0, 0, false
	}
	v := Value(k, u, n)
	if s.rec {
		s.p.Nums = append(s.p.Nums, NumRec{Kind: k, Width: n, Payload: u, Value: v, Pos: s.pos})
	}
	if k == Natural {
		if n > NaturalWidth(u) {
			s.p.NonCanonical = true
			s.p.NonCanonicalKind[k] = true
		}
	} else if w, _ := ExactWidth(k, v); n > w {
		s.p.NonCanonical = true
		s.p.NonCanonicalKind[k] = true
	}
	s.pos += n
	return v, u, true
}

// Parse reads b as an IconVG FFV0 graphic.
func Parse(b []byte) *Parsed { return ParseOpt(b, Options{}) }

func ParseOpt(b []byte, opt Options) *Parsed {
	p := &Parsed{ViewBox: [4]float32{-32, -32, 32, 32}}
	for i := range p.Palette {
		p.Palette[i] = Black
	}
	s := &parser{b: b, p: p, rec: opt.RecordNums}

	// Magic identifier.
	if len(b) < 4 || b[0] != Magic[0] || b[1] != Magic[1] || b[2] != Magic[2] || b[3] != Magic[3] {
		return s.fail(0, "bad magic")
	}
	s.pos = 4

	// Metadata.
	_, nChunks, ok := s.num(Natural)
	if !ok {
		return s.fail(4, "missing number of metadata chunks")
	}
	p.NChunks = nChunks
	prevMID := int64(-1)
	for i := uint32(0); i < nChunks; i++ {
		at := s.pos
		_, length, ok := s.num(Natural)
		if !ok {
			return s.fail(at, "missing chunk length")
		}
		bodyStart := s.pos
		if int64(length) > int64(len(b)-bodyStart) {
			return s.fail(at, "chunk longer than input")
		}
		bodyEnd := bodyStart + int(length)
		_, mid, ok := s.num(Natural)
		if !ok || s.pos > bodyEnd {
			return s.fail(bodyStart, "missing MID")
		}
		p.MIDs = append(p.MIDs, mid)
		if !opt.AllowUnorderedMIDs && int64(mid) <= prevMID {
			return s.fail(bodyStart, "MIDs must be strictly increasing")
		}
		prevMID = int64(mid)
		switch mid {
		case 0:
			var vb [4]float32
			for j := range vb {
				v, _, ok := s.num(Coordinate)
				if !ok || s.pos > bodyEnd {
					return s.fail(bodyStart, "viewBox cut short")
				}
				vb[j] = v
			}
			for _, v := range vb {
				if v != v || v-v != 0 { // NaN or infinite
					return s.fail(bodyStart, "viewBox not finite")
				}
			}
			if vb[0] > vb[2] || vb[1] > vb[3] {
				return s.fail(bodyStart, "viewBox inverted")
			}
			p.ViewBox = vb
		case 1:
			if s.pos >= bodyEnd {
				return s.fail(bodyStart, "empty palette chunk")
			}
			hdr := b[s.pos]
			s.pos++
			n, form := int(hdr&0x3f)+1, int(hdr>>6)
			for j := 0; j < n; j++ {
				c, k := DecodeColor(form, b[s.pos:bodyEnd])
				if k == 0 {
					return s.fail(bodyStart, "palette cut short")
				}
				s.pos += k
				rgba := Black
				if c.T == 0 && Premultiplied(c.RGBA()) {
					rgba = c.RGBA()
				}
				p.Palette[j] = rgba
			}
		default:
			return s.fail(bodyStart, "unknown MID")
		}
		if s.pos != bodyEnd {
			return s.fail(at, "chunk length disagrees with content")
		}
	}
	p.MetaOK = true
	p.InstrStart = s.pos
	p.Ops = append(p.Ops, ops.OpReset(vbOf(p.ViewBox), p.Palette))

	// Instructions.
	drawing := false
	for s.pos < len(b) {
		at := s.pos
		op := b[s.pos]
		s.pos++
		if !drawing {
			p.StylingOpcodes[op] = true
			switch {
			case op < 0x40:
				p.Ops = append(p.Ops, ops.OpSetCSel(op&0x3f))
			case op < 0x80:
				p.Ops = append(p.Ops, ops.OpSetNSel(op&0x3f))
			case op < 0xa8:
				form := int(op-0x80) / 8
				adj, incr := op&7, false
				if adj == 7 {
					adj, incr = 0, true
				}
				c, n := DecodeColor(form, b[s.pos:])
				if n == 0 {
					p.EndsInDrawing = drawing
					return s.fail(at, "colour cut short")
				}
				s.pos += n
				p.Ops = append(p.Ops, ops.OpSetCReg(adj, incr, c))
			case op < 0xc0:
				kind := [3]NumKind{Real, Coordinate, ZeroToOne}[int(op-0xa8)/8]
				adj, incr := op&7, false
				if adj == 7 {
					adj, incr = 0, true
				}
				v, _, ok := s.num(kind)
				if !ok {
					return s.fail(at, "number cut short")
				}
				p.Ops = append(p.Ops, ops.OpSetNReg(adj, incr, v))
			case op < 0xc7:
				x, _, ok1 := s.num(Coordinate)
				y, _, ok2 := float32(0), uint32(0), false
				if ok1 {
					y, _, ok2 = s.num(Coordinate)
				}
				if !ok1 || !ok2 {
					return s.fail(at, "start-path coordinates cut short")
				}
				p.Ops = append(p.Ops, ops.OpStartPath(op&7, x, y))
				drawing = true
			case op == 0xc7:
				l0, _, ok1 := s.num(Real)
				l1, _, ok2 := float32(0), uint32(0), false
				if ok1 {
					l1, _, ok2 = s.num(Real)
				}
				if !ok1 || !ok2 {
					return s.fail(at, "LOD cut short")
				}
				p.Ops = append(p.Ops, ops.OpSetLOD(l0, l1))
			default:
				return s.fail(at, "reserved styling opcode")
			}
			continue
		}

		// Drawing mode.
		p.DrawingOpcodes[op] = true
		p.EndsInDrawing = true
		var row *drawRow
		for i := range drawTable {
			if drawTable[i].lo <= op && op <= drawTable[i].hi {
				row = &drawTable[i]
				break
			}
		}
		if row == nil {
			return s.fail(at, "reserved drawing opcode")
		}
		reps := int(op-row.lo) + 1
		for r := 0; r < reps; r++ {
			if row.arc {
				var f [5]float32
				var flags uint32
				okAll := true
				for j := 0; j < 6 && okAll; j++ {
					switch j {
					case 2:
						f[2], _, okAll = s.num(ZeroToOne)
					case 3:
						_, flags, okAll = s.num(Natural)
					case 0, 1:
						f[j], _, okAll = s.num(Coordinate)
					default:
						f[j-1], _, okAll = s.num(Coordinate)
					}
				}
				if !okAll {
					return s.fail(at, "arc operands cut short")
				}
				p.Ops = append(p.Ops, ops.OpArc(row.kind, f[0], f[1], f[2], flags&1 != 0, flags&2 != 0, f[3], f[4]))
				continue
			}
			var f [6]float32
			for j := 0; j < row.ncoord; j++ {
				v, _, ok := s.num(Coordinate)
				if !ok {
					return s.fail(at, "coordinates cut short")
				}
				f[j] = v
			}
			p.Ops = append(p.Ops, ops.OpDraw(row.kind, f[:row.ncoord]...))
		}
		if row.kind == ops.ClosePathEndPath {
			drawing = false
			p.EndsInDrawing = false
		}
	}
	p.EndsInDrawing = drawing
	p.OK = true
	return p
}

func vbOf(v [4]float32) (vb ivgViewBox) {
	return ivgViewBox{MinX: v[0], MinY: v[1], MaxX: v[2], MaxY: v[3]}
}
