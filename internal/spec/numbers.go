// Package spec holds reference models written from spec/iconvg-spec-v0.md (and
// the SVG specification where IconVG defers to it), not from the code under test.
package spec

import (
	"math"
	"math/big"
)

// NumKind selects one of the four number interpretations.
type NumKind uint8

const (
	Natural NumKind = iota
	Real
	Coordinate
	ZeroToOne
)

func (k NumKind) String() string {
	return [...]string{"natural", "real", "coordinate", "zero-to-one"}[k]
}

// Width returns the encoded width announced by the first byte: the low two bits
// select 1, 2 or 4 bytes.
func Width(first byte) int {
	if first&1 == 0 {
		return 1
	}
	if first&2 == 0 {
		return 2
	}
	return 4
}

// DecodeNatural decodes the natural number at the start of b. n == 0 means the
// number is cut short by the end of b.
func DecodeNatural(b []byte) (u uint32, n int) {
	if len(b) == 0 {
		return 0, 0
	}
	w := Width(b[0])
	if len(b) < w {
		return 0, 0
	}
	var raw uint32
	for i := 0; i < w; i++ {
		raw |= uint32(b[i]) << (8 * uint(i))
	}
	if w == 1 {
		return raw >> 1, 1
	}
	return raw >> 2, w
}

func ratToF32(num, den int64) float32 {
	r := new(big.Rat).SetFrac64(num, den)
	f, _ := r.Float32()
	return f
}

// Value gives the number a (natural payload, width) pair denotes under kind k.
// For Natural the payload itself is returned as a float (exact below 2^24; use
// the payload for comparisons).
func Value(k NumKind, u uint32, w int) float32 {
	if w == 4 && k != Natural {
		return math.Float32frombits(u << 2)
	}
	switch k {
	case Real, Natural:
		return float32(u)
	case Coordinate:
		if w == 1 {
			return float32(int64(u) - 64)
		}
		return ratToF32(int64(u)-64*128, 64)
	case ZeroToOne:
		if w == 1 {
			return ratToF32(int64(u), 120)
		}
		return ratToF32(int64(u), 15120)
	}
	return 0
}

// DecodeNumber decodes a number of kind k at the start of b.
func DecodeNumber(k NumKind, b []byte) (f float32, n int) {
	u, n := DecodeNatural(b)
	if n == 0 {
		return 0, 0
	}
	return Value(k, u, n), n
}

// EncodeNaturalW writes payload u in exactly w bytes (w in 1, 2, 4); u must fit
// (7, 14 or 30 bits).
func EncodeNaturalW(u uint32, w int) []byte {
	switch w {
	case 1:
		return []byte{byte(u << 1)}
	case 2:
		v := u<<2 | 1
		return []byte{byte(v), byte(v >> 8)}
	}
	v := u<<2 | 3
	return []byte{byte(v), byte(v >> 8), byte(v >> 16), byte(v >> 24)}
}

// NaturalWidth is the shortest width that holds u.
func NaturalWidth(u uint32) int {
	switch {
	case u < 1<<7:
		return 1
	case u < 1<<14:
		return 2
	}
	return 4
}

// isInt reports whether f is an integer in [lo, hi).
func isInt(f float64, lo, hi float64) bool {
	return f == math.Trunc(f) && f >= lo && f < hi
}

// ExactWidth returns the shortest width in which f is exactly representable as
// a number of kind k (Real, Coordinate or ZeroToOne), and whether even the
// 4-byte form is exact (false: f has low mantissa bits set, or is a NaN whose
// payload does not survive).
func ExactWidth(k NumKind, f float32) (w int, exact bool) {
	x := float64(f)
	switch k {
	case Real:
		if isInt(x, 0, 128) {
			return 1, true
		}
		if isInt(x, 128, 16384) {
			return 2, true
		}
	case Coordinate:
		if isInt(x, -64, 64) {
			return 1, true
		}
		if isInt(x*64, -128*64, 128*64) { // x*64 is exact in float64
			return 2, true
		}
	case ZeroToOne:
		// f is exactly representable in a short form iff it equals the
		// float32 nearest to u/120 or u/15120 for some u.
		if x >= 0 && x < 1.1 {
			u := int64(math.Round(x * 120))
			if u >= 0 && u < 128 && ratToF32(u, 120) == f {
				return 1, true
			}
			u = int64(math.Round(x * 15120))
			if u >= 0 && u < 16384 && ratToF32(u, 15120) == f {
				return 2, true
			}
		}
	}
	bits := math.Float32bits(f)
	if f != f {
		return 4, false
	}
	return 4, bits&3 == 0
}

// ULPDistance is the distance between two finite floats of the same sign in
// units in the last place of float32.
func ULPDistance(a, b float32) uint32 {
	x, y := math.Float32bits(a), math.Float32bits(b)
	if x > y {
		return x - y
	}
	return y - x
}

// ThirtyBitRule is the documented behaviour of the 4-byte form: infinities are
// preserved, NaN stays non-finite, everything else keeps its sign and is within
// maxULP units in the last place.
func ThirtyBitRule(orig, got float32, maxULP uint32) bool {
	o, g := float64(orig), float64(got)
	switch {
	case math.IsNaN(o):
		return math.IsNaN(g) || math.IsInf(g, 0)
	case math.IsInf(o, 0):
		return g == o
	}
	if math.IsNaN(g) || math.IsInf(g, 0) {
		// rounding the mantissa of the largest finite values must not
		// overflow into the exponent
		return false
	}
	if math.Signbit(o) != math.Signbit(g) {
		return false
	}
	return ULPDistance(orig, got) <= maxULP
}
