package spec

import (
	"image/color"
	"math"

	"verif/internal/ops"
)

// PaintKind is what the specification's machine prescribes for a path.
type PaintKind int

const (
	PaintFlat PaintKind = iota
	PaintGradient
	PaintSkipped     // no rasteriser activity at all
	PaintUnspecified // gradient with fewer than two (otherwise valid) stops: the spec assigns no paint
)

func (k PaintKind) String() string {
	return [...]string{"flat", "gradient", "skipped", "unspecified"}[k]
}

// GradientSpec is a gradient as the registers describe it.
type GradientSpec struct {
	Radial  bool
	Spread  uint8
	Offsets []float32
	Colors  []color.RGBA
	Matrix  [6]float32 // viewBox -> gradient space: a b c / d e f
}

type PathPaint struct {
	Kind   PaintKind
	Flat   color.RGBA
	Grad   GradientSpec
	Reason string // why skipped
	Source color.RGBA
}

// VM is the register machine of the specification.
type VM struct {
	Pal        [64]color.RGBA
	CReg       [64]color.RGBA
	NReg       [64]float32
	CSel, NSel uint8
	LOD0, LOD1 float32
}

var posInf = math.Float32frombits(0x7f800000)

func (m *VM) Reset(pal [64]color.RGBA) {
	*m = VM{Pal: pal, CReg: pal, LOD1: posInf}
}

// Step executes one call. For StartPath it returns the paint prescribed for a
// rasterisation of the given height.
func (m *VM) Step(o ops.Op, height int) *PathPaint {
	switch o.K {
	case ops.Reset:
		m.Reset(o.Palette())
	case ops.SetCSel:
		m.CSel = o.Sel & 63
	case ops.SetNSel:
		m.NSel = o.Sel & 63
	case ops.SetCReg:
		// "resolved when stored"
		m.CReg[(m.CSel-o.Adj)&63] = Resolve(*o.C, &m.Pal, &m.CReg)
		if o.Incr {
			m.CSel = (m.CSel + 1) & 63
		}
	case ops.SetNReg:
		m.NReg[(m.NSel-o.Adj)&63] = o.Arg(0)
		if o.Incr {
			m.NSel = (m.NSel + 1) & 63
		}
	case ops.SetLOD:
		m.LOD0, m.LOD1 = o.Arg(0), o.Arg(1)
	case ops.StartPath:
		return m.paint(o.Adj, height)
	}
	return nil
}

func (m *VM) paint(adj uint8, height int) *PathPaint {
	c := m.CReg[(m.CSel-adj)&63]
	p := &PathPaint{Source: c}
	h := float32(height)
	lodOK := m.LOD0 <= h && h < m.LOD1
	switch {
	case Premultiplied(c):
		if c.A == 0 {
			p.Kind, p.Reason = PaintSkipped, "fully transparent"
		} else {
			p.Kind, p.Flat = PaintFlat, c
		}
	case IsGradient(c):
		g := DecodeGradientBits(c)
		p.Grad.Radial, p.Grad.Spread = g.Radial, g.Spread
		valid := true
		prev := float32(-1)
		for i := uint8(0); i < g.NStops; i++ {
			sc := m.CReg[(g.CBase+i)&63]
			off := m.NReg[(g.NBase+i)&63]
			if !Premultiplied(sc) {
				valid, p.Reason = false, "gradient stop colour not premultiplied"
				break
			}
			if !(off >= 0 && off <= 1) {
				valid, p.Reason = false, "gradient stop offset outside [0,1]"
				break
			}
			if i > 0 && !(off > prev) {
				valid, p.Reason = false, "gradient stop offsets not strictly increasing"
				break
			}
			prev = off
			p.Grad.Offsets = append(p.Grad.Offsets, off)
			p.Grad.Colors = append(p.Grad.Colors, sc)
		}
		for j := 0; j < 6; j++ {
			p.Grad.Matrix[j] = m.NReg[(g.NBase-6+uint8(j))&63]
		}
		switch {
		case !valid:
			p.Kind = PaintSkipped
		case g.NStops < 2:
			p.Kind = PaintUnspecified
		default:
			p.Kind = PaintGradient
		}
	default:
		p.Kind, p.Reason = PaintSkipped, "non-gradient non-premultiplied colour"
	}
	if !lodOK {
		p.Kind, p.Reason = PaintSkipped, "outside the level-of-detail range"
	}
	return p
}
