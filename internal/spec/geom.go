package spec

import (
	"verif/internal/ops"
	"verif/internal/rast"
)

// Seg is one expected rasteriser call in pixel space (float64).
type Seg struct {
	K rast.CallKind
	P [6]float64
}

// Geom turns drawing ops into expected rasteriser segments: SVG path semantics
// in viewBox space, mapped by the affine viewBox -> rectangle map with
// independent x and y scale.
type Geom struct {
	MinX, MinY float64
	SX, SY     float64
	// state, in viewBox-independent pixel space
	penX, penY     float64
	startX, startY float64
	prev           int // 0 none, 1 quad, 2 cube
	ctlX, ctlY     float64
}

func NewGeom(vb [4]float32, w, h int) *Geom {
	return &Geom{
		MinX: float64(vb[0]), MinY: float64(vb[1]),
		SX: float64(w) / (float64(vb[2]) - float64(vb[0])),
		SY: float64(h) / (float64(vb[3]) - float64(vb[1])),
	}
}

func (g *Geom) Abs(x, y float32) (float64, float64) {
	return (float64(x) - g.MinX) * g.SX, (float64(y) - g.MinY) * g.SY
}

func (g *Geom) rel(x, y float32) (float64, float64) {
	return g.penX + float64(x)*g.SX, g.penY + float64(y)*g.SY
}

func (g *Geom) Pen() (float64, float64) { return g.penX, g.penY }

// SetPen forces the pen (used after arcs, whose geometry is checked elsewhere).
func (g *Geom) SetPen(x, y float64) { g.penX, g.penY = x, y; g.prev = 0 }

// Step returns the rasteriser calls prescribed for one drawing op (StartPath
// included; arcs excluded).
func (g *Geom) Step(o ops.Op) []Seg {
	a := o.Arg
	pt := func(i int) (float64, float64) {
		if o.K.IsRelative() {
			return g.rel(a(i), a(i+1))
		}
		return g.Abs(a(i), a(i+1))
	}
	switch o.K {
	case ops.StartPath:
		x, y := g.Abs(a(0), a(1))
		g.penX, g.penY, g.startX, g.startY, g.prev = x, y, x, y, 0
		return []Seg{{K: rast.MoveTo, P: [6]float64{x, y}}}
	case ops.ClosePathEndPath:
		g.penX, g.penY, g.prev = g.startX, g.startY, 0
		return []Seg{{K: rast.ClosePath}}
	case ops.ClosePathAbsMoveTo, ops.ClosePathRelMoveTo:
		// close first: the pen returns to the start of the sub-path, so a
		// relative move is measured from there
		g.penX, g.penY = g.startX, g.startY
		x, y := pt(0)
		g.penX, g.penY, g.startX, g.startY, g.prev = x, y, x, y, 0
		return []Seg{{K: rast.ClosePath}, {K: rast.MoveTo, P: [6]float64{x, y}}}
	case ops.AbsHLineTo:
		x, _ := g.Abs(a(0), 0)
		g.penX, g.prev = x, 0
		return []Seg{{K: rast.LineTo, P: [6]float64{x, g.penY}}}
	case ops.RelHLineTo:
		g.penX, g.prev = g.penX+float64(a(0))*g.SX, 0
		return []Seg{{K: rast.LineTo, P: [6]float64{g.penX, g.penY}}}
	case ops.AbsVLineTo:
		_, y := g.Abs(0, a(0))
		g.penY, g.prev = y, 0
		return []Seg{{K: rast.LineTo, P: [6]float64{g.penX, y}}}
	case ops.RelVLineTo:
		g.penY, g.prev = g.penY+float64(a(0))*g.SY, 0
		return []Seg{{K: rast.LineTo, P: [6]float64{g.penX, g.penY}}}
	case ops.AbsLineTo, ops.RelLineTo:
		x, y := pt(0)
		g.penX, g.penY, g.prev = x, y, 0
		return []Seg{{K: rast.LineTo, P: [6]float64{x, y}}}
	case ops.AbsSmoothQuadTo, ops.RelSmoothQuadTo:
		cx, cy := g.penX, g.penY
		if g.prev == 1 {
			cx, cy = 2*g.penX-g.ctlX, 2*g.penY-g.ctlY
		}
		x, y := pt(0)
		g.penX, g.penY, g.prev, g.ctlX, g.ctlY = x, y, 1, cx, cy
		return []Seg{{K: rast.QuadTo, P: [6]float64{cx, cy, x, y}}}
	case ops.AbsQuadTo, ops.RelQuadTo:
		cx, cy := pt(0)
		x, y := pt(2)
		g.penX, g.penY, g.prev, g.ctlX, g.ctlY = x, y, 1, cx, cy
		return []Seg{{K: rast.QuadTo, P: [6]float64{cx, cy, x, y}}}
	case ops.AbsSmoothCubeTo, ops.RelSmoothCubeTo:
		c1x, c1y := g.penX, g.penY
		if g.prev == 2 {
			c1x, c1y = 2*g.penX-g.ctlX, 2*g.penY-g.ctlY
		}
		c2x, c2y := pt(0)
		x, y := pt(2)
		g.penX, g.penY, g.prev, g.ctlX, g.ctlY = x, y, 2, c2x, c2y
		return []Seg{{K: rast.CubeTo, P: [6]float64{c1x, c1y, c2x, c2y, x, y}}}
	case ops.AbsCubeTo, ops.RelCubeTo:
		c1x, c1y := pt(0)
		c2x, c2y := pt(2)
		x, y := pt(4)
		g.penX, g.penY, g.prev, g.ctlX, g.ctlY = x, y, 2, c2x, c2y
		return []Seg{{K: rast.CubeTo, P: [6]float64{c1x, c1y, c2x, c2y, x, y}}}
	}
	return nil
}
