// Package ops is the plain-data model of ivg.Destination calls.
package ops

import (
	"encoding/json"
	"fmt"
	"math"
	"strconv"
	"strings"
)

// F32 is a float32 whose JSON form preserves the exact bit pattern (NaN
// payloads, signed zero) and is still readable.
type F32 float32

func (f F32) Bits() uint32 { return math.Float32bits(float32(f)) }

func FromBits(b uint32) F32 { return F32(math.Float32frombits(b)) }

func (f F32) String() string {
	v := float32(f)
	if v != v {
		return fmt.Sprintf("nan:%08x", math.Float32bits(v))
	}
	return strconv.FormatFloat(float64(v), 'g', -1, 32)
}

func (f F32) MarshalJSON() ([]byte, error) { return json.Marshal(f.String()) }

func (f *F32) UnmarshalJSON(b []byte) error {
	var s string
	if err := json.Unmarshal(b, &s); err != nil {
		var x float64
		if err2 := json.Unmarshal(b, &x); err2 != nil {
			return err
		}
		*f = F32(float32(x))
		return nil
	}
	if strings.HasPrefix(s, "nan:") {
		u, err := strconv.ParseUint(s[4:], 16, 32)
		if err != nil {
			return err
		}
		*f = FromBits(uint32(u))
		return nil
	}
	x, err := strconv.ParseFloat(s, 32)
	if err != nil {
		return err
	}
	*f = F32(float32(x))
	return nil
}

// SameF32 reports bit equality, except that all NaNs form one class.
func SameF32(a, b float32) bool {
	if a != a && b != b {
		return true
	}
	return math.Float32bits(a) == math.Float32bits(b)
}

// Hex is a byte string with a hexadecimal JSON form.
type Hex []byte

func (h Hex) MarshalJSON() ([]byte, error) { return json.Marshal(fmt.Sprintf("%x", []byte(h))) }

func (h *Hex) UnmarshalJSON(b []byte) error {
	var s string
	if err := json.Unmarshal(b, &s); err != nil {
		return err
	}
	out := make([]byte, 0, len(s)/2)
	s = strings.ReplaceAll(s, " ", "")
	for i := 0; i+1 < len(s); i += 2 {
		u, err := strconv.ParseUint(s[i:i+2], 16, 8)
		if err != nil {
			return err
		}
		out = append(out, byte(u))
	}
	*h = out
	return nil
}
