package ops

import (
	"encoding/json"
	"fmt"
	"image/color"
	"strings"

	"github.com/reactivego/ivg"
)

type Kind uint8

const (
	Reset Kind = iota
	SetCSel
	SetNSel
	SetCReg
	SetNReg
	SetLOD
	StartPath
	ClosePathEndPath
	ClosePathAbsMoveTo
	ClosePathRelMoveTo
	AbsHLineTo
	RelHLineTo
	AbsVLineTo
	RelVLineTo
	AbsLineTo
	RelLineTo
	AbsSmoothQuadTo
	RelSmoothQuadTo
	AbsQuadTo
	RelQuadTo
	AbsSmoothCubeTo
	RelSmoothCubeTo
	AbsCubeTo
	RelCubeTo
	AbsArcTo
	RelArcTo
	NumKinds
)

var kindNames = [...]string{
	"Reset", "SetCSel", "SetNSel", "SetCReg", "SetNReg", "SetLOD", "StartPath", "ClosePathEndPath",
	"ClosePathAbsMoveTo", "ClosePathRelMoveTo", "AbsHLineTo", "RelHLineTo", "AbsVLineTo", "RelVLineTo",
	"AbsLineTo", "RelLineTo", "AbsSmoothQuadTo", "RelSmoothQuadTo", "AbsQuadTo", "RelQuadTo",
	"AbsSmoothCubeTo", "RelSmoothCubeTo", "AbsCubeTo", "RelCubeTo", "AbsArcTo", "RelArcTo",
}

func (k Kind) String() string {
	if int(k) < len(kindNames) {
		return kindNames[k]
	}
	return fmt.Sprintf("Kind(%d)", uint8(k))
}

func (k Kind) MarshalJSON() ([]byte, error) { return json.Marshal(k.String()) }

func (k *Kind) UnmarshalJSON(b []byte) error {
	var s string
	if err := json.Unmarshal(b, &s); err != nil {
		return err
	}
	for i, n := range kindNames {
		if n == s {
			*k = Kind(i)
			return nil
		}
	}
	return fmt.Errorf("unknown op kind %q", s)
}

// NArgs is the number of float32 operands of the kind (arcs: rx, ry, rot, x, y).
func (k Kind) NArgs() int {
	switch k {
	case SetNReg, AbsHLineTo, RelHLineTo, AbsVLineTo, RelVLineTo:
		return 1
	case SetLOD, StartPath, ClosePathAbsMoveTo, ClosePathRelMoveTo, AbsLineTo, RelLineTo, AbsSmoothQuadTo, RelSmoothQuadTo:
		return 2
	case AbsQuadTo, RelQuadTo, AbsSmoothCubeTo, RelSmoothCubeTo:
		return 4
	case AbsCubeTo, RelCubeTo:
		return 6
	case AbsArcTo, RelArcTo:
		return 5
	}
	return 0
}

// IsDrawing reports whether the kind is legal only inside a path.
func (k Kind) IsDrawing() bool { return k >= ClosePathEndPath && k < NumKinds }

// IsStyling reports whether the kind is legal only outside a path (StartPath included).
func (k Kind) IsStyling() bool { return k >= SetCSel && k <= StartPath }

func (k Kind) IsRelative() bool {
	switch k {
	case ClosePathRelMoveTo, RelHLineTo, RelVLineTo, RelLineTo, RelSmoothQuadTo, RelQuadTo, RelSmoothCubeTo, RelCubeTo, RelArcTo:
		return true
	}
	return false
}

// ColorV is an ivg.Color taken apart through its public accessors.
type ColorV struct {
	T          uint8 `json:"t"` // 0 RGBA, 1 palette index, 2 CREG, 3 blend
	R, G, B, A uint8
}

func (c ColorV) Color() ivg.Color {
	switch c.T {
	case 1:
		return ivg.PaletteIndexColor(c.R)
	case 2:
		return ivg.CRegColor(c.R)
	case 3:
		return ivg.BlendColor(c.R, c.G, c.B)
	}
	return ivg.RGBAColor(color.RGBA{c.R, c.G, c.B, c.A})
}

// Norm: palette and register indices are taken modulo 64 by the constructors.
func (c ColorV) Norm() ColorV {
	if c.T == 1 || c.T == 2 {
		c.R &= 0x3f
	}
	return c
}

func (c ColorV) RGBA() color.RGBA { return color.RGBA{c.R, c.G, c.B, c.A} }

func RGBAv(c color.RGBA) ColorV { return ColorV{0, c.R, c.G, c.B, c.A} }

// FromColor decomposes an ivg.Color using only exported methods.
func FromColor(c ivg.Color) ColorV {
	if x, ok := c.Encode3Indirect(); ok {
		return ColorV{3, x[0], x[1], x[2], 0}
	}
	if x, ok := c.Encode4(); ok {
		return ColorV{0, x[0], x[1], x[2], x[3]}
	}
	if x, ok := c.Encode1(); ok {
		if x >= 0xc0 {
			return ColorV{2, x & 0x3f, 0, 0, 0}
		}
		if x >= 0x80 {
			return ColorV{1, x & 0x3f, 0, 0, 0}
		}
	}
	return ColorV{T: 255}
}

func (c ColorV) String() string {
	switch c.T {
	case 0:
		return fmt.Sprintf("rgba:%02x%02x%02x%02x", c.R, c.G, c.B, c.A)
	case 1:
		return fmt.Sprintf("pal:%d", c.R)
	case 2:
		return fmt.Sprintf("creg:%d", c.R)
	case 3:
		return fmt.Sprintf("blend:%d,%02x,%02x", c.R, c.G, c.B)
	}
	return "color?"
}

func (c ColorV) MarshalJSON() ([]byte, error) { return json.Marshal(c.String()) }

func (c *ColorV) UnmarshalJSON(b []byte) error {
	var s string
	if err := json.Unmarshal(b, &s); err != nil {
		return err
	}
	switch {
	case strings.HasPrefix(s, "rgba:"):
		var r, g, bb, a uint8
		if _, err := fmt.Sscanf(s[5:], "%02x%02x%02x%02x", &r, &g, &bb, &a); err != nil {
			return err
		}
		*c = ColorV{0, r, g, bb, a}
	case strings.HasPrefix(s, "pal:"):
		var i uint8
		fmt.Sscanf(s[4:], "%d", &i)
		*c = ColorV{1, i, 0, 0, 0}
	case strings.HasPrefix(s, "creg:"):
		var i uint8
		fmt.Sscanf(s[5:], "%d", &i)
		*c = ColorV{2, i, 0, 0, 0}
	case strings.HasPrefix(s, "blend:"):
		var t, c0, c1 uint8
		if _, err := fmt.Sscanf(s[6:], "%d,%02x,%02x", &t, &c0, &c1); err != nil {
			return err
		}
		*c = ColorV{3, t, c0, c1, 0}
	default:
		return fmt.Errorf("bad colour %q", s)
	}
	return nil
}

// Palette is a 64-entry palette with a compact JSON form (trailing opaque
// blacks omitted).
type Palette [64]color.RGBA

var black = color.RGBA{0, 0, 0, 0xff}

func DefaultPalette() Palette {
	var p Palette
	for i := range p {
		p[i] = black
	}
	return p
}

func (p Palette) MarshalJSON() ([]byte, error) {
	n := 64
	for n > 0 && p[n-1] == black {
		n--
	}
	out := make([]string, n)
	for i := 0; i < n; i++ {
		out[i] = fmt.Sprintf("%02x%02x%02x%02x", p[i].R, p[i].G, p[i].B, p[i].A)
	}
	return json.Marshal(out)
}

func (p *Palette) UnmarshalJSON(b []byte) error {
	var in []string
	if err := json.Unmarshal(b, &in); err != nil {
		return err
	}
	*p = DefaultPalette()
	for i, s := range in {
		if i >= 64 {
			break
		}
		var r, g, bb, a uint8
		if _, err := fmt.Sscanf(s, "%02x%02x%02x%02x", &r, &g, &bb, &a); err != nil {
			return err
		}
		p[i] = color.RGBA{r, g, bb, a}
	}
	return nil
}

// Op is one Destination call.
type Op struct {
	K        Kind     `json:"k"`
	Adj      uint8    `json:"adj,omitempty"`
	Incr     bool     `json:"incr,omitempty"`
	LargeArc bool     `json:"largeArc,omitempty"`
	Sweep    bool     `json:"sweep,omitempty"`
	Sel      uint8    `json:"sel,omitempty"`
	C        *ColorV  `json:"c,omitempty"`
	F        []F32    `json:"f,omitempty"`
	VB       *[4]F32  `json:"viewbox,omitempty"`
	Pal      *Palette `json:"palette,omitempty"`
}

func (o Op) Arg(i int) float32 {
	if i < len(o.F) {
		return float32(o.F[i])
	}
	return 0
}

func (o Op) String() string {
	b, _ := json.Marshal(o)
	return string(b)
}

func fs(v ...float32) []F32 {
	out := make([]F32, len(v))
	for i, x := range v {
		out[i] = F32(x)
	}
	return out
}

// Constructors.
func OpReset(vb ivg.ViewBox, pal [64]color.RGBA) Op {
	p := Palette(pal)
	return Op{K: Reset, VB: &[4]F32{F32(vb.MinX), F32(vb.MinY), F32(vb.MaxX), F32(vb.MaxY)}, Pal: &p}
}
func OpSetCSel(s uint8) Op { return Op{K: SetCSel, Sel: s} }
func OpSetNSel(s uint8) Op { return Op{K: SetNSel, Sel: s} }
func OpSetCReg(adj uint8, incr bool, c ColorV) Op {
	return Op{K: SetCReg, Adj: adj, Incr: incr, C: &c}
}
func OpSetNReg(adj uint8, incr bool, f float32) Op {
	return Op{K: SetNReg, Adj: adj, Incr: incr, F: fs(f)}
}
func OpSetLOD(a, b float32) Op               { return Op{K: SetLOD, F: fs(a, b)} }
func OpStartPath(adj uint8, x, y float32) Op { return Op{K: StartPath, Adj: adj, F: fs(x, y)} }
func OpDraw(k Kind, args ...float32) Op      { return Op{K: k, F: fs(args...)} }
func OpArc(k Kind, rx, ry, rot float32, la, sw bool, x, y float32) Op {
	return Op{K: k, LargeArc: la, Sweep: sw, F: fs(rx, ry, rot, x, y)}
}

func (o Op) ViewBox() ivg.ViewBox {
	if o.VB == nil {
		return ivg.DefaultViewBox
	}
	return ivg.ViewBox{MinX: float32(o.VB[0]), MinY: float32(o.VB[1]), MaxX: float32(o.VB[2]), MaxY: float32(o.VB[3])}
}

func (o Op) Palette() [64]color.RGBA {
	if o.Pal == nil {
		return ivg.DefaultPalette
	}
	return [64]color.RGBA(*o.Pal)
}

// Apply replays an op on a Destination.
func Apply(d ivg.Destination, o Op) {
	a := o.Arg
	switch o.K {
	case Reset:
		d.Reset(o.ViewBox(), o.Palette())
	case SetCSel:
		d.SetCSel(o.Sel)
	case SetNSel:
		d.SetNSel(o.Sel)
	case SetCReg:
		c := ColorV{}
		if o.C != nil {
			c = *o.C
		}
		d.SetCReg(o.Adj, o.Incr, c.Color())
	case SetNReg:
		d.SetNReg(o.Adj, o.Incr, a(0))
	case SetLOD:
		d.SetLOD(a(0), a(1))
	case StartPath:
		d.StartPath(o.Adj, a(0), a(1))
	case ClosePathEndPath:
		d.ClosePathEndPath()
	case ClosePathAbsMoveTo:
		d.ClosePathAbsMoveTo(a(0), a(1))
	case ClosePathRelMoveTo:
		d.ClosePathRelMoveTo(a(0), a(1))
	case AbsHLineTo:
		d.AbsHLineTo(a(0))
	case RelHLineTo:
		d.RelHLineTo(a(0))
	case AbsVLineTo:
		d.AbsVLineTo(a(0))
	case RelVLineTo:
		d.RelVLineTo(a(0))
	case AbsLineTo:
		d.AbsLineTo(a(0), a(1))
	case RelLineTo:
		d.RelLineTo(a(0), a(1))
	case AbsSmoothQuadTo:
		d.AbsSmoothQuadTo(a(0), a(1))
	case RelSmoothQuadTo:
		d.RelSmoothQuadTo(a(0), a(1))
	case AbsQuadTo:
		d.AbsQuadTo(a(0), a(1), a(2), a(3))
	case RelQuadTo:
		d.RelQuadTo(a(0), a(1), a(2), a(3))
	case AbsSmoothCubeTo:
		d.AbsSmoothCubeTo(a(0), a(1), a(2), a(3))
	case RelSmoothCubeTo:
		d.RelSmoothCubeTo(a(0), a(1), a(2), a(3))
	case AbsCubeTo:
		d.AbsCubeTo(a(0), a(1), a(2), a(3), a(4), a(5))
	case RelCubeTo:
		d.RelCubeTo(a(0), a(1), a(2), a(3), a(4), a(5))
	case AbsArcTo:
		d.AbsArcTo(a(0), a(1), a(2), o.LargeArc, o.Sweep, a(3), a(4))
	case RelArcTo:
		d.RelArcTo(a(0), a(1), a(2), o.LargeArc, o.Sweep, a(3), a(4))
	}
}

func ApplyAll(d ivg.Destination, list []Op) {
	for _, o := range list {
		Apply(d, o)
	}
}

// Recorder implements ivg.Destination, appending every call. It keeps CSEL and
// NSEL as the specification's machine does, so code that reads the selectors
// back (the Generator's gradient helpers) works against it.
type Recorder struct {
	Ops        []Op
	cSel, nSel uint8
	Reads      int // CSel()/NSel() calls
	// Inner, when set, receives every call after it is recorded, and answers
	// selector reads.
	Inner ivg.Destination
	// After, when set, runs after each call (and after Inner handled it).
	After func(Op)
	// NoRecord keeps Ops empty (Count still advances).
	NoRecord bool
	Count    int
}

var _ ivg.Destination = (*Recorder)(nil)

func (r *Recorder) add(o Op) {
	r.Count++
	if !r.NoRecord {
		r.Ops = append(r.Ops, o)
	}
	if r.Inner != nil {
		Apply(r.Inner, o)
	}
	if r.After != nil {
		r.After(o)
	}
}

func (r *Recorder) Reset(vb ivg.ViewBox, pal [64]color.RGBA) {
	r.cSel, r.nSel = 0, 0
	r.add(OpReset(vb, pal))
}
func (r *Recorder) CSel() uint8 {
	r.Reads++
	if r.Inner != nil {
		return r.Inner.CSel()
	}
	return r.cSel
}
func (r *Recorder) NSel() uint8 {
	r.Reads++
	if r.Inner != nil {
		return r.Inner.NSel()
	}
	return r.nSel
}

// ModelCSel and ModelNSel are the selector values of the specification's
// machine (independent of Inner).
func (r *Recorder) ModelCSel() uint8 { return r.cSel }
func (r *Recorder) ModelNSel() uint8 { return r.nSel }
func (r *Recorder) SetCSel(s uint8) {
	r.cSel = s & 0x3f
	r.add(OpSetCSel(s))
}
func (r *Recorder) SetNSel(s uint8) {
	r.nSel = s & 0x3f
	r.add(OpSetNSel(s))
}
func (r *Recorder) SetCReg(adj uint8, incr bool, c ivg.Color) {
	if incr {
		r.cSel = (r.cSel + 1) & 0x3f
	}
	r.add(OpSetCReg(adj, incr, FromColor(c)))
}
func (r *Recorder) SetNReg(adj uint8, incr bool, f float32) {
	if incr {
		r.nSel = (r.nSel + 1) & 0x3f
	}
	r.add(OpSetNReg(adj, incr, f))
}
func (r *Recorder) SetLOD(a, b float32)               { r.add(OpSetLOD(a, b)) }
func (r *Recorder) StartPath(adj uint8, x, y float32) { r.add(OpStartPath(adj, x, y)) }
func (r *Recorder) ClosePathEndPath()                 { r.add(OpDraw(ClosePathEndPath)) }
func (r *Recorder) ClosePathAbsMoveTo(x, y float32)   { r.add(OpDraw(ClosePathAbsMoveTo, x, y)) }
func (r *Recorder) ClosePathRelMoveTo(x, y float32)   { r.add(OpDraw(ClosePathRelMoveTo, x, y)) }
func (r *Recorder) AbsHLineTo(x float32)              { r.add(OpDraw(AbsHLineTo, x)) }
func (r *Recorder) RelHLineTo(x float32)              { r.add(OpDraw(RelHLineTo, x)) }
func (r *Recorder) AbsVLineTo(y float32)              { r.add(OpDraw(AbsVLineTo, y)) }
func (r *Recorder) RelVLineTo(y float32)              { r.add(OpDraw(RelVLineTo, y)) }
func (r *Recorder) AbsLineTo(x, y float32)            { r.add(OpDraw(AbsLineTo, x, y)) }
func (r *Recorder) RelLineTo(x, y float32)            { r.add(OpDraw(RelLineTo, x, y)) }
func (r *Recorder) AbsSmoothQuadTo(x, y float32)      { r.add(OpDraw(AbsSmoothQuadTo, x, y)) }
func (r *Recorder) RelSmoothQuadTo(x, y float32)      { r.add(OpDraw(RelSmoothQuadTo, x, y)) }
func (r *Recorder) AbsQuadTo(x1, y1, x, y float32)    { r.add(OpDraw(AbsQuadTo, x1, y1, x, y)) }
func (r *Recorder) RelQuadTo(x1, y1, x, y float32)    { r.add(OpDraw(RelQuadTo, x1, y1, x, y)) }
func (r *Recorder) AbsSmoothCubeTo(x2, y2, x, y float32) {
	r.add(OpDraw(AbsSmoothCubeTo, x2, y2, x, y))
}
func (r *Recorder) RelSmoothCubeTo(x2, y2, x, y float32) {
	r.add(OpDraw(RelSmoothCubeTo, x2, y2, x, y))
}
func (r *Recorder) AbsCubeTo(x1, y1, x2, y2, x, y float32) {
	r.add(OpDraw(AbsCubeTo, x1, y1, x2, y2, x, y))
}
func (r *Recorder) RelCubeTo(x1, y1, x2, y2, x, y float32) {
	r.add(OpDraw(RelCubeTo, x1, y1, x2, y2, x, y))
}
func (r *Recorder) AbsArcTo(rx, ry, rot float32, la, sw bool, x, y float32) {
	r.add(OpArc(AbsArcTo, rx, ry, rot, la, sw, x, y))
}
func (r *Recorder) RelArcTo(rx, ry, rot float32, la, sw bool, x, y float32) {
	r.add(OpArc(RelArcTo, rx, ry, rot, la, sw, x, y))
}

// SameOp reports exact equality of two ops: kinds, flags, colours, and numbers
// bit-for-bit (all NaNs one class).
func SameOp(a, b Op) bool {
	if a.K != b.K || a.Adj != b.Adj || a.Incr != b.Incr || a.LargeArc != b.LargeArc || a.Sweep != b.Sweep {
		return false
	}
	if a.K == SetCSel || a.K == SetNSel {
		if a.Sel != b.Sel {
			return false
		}
	}
	if (a.C == nil) != (b.C == nil) || (a.C != nil && *a.C != *b.C) {
		return false
	}
	if len(a.F) != len(b.F) {
		return false
	}
	for i := range a.F {
		if !SameF32(float32(a.F[i]), float32(b.F[i])) {
			return false
		}
	}
	if a.K == Reset {
		av, bv := a.ViewBox(), b.ViewBox()
		if !SameF32(av.MinX, bv.MinX) || !SameF32(av.MinY, bv.MinY) || !SameF32(av.MaxX, bv.MaxX) || !SameF32(av.MaxY, bv.MaxY) {
			return false
		}
		if a.Palette() != b.Palette() {
			return false
		}
	}
	return true
}

// DiffOps returns "" when the lists are exactly equal, else a description of
// the first difference.
func DiffOps(got, want []Op) string {
	n := len(got)
	if len(want) < n {
		n = len(want)
	}
	for i := 0; i < n; i++ {
		if !SameOp(got[i], want[i]) {
			return fmt.Sprintf("op %d differs: got %v, want %v", i, got[i], want[i])
		}
	}
	if len(got) != len(want) {
		return fmt.Sprintf("op count differs: got %d, want %d", len(got), len(want))
	}
	return ""
}

// Nop implements ivg.Destination doing nothing; embed it to override a few methods.
type Nop struct{}

func (Nop) Reset(ivg.ViewBox, [64]color.RGBA)                                {}
func (Nop) CSel() uint8                                                      { return 0 }
func (Nop) SetCSel(uint8)                                                    {}
func (Nop) NSel() uint8                                                      { return 0 }
func (Nop) SetNSel(uint8)                                                    {}
func (Nop) SetCReg(uint8, bool, ivg.Color)                                   {}
func (Nop) SetNReg(uint8, bool, float32)                                     {}
func (Nop) SetLOD(float32, float32)                                          {}
func (Nop) StartPath(uint8, float32, float32)                                {}
func (Nop) ClosePathEndPath()                                                {}
func (Nop) ClosePathAbsMoveTo(float32, float32)                              {}
func (Nop) ClosePathRelMoveTo(float32, float32)                              {}
func (Nop) AbsHLineTo(float32)                                               {}
func (Nop) RelHLineTo(float32)                                               {}
func (Nop) AbsVLineTo(float32)                                               {}
func (Nop) RelVLineTo(float32)                                               {}
func (Nop) AbsLineTo(float32, float32)                                       {}
func (Nop) RelLineTo(float32, float32)                                       {}
func (Nop) AbsSmoothQuadTo(float32, float32)                                 {}
func (Nop) RelSmoothQuadTo(float32, float32)                                 {}
func (Nop) AbsQuadTo(float32, float32, float32, float32)                     {}
func (Nop) RelQuadTo(float32, float32, float32, float32)                     {}
func (Nop) AbsSmoothCubeTo(float32, float32, float32, float32)               {}
func (Nop) RelSmoothCubeTo(float32, float32, float32, float32)               {}
func (Nop) AbsCubeTo(float32, float32, float32, float32, float32, float32)   {}
func (Nop) RelCubeTo(float32, float32, float32, float32, float32, float32)   {}
func (Nop) AbsArcTo(float32, float32, float32, bool, bool, float32, float32) {}
func (Nop) RelArcTo(float32, float32, float32, bool, bool, float32, float32) {}
