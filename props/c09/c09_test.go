// C09 — colours are stored exactly; colour forms and blending follow the tables.
package c09

import (
	"fmt"
	"image"
	"image/color"
	"math"
	"runtime"
	"sync"
	"sync/atomic"
	"testing"

	"github.com/reactivego/ivg"
	"github.com/reactivego/ivg/decode"
	"github.com/reactivego/ivg/encode"
	"github.com/reactivego/ivg/render"
	"pgregory.net/rapid"

	"verif/internal/gen"
	"verif/internal/harness"
	"verif/internal/ops"
	"verif/internal/rast"
	"verif/internal/spec"
)

func TestMain(m *testing.M) { harness.Main(m, "C09") }

var header = []byte{0x89, 'I', 'V', 'G', 0x00}

// collector receives SetCReg calls and compares them with the expected colours.
type collector struct {
	ops.Nop
	want    []ivg.Color
	i       int
	badAt   int
	got     ivg.Color
	adjIncr bool
}

func (c *collector) SetCReg(adj uint8, incr bool, col ivg.Color) {
	if c.badAt >= 0 {
		return
	}
	if c.i >= len(c.want) || col != c.want[c.i] || adj != 0 || incr {
		c.badAt = c.i
		c.got = col
		c.adjIncr = adj != 0 || incr
	}
	c.i++
}

type FormCase struct {
	Form    int     `json:"form"` // 0..4 as in the SetCReg opcode groups
	Pattern ops.Hex `json:"pattern"`
}

// checkFormPattern: one byte pattern of one colour form through a crafted
// SetCReg instruction.
func checkFormPattern(c FormCase) error {
	b := append(append([]byte{}, header...), 0x80+byte(c.Form)*8)
	b = append(b, c.Pattern...)
	want, n := spec.DecodeColor(c.Form, c.Pattern)
	if n != len(c.Pattern) {
		return fmt.Errorf("bad case")
	}
	col := &collector{want: []ivg.Color{want.Color()}, badAt: -1}
	if err := decode.Decode(col, b); err != nil {
		return harness.Violatef("c09/decode-error", "form %d pattern % x: %v", c.Form, []byte(c.Pattern), err)
	}
	if col.badAt >= 0 || col.i != 1 {
		return harness.Violatef("c09/decoder-table", "form %d pattern % x decodes to %v, the specification's table says %v", c.Form, []byte(c.Pattern), ops.FromColor(col.got), want)
	}
	return nil
}

var subForm = harness.Define("decoder-forms", "every byte pattern of the 1-byte (256), 2-byte (65536), 3-byte direct and 3-byte indirect (2^24 each) colour forms, and 4-byte patterns (quick: 24 representative channel values ^4 + strided; thorough: all 2^32), decoded through crafted SetCReg instructions and compared with the specification's tables; non-trivial = not opaque black", checkFormPattern)

// sweepForm decodes patterns [lo,hi) (stride) of a form in batches.
func sweepForm(t *testing.T, form int, lo, hi, stride uint64, pat func(x uint64, dst []byte) []byte) (evals int64) {
	n := spec.ColorFormLen[form]
	workers := runtime.GOMAXPROCS(0)
	if harness.Shards() > 1 {
		workers = 2
	}
	var failed atomic.Bool
	var total int64
	var wg sync.WaitGroup
	chunk := (hi - lo + uint64(workers) - 1) / uint64(workers)
	chunk += (stride - chunk%stride) % stride
	for w := 0; w < workers; w++ {
		a, b := lo+uint64(w)*chunk, lo+uint64(w+1)*chunk
		if b > hi {
			b = hi
		}
		if a >= b {
			continue
		}
		wg.Add(1)
		go func(a, b uint64) {
			defer wg.Done()
			const batch = 4096
			buf := make([]byte, 0, len(header)+batch*(n+1))
			col := &collector{want: make([]ivg.Color, 0, batch)}
			var pats [][]byte
			var e int64
			flush := func() bool {
				col.i, col.badAt = 0, -1
				err := decode.Decode(col, buf)
				if err != nil || col.badAt >= 0 || col.i != len(col.want) {
					failed.Store(true)
					k := col.badAt
					if k < 0 {
						k = 0
					}
					subForm.Eval(FormCase{Form: form, Pattern: append([]byte{}, pats[k]...)})
					return false
				}
				return true
			}
			var scratch [4]byte
			for x := a; x < b && !failed.Load(); {
				buf = append(buf[:0], header...)
				col.want = col.want[:0]
				pats = pats[:0]
				for k := 0; k < batch && x < b; k, x = k+1, x+stride {
					p := pat(x, scratch[:0])
					buf = append(buf, 0x80+byte(form)*8)
					buf = append(buf, p...)
					cv, _ := spec.DecodeColor(form, p)
					col.want = append(col.want, cv.Color())
					pats = append(pats, append([]byte{}, p...))
					e++
				}
				if !flush() {
					break
				}
			}
			atomic.AddInt64(&total, e)
		}(a, b)
	}
	wg.Wait()
	if failed.Load() {
		t.Fatalf("colour form %d: decoder disagrees with the table (see replay)", form)
	}
	return total
}

func le(n int) func(uint64, []byte) []byte {
	return func(x uint64, dst []byte) []byte {
		for i := 0; i < n; i++ {
			dst = append(dst, byte(x>>(8*uint(i))))
		}
		return dst
	}
}

var repChan = []byte{0x00, 0x01, 0x10, 0x11, 0x22, 0x3f, 0x40, 0x41, 0x55, 0x7f, 0x80, 0x81, 0x88, 0xaa, 0xbf, 0xc0, 0xc1, 0xcc, 0xee, 0xef, 0xf0, 0xfe, 0xff, 0x33}

func TestDecoderForms(t *testing.T) {
	var evals int64
	lo1, hi1 := harness.Range(256)
	evals += sweepForm(t, 0, lo1, hi1, 1, le(1))
	lo2, hi2 := harness.Range(1 << 16)
	evals += sweepForm(t, 1, lo2, hi2, 1, le(2))
	lo3, hi3 := harness.Range(1 << 24)
	evals += sweepForm(t, 2, lo3, hi3, 1, le(3))
	evals += sweepForm(t, 4, lo3, hi3, 1, le(3))
	if harness.Thorough() {
		lo, hi := harness.Range(1 << 32)
		evals += sweepForm(t, 3, lo, hi, 1, le(4))
		subForm.SetExhaustive()
	} else {
		// class-exhaustive: 24 representative channel values ^ 4
		n := uint64(len(repChan))
		evals += sweepForm(t, 3, 0, n*n*n*n, 1, func(x uint64, dst []byte) []byte {
			return append(dst, repChan[x%n], repChan[x/n%n], repChan[x/n/n%n], repChan[x/n/n/n%n])
		})
		evals += sweepForm(t, 3, 0, 1<<32, 4099, le(4))
	}
	subForm.AddEnumerated(evals, evals-5)
	subForm.AddSample(FormCase{Form: 0, Pattern: []byte{0x30}})
	subForm.AddSample(FormCase{Form: 4, Pattern: []byte{0x40, 0x7f, 0x82}})
}

// ---------------------------------------------------------------- encoder -> decoder identity

type EncCase struct {
	Colors []ops.ColorV `json:"colors"`
	// Palette: the suggested palette given to Reset before the colours are written (nil: none,
	// a zero-value Encoder).
	Palette *ops.Palette `json:"palette,omitempty"`
	// NRegBetween: a number register is written after every colour (the colour/offset/colour/offset
	// pattern of a gradient stop list).
	NRegBetween bool `json:"nreg_between,omitempty"`
}

func checkEncodeIdentity(c EncCase) error {
	var enc encode.Encoder
	if c.Palette != nil {
		enc.Reset(ivg.DefaultViewBox, [64]color.RGBA(*c.Palette))
	}
	want := make([]ivg.Color, len(c.Colors))
	for i, cv := range c.Colors {
		want[i] = cv.Color()
		enc.SetCReg(0, false, want[i])
		if c.NRegBetween {
			enc.SetNReg(0, false, float32(i%7)/8)
		}
	}
	b, err := enc.Bytes()
	if err != nil {
		return harness.Violatef("c09/bytes-error", "Bytes: %v", err)
	}
	col := &collector{want: want, badAt: -1}
	if err := decode.Decode(col, b); err != nil {
		return harness.Violatef("c09/decode-error", "decoder rejects encoder output: %v", err)
	}
	if col.badAt >= 0 {
		return harness.Violatef("c09/register-colour", "colour %v written by SetCReg decodes as %v", c.Colors[col.badAt], ops.FromColor(col.got))
	}
	if col.i != len(want) {
		return harness.Violatef("c09/register-colour", "%d colours written, %d decoded", len(want), col.i)
	}
	// the reference reads the same colours out of the bytes
	p := spec.Parse(b)
	var cregs []ops.Op
	for _, o := range p.Ops {
		if o.K == ops.SetCReg {
			cregs = append(cregs, o)
		}
	}
	if !p.OK || len(cregs) != len(want) {
		return harness.Violatef("c09/ill-formed", "encoder output ill formed or not %d colour writes: %s", len(want), p.Err)
	}
	for i, o := range cregs {
		if o.C == nil || *o.C != c.Colors[i].Norm() {
			return harness.Violatef("c09/register-colour", "colour %v is spelled as bytes the specification reads as %v", c.Colors[i], o.C)
		}
	}
	return nil
}

var subEnc = harness.Define("encode-identity", "colours written by Encoder.SetCReg (direct RGBA of every value incl. gradient-encoding and nonsensical ones, palette indices, register references, blends) decoded again: identical colour, also when read by the reference parser; non-trivial = not opaque black", checkEncodeIdentity)

func sweepEncode(t *testing.T, lo, hi, stride uint64, mk func(x uint64) ops.ColorV) int64 {
	workers := runtime.GOMAXPROCS(0)
	if harness.Shards() > 1 {
		workers = 2
	}
	var failed atomic.Bool
	var total int64
	var wg sync.WaitGroup
	chunk := (hi - lo + uint64(workers) - 1) / uint64(workers)
	chunk += (stride - chunk%stride) % stride
	for w := 0; w < workers; w++ {
		a, b := lo+uint64(w)*chunk, lo+uint64(w+1)*chunk
		if b > hi {
			b = hi
		}
		if a >= b {
			continue
		}
		wg.Add(1)
		go func(a, b uint64) {
			defer wg.Done()
			const batch = 4096
			var enc encode.Encoder
			col := &collector{}
			cvs := make([]ops.ColorV, 0, batch)
			var e int64
			for x := a; x < b && !failed.Load(); {
				enc.Reset(ivg.DefaultViewBox, ivg.DefaultPalette)
				col.want = col.want[:0]
				cvs = cvs[:0]
				for k := 0; k < batch && x < b; k, x = k+1, x+stride {
					cv := mk(x)
					c := cv.Color()
					enc.SetCReg(0, false, c)
					col.want = append(col.want, c)
					cvs = append(cvs, cv)
					e++
				}
				buf, err := enc.Bytes()
				col.i, col.badAt = 0, -1
				if err == nil {
					err = decode.Decode(col, buf)
				}
				if err != nil || col.badAt >= 0 || col.i != len(col.want) {
					failed.Store(true)
					k := col.badAt
					if k < 0 {
						k = 0
					}
					subEnc.Eval(EncCase{Colors: []ops.ColorV{cvs[k]}})
					break
				}
			}
			atomic.AddInt64(&total, e)
		}(a, b)
	}
	wg.Wait()
	if failed.Load() {
		t.Fatalf("encoder/decoder colour identity violated (see replay)")
	}
	return total
}

func TestEncodeIdentity(t *testing.T) {
	var evals int64
	rgba := func(x uint64) ops.ColorV {
		return ops.ColorV{T: 0, R: byte(x), G: byte(x >> 8), B: byte(x >> 16), A: byte(x >> 24)}
	}
	if harness.Thorough() {
		lo, hi := harness.Range(1 << 32)
		evals += sweepEncode(t, lo, hi, 1, rgba)
		subEnc.SetExhaustive()
	} else {
		n := uint64(len(repChan))
		evals += sweepEncode(t, 0, n*n*n*n, 1, func(x uint64) ops.ColorV {
			return ops.ColorV{T: 0, R: repChan[x%n], G: repChan[x/n%n], B: repChan[x/n/n%n], A: repChan[x/n/n/n%n]}
		})
		evals += sweepEncode(t, 0, 1<<32, 4099, rgba)
		// all opaque colours and all colours with equal channels
		evals += sweepEncode(t, 0, 1<<24, 1, func(x uint64) ops.ColorV {
			return ops.ColorV{T: 0, R: byte(x), G: byte(x >> 8), B: byte(x >> 16), A: 0xff}
		})
	}
	lo, hi := harness.Range(1 << 24)
	evals += sweepEncode(t, lo, hi, 1, func(x uint64) ops.ColorV { return ops.ColorV{T: 3, R: byte(x), G: byte(x >> 8), B: byte(x >> 16)} })
	if harness.Shard() == 0 {
		// every uint8 argument of the two index constructors (indices are taken modulo 64)
		evals += sweepEncode(t, 0, 512, 1, func(x uint64) ops.ColorV { return ops.ColorV{T: 1 + uint8(x>>8), R: byte(x)} })
	}
	subEnc.AddEnumerated(evals, evals-1)
}

func TestEncodeIdentityRandom(t *testing.T) {
	harness.Rapid(t, harness.N(8000, 16*80000), func(t *rapid.T) {
		n := rapid.IntRange(1, 30).Draw(t, "n")
		var c EncCase
		for i := 0; i < n; i++ {
			cv := gen.Color(t, "c")
			if (cv.T == 1 || cv.T == 2) && rapid.IntRange(0, 3).Draw(t, "wide") == 0 {
				cv.R |= uint8(rapid.IntRange(1, 3).Draw(t, "hi")) << 6 // PaletteIndexColor(70) is index 6
			}
			if i > 0 && rapid.IntRange(0, 3).Draw(t, "samecol") == 0 {
				cv = c.Colors[i-1] // a stop colour repeated
			}
			c.Colors = append(c.Colors, cv)
		}
		var labels []string
		if rapid.Bool().Draw(t, "nregbetween") {
			c.NRegBetween = true
			labels = append(labels, "number-register-written-after-every-colour")
		}
		if rapid.Bool().Draw(t, "pal") {
			// a custom suggested palette, and direct colours that happen to equal its entries
			p := gen.Palette(t, "pal", true)
			if rapid.Bool().Draw(t, "palfull") {
				for i := range p {
					p[i] = gen.ValidRGBA(t, "pe")
				}
			}
			c.Palette = &p
			labels = append(labels, "custom-suggested-palette")
			for i := range c.Colors {
				if rapid.IntRange(0, 2).Draw(t, "frompal") == 0 {
					c.Colors[i] = ops.RGBAv(p[rapid.IntRange(0, 63).Draw(t, "palidx")])
					labels = append(labels, "direct-colour-equal-to-a-palette-entry")
				}
			}
		}
		subEnc.See(c, true, harness.HashJSON(c), labels...)
		subEnc.Run(t, c)
	})
}

// ---------------------------------------------------------------- suggested palettes

type PalCase struct {
	Palette ops.Palette `json:"palette"`
	// Used: what the Encoder went through before this Reset. 0 nothing; 1 a graphic encoded
	// without any Reset (the zero value implies the default metadata); 2 a graphic under this very
	// palette; 3 a graphic under another custom palette.
	Used int `json:"used,omitempty"`
	// ViewBox: the graphic also has a viewBox of its own (a second metadata chunk).
	ViewBox bool `json:"viewbox,omitempty"`
}

func (c PalCase) vb() ivg.ViewBox {
	if c.ViewBox {
		return ivg.ViewBox{MinX: -24, MinY: -20.5, MaxX: 24, MaxY: 300}
	}
	return ivg.DefaultViewBox
}

func checkPalette(c PalCase) error {
	var enc encode.Encoder
	if c.Used != 0 {
		switch c.Used {
		case 2:
			enc.Reset(ivg.DefaultViewBox, [64]color.RGBA(c.Palette))
		case 3:
			enc.Reset(ivg.DefaultViewBox, [64]color.RGBA{{0x10, 0x20, 0x30, 0x40}, {0xff, 0x80, 0x00, 0xff}})
		}
		enc.SetCReg(0, false, ivg.PaletteIndexColor(1))
		enc.StartPath(0, 1, 2)
		enc.AbsLineTo(3, 4)
		enc.ClosePathEndPath()
		enc.Bytes()
	}
	enc.Reset(c.vb(), [64]color.RGBA(c.Palette))
	b, err := enc.Bytes()
	if err != nil {
		return harness.Violatef("c09/bytes-error", "Bytes: %v", err)
	}
	rec := &ops.Recorder{}
	if err := decode.Decode(rec, append([]byte{}, b...)); err != nil {
		return harness.Violatef("c09/decode-error", "decoder rejects the metadata written by Reset: %v (% x)", err, b)
	}
	got := rec.Ops[0].Palette()
	for i := range got {
		if got[i] != c.Palette[i] {
			return harness.Violatef("c09/suggested-palette", "suggested palette entry %d = %v decodes as %v (stream % x)", i, c.Palette[i], got[i], b)
		}
	}
	// ... also when the caller passes an option that changes nothing (an entry set to its own colour)
	rec2 := &ops.Recorder{}
	k := int(b[len(b)-1]) % 64
	if err := decode.Decode(rec2, append([]byte{}, b...), decode.WithColorAt(k, c.Palette[k])); err != nil {
		return harness.Violatef("c09/decode-error", "decoder rejects the metadata written by Reset when given an option: %v", err)
	}
	if got2 := rec2.Ops[0].Palette(); got2 != got {
		for i := range got2 {
			if got2[i] != got[i] {
				return harness.Violatef("c09/suggested-palette", "decoded with an option that sets entry %d to the colour it has, suggested palette entry %d = %v decodes as %v", k, i, c.Palette[i], got2[i])
			}
		}
	}
	if p := spec.Parse(b); !p.OK || p.Palette != [64]color.RGBA(c.Palette) {
		return harness.Violatef("c09/suggested-palette", "the reference parser reads a different palette out of % x", b)
	}
	return nil
}

var subPal = harness.Define("suggested-palette", "suggested palettes with 0-64 explicit valid premultiplied entries of every mix of 1/2/3/4-byte-encodable colours (incl. trailing and interior opaque blacks) through Encoder.Reset -> Decode: palette passed to Reset equals the original; non-trivial = at least one non-black entry", checkPalette)

func TestSuggestedPalettes(t *testing.T) {
	harness.Rapid(t, harness.N(15000, 16*160000), func(t *rapid.T) {
		c := PalCase{Palette: gen.Palette(t, "pal", true)}
		// interior blacks and a non-black last entry sometimes
		if rapid.IntRange(0, 3).Draw(t, "last") == 0 {
			c.Palette[63] = gen.ValidRGBA(t, "last")
		}
		if rapid.IntRange(0, 3).Draw(t, "hole") == 0 {
			c.Palette[rapid.IntRange(0, 63).Draw(t, "holeat")] = spec.Black
		}
		forms := map[int]bool{}
		nt := false
		for _, e := range c.Palette {
			if e != spec.Black {
				nt = true
				forms[spec.ShortestColorForm(e)] = true
			}
		}
		var labels []string
		if rapid.IntRange(0, 2).Draw(t, "hasvb") == 0 {
			c.ViewBox = true
			labels = append(labels, "graphic-has-a-viewbox-chunk-too")
		}
		if rapid.IntRange(0, 2).Draw(t, "hasused") == 0 {
			c.Used = rapid.IntRange(1, 3).Draw(t, "used")
			labels = append(labels, fmt.Sprintf("encoder-used-before(kind-%d)", c.Used))
		}
		for f := 0; f < 4; f++ {
			if forms[f] {
				labels = append(labels, fmt.Sprintf("has-%d-byte-colour", f+1))
			}
		}
		if len(forms) > 1 {
			labels = append(labels, "mixed-forms")
		}
		subPal.See(c, nt, harness.HashJSON(c), labels...)
		subPal.Run(t, c)
	})
	// every single valid translucent channel-5 colour and each 1-byte colour alone in the palette
	n := int64(0)
	for x := 0; x < 128; x++ {
		cv := spec.Color1(byte(x))
		c := PalCase{Palette: ops.DefaultPalette()}
		c.Palette[0] = cv.RGBA()
		c.Palette[5] = cv.RGBA()
		n++
		subPal.Run(t, c)
	}
	// all 64 entries the same colour, for every 1-byte colour and a few others
	for x := 0; x < 132; x++ {
		v := color.RGBA{0x12, 0x34, 0x56, 0x78}
		if x < 128 {
			v = spec.Color1(byte(x)).RGBA()
		} else if x < 131 {
			v = []color.RGBA{{0x11, 0x22, 0x33, 0x44}, {0x01, 0x02, 0x03, 0xff}, {0, 0, 0, 0x01}}[x-128]
		}
		for _, k := range []int{64, 63, 2} {
			c := PalCase{Palette: ops.DefaultPalette()}
			for i := 0; i < k; i++ {
				c.Palette[i] = v
			}
			for used := 0; used <= 3; used++ {
				c.Used = used
				n++
				subPal.Run(t, c)
			}
		}
	}
	for _, a := range []uint8{0, 0x40, 0x80, 0xc0} {
		for _, r := range []uint8{0, 0x40, 0x80, 0xc0} {
			for _, g := range []uint8{0, 0x40, 0x80, 0xc0} {
				if r > a || g > a {
					continue
				}
				c := PalCase{Palette: ops.DefaultPalette()}
				c.Palette[0] = color.RGBA{r, g, 0, a}
				c.Palette[1] = color.RGBA{0, g, r, a}
				n++
				subPal.Run(t, c)
			}
		}
	}
	harness.Counter("suggested-palette-table", "each 1-byte colour and each translucent colour with channels in {00,40,80,c0} alone in a palette").AddEnumerated(n, n)
}

// Every one-byte pattern as an entry of a suggested palette in the one-byte format, after entries
// that are not black: patterns 0-127 are the table's colours; 128-255 name a palette entry or a
// register, which a palette cannot refer to, and stand for opaque black.
type RawPalCase struct {
	Entries ops.Hex `json:"entries"` // one-byte-format entries, 1..64 of them
}

func checkRawPalette(c RawPalCase) error {
	body := append([]byte{0x02, byte(len(c.Entries) - 1)}, c.Entries...)
	b := append([]byte{0x89, 'I', 'V', 'G', 0x02, byte(2 * len(body))}, body...)
	want := [64]color.RGBA(ops.DefaultPalette())
	for i, e := range c.Entries {
		if cv := spec.Color1(e); cv.T == 0 {
			want[i] = cv.RGBA()
		}
	}
	rec := &ops.Recorder{}
	if err := decode.Decode(rec, b); err != nil || len(rec.Ops) == 0 {
		return harness.Violatef("c09/decoder-table", "one-byte-format suggested palette % x is rejected: %v", b, err)
	}
	got := rec.Ops[0].Palette()
	for i := range got {
		if got[i] != want[i] {
			return harness.Violatef("c09/decoder-table", "one-byte-format suggested palette % x: entry %d is delivered as %v, the tables give %v", b, i, got[i], want[i])
		}
	}
	return nil
}

var subRawPal = harness.Define("one-byte-palette-entries", "all 256 one-byte patterns as the 1st..4th entry of a one-byte-format suggested palette whose other entries are non-black one-byte colours: Reset receives the table colour, or opaque black for the indirect patterns (128-255); non-trivial = an indirect pattern", checkRawPalette)

func TestOneBytePaletteEntries(t *testing.T) {
	harness.OnlyFirstShard(t)
	for x := 0; x < 256; x++ {
		for at := 0; at < 4; at++ {
			c := RawPalCase{Entries: ops.Hex{0x18, 0x7d, 0x63, 0x05}}
			c.Entries[at] = byte(x)
			subRawPal.See(c, x >= 128, harness.Hash(c.Entries), fmt.Sprintf("pattern-class=%d", x/64))
			subRawPal.Run(t, c)
		}
	}
}

// ---------------------------------------------------------------- blends

type BlendCase struct {
	T, C0, C1 uint8
	Palette   ops.Palette `json:"palette"`
	CReg      ops.Palette `json:"creg"`
}

func checkBlend(c BlendCase) error {
	pal, creg := [64]color.RGBA(c.Palette), [64]color.RGBA(c.CReg)
	palCopy, cregCopy := pal, creg
	got := ivg.BlendColor(c.T, c.C0, c.C1).Resolve(&pal, &creg)
	if pal != palCopy || creg != cregCopy {
		return harness.Violatef("c09/resolve-writes", "Resolve modified the palette or the registers")
	}
	r0 := spec.Resolve(spec.Color1(c.C0), &pal, &creg)
	r1 := spec.Resolve(spec.Color1(c.C1), &pal, &creg)
	t := uint32(c.T)
	mix := func(a, b uint8) uint8 { return uint8(((255-t)*uint32(a) + t*uint32(b) + 128) / 255) }
	want := color.RGBA{mix(r0.R, r1.R), mix(r0.G, r1.G), mix(r0.B, r1.B), mix(r0.A, r1.A)}
	if got != want {
		return harness.Violatef("c09/blend-formula", "blend(t=%d, c0=%#x -> %v, c1=%#x -> %v) = %v, formula gives %v", c.T, c.C0, r0, c.C1, r1, got, want)
	}
	if c.T == 0 && got != r0 {
		return harness.Violatef("c09/blend-t0", "t=0 must give c0 = %v, got %v", r0, got)
	}
	if c.T == 255 && got != r1 {
		return harness.Violatef("c09/blend-t255", "t=255 must give c1 = %v, got %v", r1, got)
	}
	if spec.Premultiplied(r0) && spec.Premultiplied(r1) && !spec.Premultiplied(got) {
		return harness.Violatef("c09/blend-premultiplied", "premultiplied operands %v, %v blend to non-premultiplied %v", r0, r1, got)
	}
	return nil
}

var subBlend = harness.Define("blend", "all 2^24 (t,c0,c1) blend triples x several palette/register contexts (valid colours; and with nonsensical/gradient entries): Color.Resolve equals floor(((255-t)*c0+t*c1+128)/255) per channel on the resolved operands, t=0 gives c0, t=255 gives c1, premultiplied operands give a premultiplied result, contexts untouched; non-trivial = 0<t<255 and c0 != c1", checkBlend)

func context(seed uint64, valid bool) (pal, creg ops.Palette) {
	x := seed*6364136223846793005 + 1442695040888963407
	next := func() uint8 { x = x*6364136223846793005 + 1442695040888963407; return uint8(x >> 56) }
	fill := func(p *ops.Palette) {
		for i := range p {
			a := next()
			if i%7 == 0 {
				a = 0xff
			}
			c := color.RGBA{next(), next(), next(), a}
			if valid || i%3 != 0 {
				c.R, c.G, c.B = uint8(uint32(c.R)*uint32(a)/255), uint8(uint32(c.G)*uint32(a)/255), uint8(uint32(c.B)*uint32(a)/255)
			}
			p[i] = c
		}
	}
	fill(&pal)
	fill(&creg)
	return
}

func TestBlends(t *testing.T) {
	type ctx struct{ pal, creg ops.Palette }
	ctxs := []ctx{}
	if harness.Shard() == 0 {
		p0, c0 := context(harness.Seed(), true)
		ctxs = append(ctxs, ctx{p0, c0})
		p1, c1 := context(harness.Seed()+77, false)
		ctxs = append(ctxs, ctx{p1, c1})
		ctxs = append(ctxs, ctx{ops.DefaultPalette(), ops.DefaultPalette()})
	}
	if harness.Thorough() {
		for k := uint64(0); k < 2; k++ {
			p, c := context(harness.Seed()*1000+uint64(harness.Shard())*10+k, k != 1)
			ctxs = append(ctxs, ctx{p, c})
		}
	}
	var evals, nt int64
	for _, cx := range ctxs {
		workers := runtime.GOMAXPROCS(0)
		if harness.Shards() > 1 {
			workers = 2
		}
		var wg sync.WaitGroup
		var failed atomic.Bool
		for w := 0; w < workers; w++ {
			wg.Add(1)
			go func(w int) {
				defer wg.Done()
				var e, n int64
				for x := w; x < 1<<24 && !failed.Load(); x += workers {
					c := BlendCase{T: uint8(x), C0: uint8(x >> 8), C1: uint8(x >> 16), Palette: cx.pal, CReg: cx.creg}
					e++
					if c.T != 0 && c.T != 255 && c.C0 != c.C1 {
						n++
					}
					if err := checkBlend(c); err != nil {
						failed.Store(true)
						subBlend.Eval(c)
						break
					}
				}
				atomic.AddInt64(&evals, e)
				atomic.AddInt64(&nt, n)
			}(w)
		}
		wg.Wait()
		if failed.Load() {
			t.Fatal("blend violation (see replay)")
		}
	}
	subBlend.AddEnumerated(evals, nt)
	subBlend.SetExhaustive()
	if len(ctxs) > 0 {
		subBlend.AddSample(BlendCase{T: 0x40, C0: 0x7f, C1: 0x82, Palette: ctxs[0].pal, CReg: ctxs[0].creg})
	}
}

func TestBlendsRandomContexts(t *testing.T) {
	harness.Rapid(t, harness.N(8000, 16*120000), func(t *rapid.T) {
		c := BlendCase{T: gen.BlendT(t, "t"), C0: rapid.Byte().Draw(t, "c0"), C1: rapid.Byte().Draw(t, "c1")}
		c.Palette = gen.Palette(t, "pal", rapid.Bool().Draw(t, "validpal"))
		c.CReg = gen.Palette(t, "creg", rapid.Bool().Draw(t, "validcreg"))
		subBlend.See(c, c.T != 0 && c.T != 255 && c.C0 != c.C1, harness.HashJSON(c))
		subBlend.Run(t, c)
	})
}

// ---------------------------------------------------------------- blends stored by a Renderer

// StoreCase: a sequence of colour-register writes (mostly blends whose operands are registers,
// the same blend again after an operand changed) given to a Renderer; after every write a path
// is filled from the written register.
type StoreCase struct {
	Palette ops.Palette `json:"palette"`
	Writes  []StoreStep `json:"writes"`
}

type StoreStep struct {
	Sel uint8      `json:"sel"`
	C   ops.ColorV `json:"c"`
	// LODOut: the write is made while the level-of-detail range excludes the target height
	// (registers are written whatever the range is; it only decides whether paths are drawn).
	LODOut bool `json:"lod_out,omitempty"`
}

func checkStoredBlends(c StoreCase) error {
	rr := &rast.Recorder{NoLattice: true}
	var z render.Renderer
	z.SetRasterizer(rr, image.Rect(0, 0, 16, 16))
	z.Reset(ivg.DefaultViewBox, [64]color.RGBA(c.Palette))
	pal := [64]color.RGBA(c.Palette)
	creg := pal
	for i, w := range c.Writes {
		z.SetCSel(w.Sel)
		if w.LODOut {
			z.SetLOD(100, 200)
		}
		z.SetCReg(0, false, w.C.Color())
		if w.LODOut {
			z.SetLOD(0, float32(math.Inf(1)))
		}
		creg[w.Sel&63] = spec.Resolve(w.C, &pal, &creg)
		want := creg[w.Sel&63]
		n0 := len(rr.Calls)
		z.StartPath(0, -8, -8)
		z.AbsLineTo(8, -8)
		z.AbsLineTo(8, 8)
		z.ClosePathEndPath()
		var got *rast.Paint
		for _, cl := range rr.Calls[n0:] {
			if cl.K == rast.Draw {
				got = cl.P
			}
		}
		visible := spec.Premultiplied(want) && want.A != 0
		switch {
		case visible && (got == nil || got.Kind != "uniform" || got.Uniform != want):
			return harness.Violatef("c09/stored-blend", "write %d (%v into CREG[%d]): the path filled from it is painted %v, the blend formula on the registers as they are now gives %v", i, w.C, w.Sel&63, got, want)
		case !visible && !spec.IsGradient(want) && got != nil:
			return harness.Violatef("c09/stored-blend", "write %d (%v into CREG[%d]) gives the invisible or invalid colour %v, yet the path was painted %v", i, w.C, w.Sel&63, want, got)
		}
	}
	return nil
}

var subStore = harness.Define("stored-blend", "sequences of 3-12 colour-register writes into a Renderer (blends of registers and palette entries, plain colours incl. nonsensical ones, writes made while the level-of-detail range excludes the target, the same blend written again after one of its operand registers changed), a path filled from the written register after every write: the flat paint equals the blend formula on the register contents at the time of the write; non-trivial = a blend is written again after an operand register changed", checkStoredBlends)

func TestStoredBlends(t *testing.T) {
	harness.Rapid(t, harness.N(6000, 16*60000), func(t *rapid.T) {
		var c StoreCase
		c.Palette = gen.Palette(t, "pal", true)
		for i := range c.Palette {
			if rapid.Bool().Draw(t, "fill") {
				c.Palette[i] = gen.ValidRGBA(t, "pe")
			}
		}
		n := rapid.IntRange(3, 12).Draw(t, "n")
		again := false
		for i := 0; i < n; i++ {
			sel := uint8(rapid.IntRange(0, 7).Draw(t, "sel"))
			reg := func(l string) uint8 { return 0xc0 | uint8(rapid.IntRange(0, 7).Draw(t, l)) }
			var cv ops.ColorV
			switch k := rapid.IntRange(0, 5).Draw(t, "kind"); {
			case k == 0:
				cv = ops.RGBAv(gen.ValidRGBA(t, "plain"))
				if rapid.IntRange(0, 2).Draw(t, "odd") == 0 {
					cv = ops.RGBAv(gen.AnyRGBA(t, "oddplain")) // also values that are not premultiplied: stored as they are
				}
			case k == 1 && i >= 2:
				// the blend written two steps ago, again: one of its operands has usually changed
				cv = c.Writes[i-2].C
				if cv.T == 3 {
					again = true
				}
			default:
				cv = ops.ColorV{T: 3, R: gen.BlendT(t, "t"), G: reg("c0"), B: reg("c1")}
				if rapid.Bool().Draw(t, "palop") {
					cv.B = 0x80 | uint8(rapid.IntRange(0, 63).Draw(t, "palidx"))
				}
			}
			c.Writes = append(c.Writes, StoreStep{Sel: sel, C: cv, LODOut: rapid.IntRange(0, 4).Draw(t, "lodout") == 0})
		}
		subStore.See(c, again, harness.HashJSON(c))
		subStore.Run(t, c)
	})
}
