// C10 — the Encoder accepts exactly protocol-respecting histories; errors are sticky.
package c10

import (
	"bytes"
	"fmt"
	"image/color"
	"math"
	"sort"
	"testing"

	"github.com/reactivego/ivg"
	"github.com/reactivego/ivg/decode"
	"github.com/reactivego/ivg/encode"
	"pgregory.net/rapid"

	"verif/internal/gen"
	"verif/internal/harness"
	"verif/internal/ops"
)

func TestMain(m *testing.M) { harness.Main(m, "C10") }

// Call is one step of a history over the Encoder API.
type Call struct {
	What string  `json:"what"` // "reset", "read", "bytes", "op", "hires" (the exported resolution field is assigned Hi)
	Op   *ops.Op `json:"op,omitempty"`
	Hi   bool    `json:"hi,omitempty"`
}

type Case struct {
	History string `json:"history,omitempty"` // letters, for enumerated histories
	Calls   []Call `json:"calls"`
}

// ---------------------------------------------------------------- specification automaton

type state int

const (
	stInitial state = iota
	stStyling
	stDrawing
)

type violation int

const (
	vNone violation = iota
	vDrawingOutsidePath
	vStylingInsidePath
	vBadAdj
	vBadIncr
)

var violationNames = [...]string{"none", "drawing operation outside a path", "styling operation or new path inside an open path", "register adjustment above 6", "incrementing form with non-zero adjustment"}

type automaton struct {
	st        state
	err       violation
	alt       violation // a second rule broken by the same call (either message is acceptable)
	firstErr  int       // index of the first violating call since the last Reset, -1 if none
	lastReset int       // index of the last reset call, -1 if none
	delivered []ops.Op  // successful ops since the last Reset
	vb        ivg.ViewBox
	pal       [64]color.RGBA
	// what the read-back accessors must report while no violation occurred
	cSel, nSel uint8
	lod0, lod1 float32
	// the exported resolution field (Reset clears it) and the copy a path takes when it starts
	hi, latched bool
}

// quant is the low-resolution rule for the off-grid values the generator uses (never on a tie).
func quant(v float32) float32 { return float32(math.Floor(float64(v)*64+0.5)) / 64 }

func (a *automaton) quantised(o ops.Op) ops.Op {
	if a.latched || len(o.F) == 0 {
		return o
	}
	d := o
	d.F = append([]ops.F32{}, o.F...)
	for i := range d.F {
		if (o.K == ops.AbsArcTo || o.K == ops.RelArcTo) && i == 2 {
			continue // the rotation is an angle, not a coordinate
		}
		d.F[i] = ops.F32(quant(float32(d.F[i])))
	}
	return d
}

var inf32 = float32(math.Inf(1))

func newAutomaton() *automaton {
	return &automaton{firstErr: -1, lastReset: -1, vb: ivg.DefaultViewBox, pal: ivg.DefaultPalette, lod1: inf32}
}

func (a *automaton) step(i int, c Call) {
	switch c.What {
	case "reset":
		a.st, a.err, a.alt, a.firstErr, a.lastReset = stStyling, vNone, vNone, -1, i
		a.delivered = a.delivered[:0]
		a.vb, a.pal = c.Op.ViewBox(), c.Op.Palette()
		a.cSel, a.nSel, a.lod0, a.lod1 = 0, 0, 0, inf32
		a.hi = false
		return
	case "hires":
		a.hi = c.Hi
		return
	case "read", "bytes":
		if a.st == stInitial && (c.What == "read" || a.err == vNone) {
			a.st = stStyling
		}
		return
	}
	if a.err != vNone {
		return // the first violation is kept
	}
	o := *c.Op
	fail := func(v, alt violation) {
		a.err, a.alt, a.firstErr = v, alt, i
	}
	if o.K.IsStyling() {
		var rule violation
		switch {
		case (o.K == ops.SetCReg || o.K == ops.SetNReg || o.K == ops.StartPath) && o.Adj > 6:
			rule = vBadAdj
		case (o.K == ops.SetCReg || o.K == ops.SetNReg) && o.Incr && o.Adj != 0:
			rule = vBadIncr
		}
		if a.st == stDrawing {
			fail(vStylingInsidePath, rule)
			return
		}
		if rule != vNone {
			alt := vNone
			if rule == vBadAdj && o.Incr {
				alt = vBadIncr
			}
			fail(rule, alt)
			return
		}
		a.st = stStyling
		d := o
		if d.K == ops.SetCSel || d.K == ops.SetNSel {
			d.Sel &= 0x3f
		}
		switch o.K {
		case ops.SetCSel:
			a.cSel = d.Sel
		case ops.SetNSel:
			a.nSel = d.Sel
		case ops.SetCReg:
			if o.Incr {
				a.cSel = (a.cSel + 1) & 0x3f
			}
		case ops.SetNReg:
			if o.Incr {
				a.nSel = (a.nSel + 1) & 0x3f
			}
		case ops.SetLOD:
			a.lod0, a.lod1 = o.Arg(0), o.Arg(1)
		}
		if o.K == ops.StartPath {
			a.st = stDrawing
			a.latched = a.hi
			d = a.quantised(d)
		}
		a.delivered = append(a.delivered, d)
		return
	}
	// drawing kinds
	if a.st != stDrawing {
		fail(vDrawingOutsidePath, vNone)
		return
	}
	a.delivered = append(a.delivered, a.quantised(o))
	if o.K == ops.ClosePathEndPath {
		a.st = stStyling
	}
}

// ---------------------------------------------------------------- running a history on the real Encoder

type readBack struct {
	cSel, nSel uint8
	lod0, lod1 float32
}

var lastRead readBack

func apply(e *encode.Encoder, c Call) (b []byte, err error, wasBytes bool) {
	switch c.What {
	case "reset":
		e.Reset(c.Op.ViewBox(), c.Op.Palette())
	case "read":
		lastRead.cSel = e.CSel()
		lastRead.nSel = e.NSel()
		lastRead.lod0, lastRead.lod1 = e.LOD()
	case "hires":
		e.HighResolutionCoordinates = c.Hi
	case "bytes":
		b, err = e.Bytes()
		return append([]byte{}, b...), err, true
	default:
		ops.Apply(e, *c.Op)
	}
	return nil, nil, false
}

func checkHistory(c Case) error {
	var enc encode.Encoder
	a := newAutomaton()
	for i, call := range c.Calls {
		b, err, was := apply(&enc, call)
		a.step(i, call)
		if call.What == "read" && a.err == vNone {
			want := readBack{a.cSel, a.nSel, a.lod0, a.lod1}
			if lastRead != want {
				key := "c10/read-back"
				if a.lastReset < 0 {
					key = "c10/zero-value-read-back"
				}
				return harness.Violatef(key, "after call %d the Encoder reports CSEL=%d NSEL=%d LOD=(%v,%v); the calls since the last Reset (zero value = Reset with the default metadata) give CSEL=%d NSEL=%d LOD=(%v,%v)", i, lastRead.cSel, lastRead.nSel, lastRead.lod0, lastRead.lod1, want.cSel, want.nSel, want.lod0, want.lod1)
			}
		}
		if was {
			if (err != nil) != (a.err != vNone) {
				return harness.Violatef("c10/verdict", "after call %d (%s) Bytes error = %v, specification automaton says violation = %s", i, describe(call), err, violationNames[a.err])
			}
			_ = b
		}
	}
	out, err := enc.Bytes()
	out = append([]byte{}, out...)
	if (err != nil) != (a.err != vNone) {
		return harness.Violatef("c10/verdict", "at the end Bytes error = %v, specification automaton says violation = %s (first violating call %d)", err, violationNames[a.err], a.firstErr)
	}
	if err != nil {
		if _, ok := err.(encode.EncodeError); !ok {
			return harness.Violatef("c10/error-type", "Bytes returned %T, want an EncodeError", err)
		}
		// sticky: the error equals the one reported right after the first violation
		var twin encode.Encoder
		start := a.lastReset
		if start < 0 {
			start = 0
		}
		for _, call := range c.Calls[start : a.firstErr+1] {
			if call.What == "bytes" {
				twin.Bytes()
				continue
			}
			apply(&twin, call)
		}
		_, first := twin.Bytes()
		if first == nil {
			return harness.Violatef("c10/verdict", "call %d (%s) violates the protocol (%s) but Bytes reports no error right after it", a.firstErr, describe(c.Calls[a.firstErr]), violationNames[a.err])
		}
		if first != err {
			return harness.Violatef("c10/not-sticky", "first violation (call %d, %s) reports %q, but after the rest of the history Bytes reports %q", a.firstErr, describe(c.Calls[a.firstErr]), first, err)
		}
		// Bytes twice: same error
		if _, again := enc.Bytes(); again != err {
			return harness.Violatef("c10/not-sticky", "Bytes called twice reports %v then %v", err, again)
		}
		return nil
	}
	// accepted
	if again, err2 := enc.Bytes(); err2 != nil || !bytes.Equal(again, out) {
		return harness.Violatef("c10/bytes-twice", "Bytes called twice differs: %x / %x (%v)", out, again, err2)
	}
	if a.st != stDrawing {
		rec := &ops.Recorder{}
		if err := decode.Decode(rec, out); err != nil {
			return harness.Violatef("c10/decode-error", "violation-free history with all paths ended gives a stream the decoder rejects: %v (% x)", err, out)
		}
		want := append([]ops.Op{ops.OpReset(a.vb, a.pal)}, a.delivered...)
		// a rotation is an angle in turns: the history and the stream name the same angle when
		// they differ by whole turns (the values generated are eighths, exact in every form)
		turns := func(list []ops.Op) []ops.Op {
			out := append([]ops.Op{}, list...)
			for i, o := range out {
				if (o.K == ops.AbsArcTo || o.K == ops.RelArcTo) && len(o.F) > 2 {
					o.F = append([]ops.F32{}, o.F...)
					v := float64(o.F[2])
					o.F[2] = ops.F32(float32(v - math.Floor(v)))
					out[i] = o
				}
			}
			return out
		}
		if d := ops.DiffOps(turns(rec.Ops), turns(want)); d != "" {
			return harness.Violatef("c10/decodes-to-history", "%s (% x)", d, out)
		}
	}
	// zero-value Encoder == one Reset with the default metadata
	if a.lastReset < 0 {
		var e2 encode.Encoder
		e2.Reset(ivg.DefaultViewBox, ivg.DefaultPalette)
		for _, call := range c.Calls {
			apply(&e2, call)
		}
		out2, err2 := e2.Bytes()
		if err2 != nil || !bytes.Equal(out2, out) {
			return harness.Violatef("c10/zero-value", "zero-value Encoder gives % x, one Reset with default metadata gives % x (%v)", out, out2, err2)
		}
	}
	return nil
}

func describe(c Call) string {
	if c.Op != nil && c.What == "op" {
		return c.Op.String()
	}
	return c.What
}

var subHist = harness.Define("history", "call histories over the Encoder API run on a zero-value Encoder and on a 4-state specification automaton (initial, styling, drawing, error): Bytes errs iff the automaton is in error (also at every intermediate Bytes), the error equals the one reported right after the first violation, accepted closed histories decode to exactly the calls since the last Reset, zero-value == Reset(default); non-trivial = contains a path or a violation", checkHistory)

// ---------------------------------------------------------------- the 12-letter alphabet

var customVB = ivg.ViewBox{MinX: -24, MinY: -24, MaxX: 24, MaxY: 24}

func letterCall(l byte, pos int) Call {
	op := func(o ops.Op) Call { return Call{What: "op", Op: &o} }
	switch l {
	case 'R':
		o := ops.OpReset(customVB, ivg.DefaultPalette)
		if pos%2 == 1 {
			// the zero values of the metadata types: a one-point viewBox, 64 transparent entries
			o = ops.OpReset(ivg.ViewBox{}, [64]color.RGBA{})
		}
		return Call{What: "reset", Op: &o}
	case 'r':
		return Call{What: "read"}
	case 's':
		switch pos % 4 {
		case 0:
			return op(ops.OpSetCSel(uint8(5 + pos)))
		case 1:
			return op(ops.OpSetLOD(float32(pos), 80))
		case 2:
			return op(ops.OpSetLOD(0, inf32)) // the range in force unless changed: a call without effect
		}
		return op(ops.OpSetNSel(0)) // likewise
	case 'c':
		if pos%2 == 0 {
			return op(ops.OpSetCReg(uint8(pos%7), false, ops.ColorV{T: 0, R: 0x30, G: 0x66, B: 0x07, A: 0xff}))
		}
		return op(ops.OpSetNReg(0, true, 0.5))
	case 'J':
		if pos%2 == 0 {
			return op(ops.OpSetCReg(7, false, ops.ColorV{T: 1, R: 3}))
		}
		return op(ops.OpSetNReg(200, false, 1))
	case 'K':
		switch pos % 4 {
		case 0:
			return op(ops.OpSetNReg(3, true, 2))
		case 1:
			return op(ops.OpSetCReg(1, true, ops.ColorV{T: 2, R: 9}))
		case 2:
			return op(ops.OpSetNReg(8, true, 2)) // low three bits clear
		}
		return op(ops.OpSetCReg(0x40, true, ops.ColorV{T: 2, R: 9}))
	case 'P':
		return op(ops.OpStartPath(uint8(pos%7), 1, float32(pos)))
	case 'Q':
		return op(ops.OpStartPath([]uint8{7, 64, 8, 255, 0x86, 9, 0xc3}[pos%7], 1, 2)) // also values whose low bits look like a legal adjustment
	case 'd':
		kinds := []ops.Kind{ops.AbsLineTo, ops.RelHLineTo, ops.AbsCubeTo, ops.RelSmoothQuadTo}
		k := kinds[(pos/2)%len(kinds)] // neighbouring positions 2n, 2n+1 repeat the verb (one run), 2n+1, 2n+2 change it
		args := []float32{3, 4, 5, 6, 7, 8}
		return op(ops.OpDraw(k, args[:k.NArgs()]...))
	case 'm':
		if pos%2 == 0 {
			return op(ops.OpDraw(ops.ClosePathAbsMoveTo, 5, 6))
		}
		return op(ops.OpDraw(ops.ClosePathRelMoveTo, -5, 6))
	case 'z':
		return op(ops.OpDraw(ops.ClosePathEndPath))
	case 'B':
		return Call{What: "bytes"}
	}
	panic("bad letter")
}

const alphabet = "RrscJKPQdmzB"

func historyCase(h []byte) Case {
	c := Case{History: string(h)}
	for i, l := range h {
		c.Calls = append(c.Calls, letterCall(l, i))
	}
	return c
}

func TestExhaustiveHistories(t *testing.T) {
	depth := 5
	if harness.Thorough() {
		depth = 8
	}
	st := subHist.Stat
	var evals, nt int64
	var rec func(h []byte)
	h := make([]byte, 0, depth)
	// shard on the first two letters
	idx := 0
	rec = func(h []byte) {
		if len(h) == 2 || (len(h) < 2 && len(h) == depth) {
			idx++
		}
		c := historyCase(h)
		evals++
		interesting := false
		for _, l := range h {
			if l != 'R' && l != 'r' && l != 'B' && l != 's' && l != 'c' {
				interesting = true
			}
		}
		if interesting {
			nt++
		}
		if err := subHist.Eval(c); err != nil {
			t.Fatalf("history %q: %v", h, err)
		}
		if len(h) == depth {
			return
		}
		for i := 0; i < len(alphabet); i++ {
			if len(h) == 1 && harness.Shards() > 1 {
				// distribute the 144 two-letter prefixes over the shards
				k := (int(indexOf(h[0]))*len(alphabet) + i) % harness.Shards()
				if k != harness.Shard() {
					continue
				}
			}
			rec(append(h, alphabet[i]))
		}
	}
	rec(h)
	st.AddEnumerated(evals, nt)
	st.Label(fmt.Sprintf("exhaustive-depth-%d", depth), evals)
	st.SetExhaustive()
	st.AddSample(historyCase([]byte("PdzB")))
	st.AddSample(historyCase([]byte("RPdJzB")))
}

func indexOf(l byte) int {
	for i := 0; i < len(alphabet); i++ {
		if alphabet[i] == l {
			return i
		}
	}
	return 0
}

// ---------------------------------------------------------------- run lengths

// runHistory: Reset, StartPath, n calls of one verb with arguments that differ from call to
// call, one call of another verb, end of path.
func runHistory(k ops.Kind, n int) Case {
	var c Case
	op := func(o ops.Op) { c.Calls = append(c.Calls, Call{What: "op", Op: &o}) }
	r := ops.OpReset(ivg.DefaultViewBox, ivg.DefaultPalette)
	c.Calls = append(c.Calls, Call{What: "reset", Op: &r})
	op(ops.OpStartPath(0, 1, 2))
	for i := 0; i < n; i++ {
		a := func(j int) float32 { return float32((i*7+j*13)%251-125) / 4 }
		if k == ops.AbsArcTo || k == ops.RelArcTo {
			op(ops.OpArc(k, a(0), a(1), float32(i%8)/8, i%2 == 0, i%3 == 0, a(2), a(3)))
			continue
		}
		args := make([]float32, k.NArgs())
		for j := range args {
			args[j] = a(j)
		}
		op(ops.OpDraw(k, args...))
	}
	other := ops.AbsLineTo
	if k == ops.AbsLineTo {
		other = ops.RelVLineTo
	}
	args := []float32{3, 4}
	op(ops.OpDraw(other, args[:other.NArgs()]...))
	op(ops.OpDraw(ops.ClosePathEndPath))
	c.Calls = append(c.Calls, Call{What: "bytes"})
	return c
}

// Runs of every length: whatever the Encoder buffers while a run is pending (operands, counts),
// no length is special. Quick tier: the lengths at which the number of buffered operands crosses
// a power of two (where buffers grow or are flushed), each with its neighbours, and every length
// up to 70; thorough tier: every length up to 4200.
func TestRunLengths(t *testing.T) {
	st := harness.Counter("run-lengths", "one run of n calls of one verb (H, L, Q, C, A: 1, 2, 4, 6, 5+flags operands per call, operands differing from call to call) followed by another verb: accepted, and decodes to exactly the history; quick: n <= 70, n around every operand count 2^k <= 2^14, and for H and L n around 2^15 and 2^16; thorough: every n <= 4200")
	verbs := []ops.Kind{ops.RelHLineTo, ops.AbsLineTo, ops.RelQuadTo, ops.AbsCubeTo, ops.RelArcTo}
	nargs := []int{1, 2, 4, 6, 6}
	var lens [][2]int // verb index, n
	for vi := range verbs {
		if harness.Thorough() {
			for n := 1; n <= 4200; n++ {
				if (n+vi)%harness.Shards() == harness.Shard() {
					lens = append(lens, [2]int{vi, n})
				}
			}
			continue
		}
		if harness.Shard() != 0 {
			continue
		}
		seen := map[int]bool{}
		for n := 1; n <= 70; n++ {
			seen[n] = true
		}
		for k := 6; k <= 14; k++ {
			for _, na := range []int{nargs[vi], nargs[vi] + 1} { // arcs: with or without the flags counted
				for d := -1; d <= 2; d++ {
					if n := (1<<uint(k))/na + d; n > 0 && n <= 4200 {
						seen[n] = true
					}
				}
			}
		}
		if vi <= 1 {
			// ... and the lengths at which a 16-bit count of calls (or, for lines, of operands) wraps
			for _, n := range []int{32767, 32768, 32769, 65535, 65536, 65537} {
				seen[n] = true
			}
		}
		for n := range seen {
			lens = append(lens, [2]int{vi, n})
		}
	}
	sort.Slice(lens, func(i, j int) bool {
		if lens[i][0] != lens[j][0] {
			return lens[i][0] < lens[j][0]
		}
		return lens[i][1] < lens[j][1]
	})
	for _, l := range lens {
		c := runHistory(verbs[l[0]], l[1])
		st.AddEnumerated(1, 1)
		if err := subHist.Eval(c); err != nil {
			t.Fatalf("run of %d x %v: %v", l[1], verbs[l[0]], err)
		}
	}
}

// ---------------------------------------------------------------- long random histories

func exact(t *rapid.T, label string) float32 {
	v := float32(rapid.IntRange(-64*4, 63*4).Draw(t, label)) / 4
	if rapid.IntRange(0, 5).Draw(t, label+".offgrid") == 0 {
		v += 1.0 / 256 // a quarter of a low-resolution step: comes back as v in a low-resolution path
	}
	return v
}

func genCall(t *rapid.T, drawing bool) Call {
	op := func(o ops.Op) Call { return Call{What: "op", Op: &o} }
	drawCall := func(k ops.Kind) Call {
		if k == ops.AbsArcTo || k == ops.RelArcTo {
			return op(ops.OpArc(k, exact(t, "rx"), exact(t, "ry"), float32(rapid.IntRange(0, 7).Draw(t, "rot"))/8+float32(rapid.SampledFrom([]int{0, 0, 0, 0, -1, 1, -3, 2}).Draw(t, "rotturns")), rapid.Bool().Draw(t, "la"), rapid.Bool().Draw(t, "sw"), exact(t, "x"), exact(t, "y")))
		}
		args := make([]float32, k.NArgs())
		for i := range args {
			args[i] = exact(t, "a")
		}
		return op(ops.OpDraw(k, args...))
	}
	if nextBytes {
		nextBytes = false
		return Call{What: "bytes"}
	}
	if drawing && hiresOK && rapid.IntRange(0, 14).Draw(t, "hiresinpath") == 0 {
		// the resolution field assigned while the path is open, and Bytes asked right after
		nextBytes = rapid.Bool().Draw(t, "thenbytes")
		return Call{What: "hires", Hi: rapid.Bool().Draw(t, "hi")}
	}
	if drawing && runLeft > 0 && prevVerb != 0 {
		runLeft-- // inside a long uninterrupted run of one verb (beyond one opcode's repeat count)
		return drawCall(prevVerb)
	}
	// mostly protocol-respecting, so that long accepted histories occur
	r := rapid.IntRange(0, 99).Draw(t, "pick")
	switch {
	case r < 3:
		vb := gen.ViewBox(t, "vb", false)
		if rapid.Bool().Draw(t, "defvb") {
			vb = [4]float32{-32, -32, 32, 32}
		} else {
			vb = [4]float32{-24, -24, 24, float32(rapid.IntRange(24, 60).Draw(t, "vbh"))}
		}
		pal := ops.DefaultPalette()
		if rapid.Bool().Draw(t, "pal") {
			pal[0] = color.RGBA{0x10, 0x20, 0x30, 0x40}
			if rapid.Bool().Draw(t, "palmix") {
				// any valid suggested palette (entries of every width in any order)
				pal = gen.Palette(t, "palmix", true)
			}
		}
		o := ops.OpReset(gen.VB(vb), [64]color.RGBA(pal))
		if rapid.IntRange(0, 5).Draw(t, "zerometa") == 0 {
			o = ops.OpReset(ivg.ViewBox{}, [64]color.RGBA{})
		}
		lastLOD = [2]float32{0, inf32}
		return Call{What: "reset", Op: &o}
	case r < 8:
		if hiresOK && rapid.IntRange(0, 2).Draw(t, "hires") == 0 {
			return Call{What: "hires", Hi: rapid.Bool().Draw(t, "hi")}
		}
		return Call{What: "read"}
	case r < 12:
		return Call{What: "bytes"}
	case r < 14: // wrong-mode or bad-adj call
		switch rapid.IntRange(0, 4).Draw(t, "bad") {
		case 0:
			return op(ops.OpSetCReg(uint8(rapid.IntRange(7, 255).Draw(t, "adj")), rapid.Bool().Draw(t, "incr"), ops.ColorV{T: 1, R: 1}))
		case 1:
			// an incrementing write with any non-zero adjustment (1-6: the incrementing rule; 7-255,
			// multiples of 8 included: the adjustment rule as well)
			if rapid.Bool().Draw(t, "badincr.c") {
				return op(ops.OpSetCReg(uint8(rapid.IntRange(1, 255).Draw(t, "adj")), true, ops.ColorV{T: 2, R: 4}))
			}
			return op(ops.OpSetNReg(uint8(rapid.IntRange(1, 255).Draw(t, "adj")), true, 1))
		case 2:
			return op(ops.OpStartPath(uint8(rapid.IntRange(7, 255).Draw(t, "adj")), 0, 0))
		case 3:
			return op(ops.OpDraw(ops.AbsLineTo, 1, 1)) // possibly outside a path
		default:
			// a styling call, possibly inside a path; often one that asks for what is in force anyway
			switch rapid.IntRange(0, 5).Draw(t, "redundant") {
			case 0:
				return op(ops.OpSetCSel(0))
			case 1:
				return op(ops.OpSetNSel(0))
			case 2:
				return op(ops.OpSetLOD(0, inf32))
			case 3:
				return op(ops.OpSetLOD(lastLOD[0], lastLOD[1]))
			}
			return op(ops.OpSetCSel(3))
		}
	}
	if drawing {
		if rapid.IntRange(0, 9).Draw(t, "end") == 0 {
			return op(ops.OpDraw(ops.ClosePathEndPath))
		}
		k := rapid.SampledFrom(gen.DrawVerbs).Draw(t, "verb")
		if rapid.IntRange(0, 7).Draw(t, "closemove") == 0 {
			k = ops.ClosePathAbsMoveTo
		} else if prevVerb != 0 && rapid.IntRange(0, 2).Draw(t, "again") == 0 {
			k = prevVerb // the same verb again: one run in the encoding
		} else if rapid.IntRange(0, 11).Draw(t, "longrun") == 0 {
			runLeft = rapid.IntRange(15, 40).Draw(t, "runlen")
		}
		prevVerb = k
		if k == ops.ClosePathAbsMoveTo && rapid.Bool().Draw(t, "tostart") {
			// an absolute close-and-move to the very point the path was started at
			return op(ops.OpDraw(k, pathStart[0], pathStart[1]))
		}
		return drawCall(k)
	}
	switch rapid.IntRange(0, 5).Draw(t, "styling") {
	case 0:
		return op(ops.OpSetCSel(uint8(rapid.IntRange(0, 255).Draw(t, "sel"))))
	case 1:
		return op(ops.OpSetNSel(uint8(rapid.IntRange(0, 255).Draw(t, "sel"))))
	case 2:
		incr := rapid.Bool().Draw(t, "incr")
		adj := uint8(0)
		if !incr {
			adj = gen.Adj(t, "adj")
		}
		return op(ops.OpSetCReg(adj, incr, gen.Color(t, "c")))
	case 3:
		incr := rapid.Bool().Draw(t, "incr")
		adj := uint8(0)
		if !incr {
			adj = gen.Adj(t, "adj")
		}
		return op(ops.OpSetNReg(adj, incr, exact(t, "f")))
	case 4:
		lastLOD = [2]float32{float32(rapid.IntRange(0, 100).Draw(t, "l0")), float32(rapid.IntRange(0, 1000).Draw(t, "l1"))}
		return op(ops.OpSetLOD(lastLOD[0], lastLOD[1]))
	default:
		pathStart = [2]float32{exact(t, "x"), exact(t, "y")}
		return op(ops.OpStartPath(gen.Adj(t, "adj"), pathStart[0], pathStart[1]))
	}
}

// lastLOD: the level-of-detail range genCall set last (the default after a Reset).
var lastLOD = [2]float32{0, inf32}

// prevVerb: the drawing verb genCall drew last in the current case.
var prevVerb ops.Kind

// nextBytes: genCall's next call is Bytes.
var nextBytes bool

// pathStart: where genCall started the current path.
var pathStart [2]float32

// hiresOK: genCall may assign the resolution field.
var hiresOK bool

// runLeft: how many more calls of prevVerb genCall makes before choosing again.
var runLeft int

func TestRandomHistories(t *testing.T) {
	harness.Rapid(t, harness.N(6000, 16*80000), func(t *rapid.T) {
		n := rapid.IntRange(1, 300).Draw(t, "len")
		var c Case
		a := newAutomaton()
		prevVerb, runLeft, hiresOK, nextBytes = 0, 0, false, false
		lastLOD = [2]float32{0, inf32}
		for i := 0; i < n; i++ {
			call := genCall(t, a.st == stDrawing && a.err == vNone)
			a.step(i, call)
			hiresOK = a.lastReset >= 0 // the field is assigned only on an Encoder that was Reset at least once
			c.Calls = append(c.Calls, call)
		}
		labels := []string{"final=" + violationNames[a.err]}
		if a.err == vNone && a.st != stDrawing {
			labels = append(labels, "accepted-closed")
		}
		if a.err == vNone && a.st == stDrawing {
			labels = append(labels, "accepted-open-path")
		}
		if a.lastReset < 0 {
			labels = append(labels, "zero-value-start")
		}
		subHist.See(c, true, harness.HashJSON(c), labels...)
		subHist.Run(t, c)
	})
}
