// C03 — the decoder implements exactly the FFV0 instruction grammar.
package c03

import (
	"fmt"
	"testing"

	"github.com/reactivego/ivg/decode"
	"pgregory.net/rapid"

	"verif/internal/corpus"
	"verif/internal/gen"
	"verif/internal/harness"
	"verif/internal/ops"
	"verif/internal/spec"
)

func TestMain(m *testing.M) { harness.Main(m, "C03") }

type DiffCase struct {
	Bytes ops.Hex `json:"bytes"`
}

type BuiltCase struct {
	Bytes ops.Hex  `json:"bytes"`
	Want  []ops.Op `json:"want"`
}

func decodeRec(b []byte) (*ops.Recorder, error) {
	rec := &ops.Recorder{}
	err := decode.Decode(rec, append([]byte{}, b...))
	return rec, err
}

// checkDiff: decoder vs the independent reference parser.
func checkDiff(c DiffCase) error {
	rec, err := decodeRec(c.Bytes)
	p := spec.Parse(c.Bytes)
	if errNil := decode.Decode(nil, append([]byte{}, c.Bytes...)); (errNil == nil) != (err == nil) {
		return harness.Violatef("c03/no-destination-verdict", "Decode without a Destination says %v, with one %v", errNil, err)
	}
	// metadata-only decoding judges the magic and the metadata chunks by the same rules
	if _, errVB := decode.DecodeViewBox(append([]byte{}, c.Bytes...)); (errVB == nil) != p.MetaOK {
		return harness.Violatef("c03/viewbox-verdict", "DecodeViewBox says %v, the specification says the magic and metadata are well formed: %v (%s)", errVB, p.MetaOK, p.Err)
	}
	if (err == nil) != p.OK {
		if p.OK {
			return harness.Violatef("c03/rejects-well-formed", "decoder rejects (%v) a string the specification accepts", err)
		}
		if q := spec.ParseOpt(c.Bytes, spec.Options{AllowUnorderedMIDs: true}); q.OK {
			return harness.Violatef("c03/mid-order", "decoder accepts metadata chunks with MIDs %v; the specification requires strictly increasing MIDs", p.MIDs)
		}
		return harness.Violatef("c03/accepts-ill-formed", "decoder accepts a string the specification rejects: %s at offset %d", p.Err, p.ErrPos)
	}
	if d := ops.DiffOps(rec.Ops, p.Ops); d != "" {
		if p.OK {
			return harness.Violatef("c03/ops", "accepted string: %s", d)
		}
		return harness.Violatef("c03/ops-before-error", "rejected string (%s at %d): calls before the error: %s", p.Err, p.ErrPos, d)
	}
	return nil
}

// checkBuilt: a stream assembled from a known op list must decode to it.
func checkBuilt(c BuiltCase) error {
	rec, err := decodeRec(c.Bytes)
	if err != nil {
		return harness.Violatef("c03/rejects-well-formed", "decoder rejects (%v) an assembled well-formed stream", err)
	}
	if d := ops.DiffOps(rec.Ops, c.Want); d != "" {
		return harness.Violatef("c03/ops", "assembled stream: %s", d)
	}
	return checkDiff(DiffCase{c.Bytes})
}

var (
	subDiff  = harness.Define("diff", "byte strings (mutated generated streams, mutated corpus files, hostile constants) decoded by decode.Decode and by the reference parser: same verdict, identical calls (bit-exact numbers) also before an error; non-trivial = the reference gets past the metadata and the string is not a verbatim corpus file", checkDiff)
	subBuilt = harness.Define("built", "well-formed streams assembled from a generated op list in arbitrary spellings (any width per operand, any split of runs, ADJ/incr forms, 4-byte flag naturals, non-default metadata); non-trivial = uses a form the encoder never emits", checkBuilt)
	subSweep = harness.Define("sweep", "every opcode byte in each mode with every operand-width combination for one repetition (cycling widths after), plus every byte truncation of one spelling per opcode", checkDiff)
	subMeta  = harness.Define("meta", "metadata sections: 0/1/2/3 chunks in every order incl. repeated and unknown MIDs, lengths off by -3..+3, followed by a short instruction section", checkDiff)
)

func classifyBytes(b []byte) (p *spec.Parsed, nontrivial bool, labels []string) {
	p = spec.Parse(b)
	switch {
	case !p.MetaOK:
		labels = append(labels, "rejected-in-metadata")
	case !p.OK:
		labels = append(labels, "rejected-after-reset")
		if len(p.Ops) > 1 {
			labels = append(labels, "rejected-after>=1-op")
		}
	default:
		labels = append(labels, "accepted")
		if p.EndsInDrawing {
			labels = append(labels, "accepted-ends-in-drawing-mode")
		}
	}
	if p.NonCanonical {
		labels = append(labels, "non-canonical-number")
	}
	return p, p.MetaOK, labels
}

func TestBuiltStreams(t *testing.T) {
	harness.Rapid(t, harness.N(8000, 16*60000), func(t *rapid.T) {
		b, want, open := gen.Stream(t, gen.StreamCfg{AllowOpen: true})
		c := BuiltCase{Bytes: b, Want: want}
		p, _, labels := classifyBytes(b)
		if open {
			labels = append(labels, "left-open")
		}
		labels = append(labels, fmt.Sprintf("ops<%d", bucket(len(want))))
		subBuilt.See(c, p.NonCanonical || len(p.MIDs) > 0, harness.Hash(b), labels...)
		subBuilt.Run(t, c)
	})
}

func bucket(n int) int {
	for _, b := range []int{2, 10, 50, 200, 1000} {
		if n < b {
			return b
		}
	}
	return 1 << 20
}

func TestMutatedStreams(t *testing.T) {
	all := corpus.All()
	harness.Rapid(t, harness.N(10000, 16*80000), func(t *rapid.T) {
		var base, other []byte
		if rapid.Bool().Draw(t, "fromcorpus") {
			base = all[rapid.IntRange(0, len(all)-1).Draw(t, "file")].Data
			other = all[rapid.IntRange(0, len(all)-1).Draw(t, "file2")].Data
		} else {
			base, _, _ = gen.Stream(t, gen.StreamCfg{AllowOpen: true, MaxRun: 20})
			other, _, _ = gen.Stream(t, gen.StreamCfg{DefaultMeta: true, MaxRun: 6})
		}
		b := gen.Mutate(t, base, other)
		c := DiffCase{Bytes: b}
		_, nt, labels := classifyBytes(b)
		subDiff.See(c, nt, harness.Hash(b), labels...)
		subDiff.Run(t, c)
	})
}

// Metadata sections of every shape (the generator property C13 uses: any chunk order, every
// palette format and count, viewBox members of every form and magnitude incl. spans that overflow,
// wrong lengths), followed by a short instruction section: the reference parser decides.
func TestMetadataSections(t *testing.T) {
	tails := [][]byte{{}, {0xc0, 0x80, 0x80, 0xe1}, {0x05, 0x87, 0x10}, {0xc0, 0x80}, {0xc8}}
	harness.Rapid(t, harness.N(10000, 16*100000), func(t *rapid.T) {
		b, exp := gen.MetaSection(t)
		b = append(b, rapid.SampledFrom(tails).Draw(t, "tail")...)
		c := DiffCase{Bytes: b}
		_, nt, labels := classifyBytes(b)
		if exp.Valid {
			labels = append(labels, "metadata-built-well-formed")
		} else {
			labels = append(labels, "metadata-built-ill-formed")
		}
		subDiff.See(c, nt, harness.Hash(b), append(labels, exp.Labels...)...)
		subDiff.Run(t, c)
	})
}

func TestHostileAndCorpus(t *testing.T) {
	for _, b := range gen.Hostile {
		if harness.Shard() != 0 {
			break
		}
		c := DiffCase{Bytes: b}
		_, nt, labels := classifyBytes(b)
		subDiff.See(c, nt, harness.Hash(b), append(labels, "hostile-constant")...)
		subDiff.Run(t, c)
	}
	files := corpus.All()
	if !harness.Thorough() {
		files = corpus.Sample(8)
	}
	lo, hi := harness.Range(uint64(len(files)))
	for _, f := range files[lo:hi] {
		c := DiffCase{Bytes: f.Data}
		subDiff.See(c, false, harness.Hash(f.Data), "corpus-verbatim")
		subDiff.Run(t, c)
	}
	// Thorough: every single-byte corruption of the testdata graphics.
	if harness.Thorough() {
		td := corpus.Testdata()
		for fi, f := range td {
			if fi%harness.Shards() != harness.Shard() {
				continue
			}
			buf := append([]byte{}, f.Data...)
			for pos := range buf {
				orig := buf[pos]
				for v := 0; v < 256; v++ {
					if byte(v) == orig {
						continue
					}
					buf[pos] = byte(v)
					c := DiffCase{Bytes: buf}
					p := spec.Parse(buf)
					subDiff.Observe(p.MetaOK, harness.Hash(buf), nil, "corpus-single-byte-corruption")
					if err := subDiff.Eval(DiffCase{Bytes: append([]byte{}, c.Bytes...)}); err != nil {
						t.Fatal(err)
					}
				}
				buf[pos] = orig
			}
		}
	}
}

// ---------------------------------------------------------------- opcode sweep

var prefixStyling = []byte{0x89, 'I', 'V', 'G', 0x00}
var prefixDrawing = []byte{0x89, 'I', 'V', 'G', 0x00, 0xc0, 0x80, 0x80}

// operand kinds of one repetition of an opcode, 'c' coordinate, 'r' real, 'z'
// zero-to-one, 'n' natural, or a colour form digit '0'..'4'.
func operandKinds(mode int, op byte) (kinds string, reps int, ok bool) {
	if mode == 0 {
		switch {
		case op < 0x80:
			return "", 1, true
		case op < 0xa8:
			return string(rune('0' + int(op-0x80)/8)), 1, true
		case op < 0xb0:
			return "r", 1, true
		case op < 0xb8:
			return "c", 1, true
		case op < 0xc0:
			return "z", 1, true
		case op < 0xc7:
			return "cc", 1, true
		case op == 0xc7:
			return "rr", 1, true
		}
		return "", 0, false
	}
	switch {
	case op < 0x20:
		return "cc", int(op) + 1, true
	case op < 0x40:
		return "cc", int(op-0x20) + 1, true
	case op < 0x60:
		return "cc", int(op&15) + 1, true
	case op < 0xa0:
		return "cccc", int(op&15) + 1, true
	case op < 0xc0:
		return "cccccc", int(op&15) + 1, true
	case op < 0xe0:
		return "cczncc", int(op&15) + 1, true
	case op == 0xe1:
		return "", 1, true
	case op == 0xe2, op == 0xe3:
		return "cc", 1, true
	case op >= 0xe6 && op <= 0xe9:
		return "c", 1, true
	}
	return "", 0, false
}

var widths = [3]int{1, 2, 4}

// operand renders one operand of the given kind and width with a payload that
// varies with ctr.
func operand(kind byte, w int, ctr *uint32) []byte {
	*ctr = *ctr*1664525 + 1013904223
	x := *ctr >> 7
	if kind >= '0' && kind <= '4' {
		n := spec.ColorFormLen[kind-'0']
		out := make([]byte, n)
		for i := range out {
			out[i] = byte(x >> (8 * uint(i) % 24))
			x = x*31 + 7
		}
		return out
	}
	switch w {
	case 1:
		return spec.EncodeNaturalW(x&0x7f, 1)
	case 2:
		return spec.EncodeNaturalW(x&0x3fff, 2)
	}
	if kind == 'n' {
		return spec.EncodeNaturalW(x&0x3fffffff, 4)
	}
	// keep 4-byte floats finite and moderate: sign, exponent 120..135, random mantissa
	sign := x & 1
	exp := 120 + (x>>1)&15
	man := (x >> 5) & 0x1fffff
	return spec.EncodeNaturalW(sign<<29|exp<<21|man, 4)
}

func TestOpcodeSweep(t *testing.T) {
	harness.OnlyFirstShard(t)
	var ctr uint32 = 12345
	evals, nontriv := int64(0), int64(0)
	var stylingSeen, drawingSeen [256]bool
	sampled := 0
	run := func(b []byte) {
		evals++
		p := spec.Parse(b)
		if p.MetaOK {
			nontriv++
		}
		for i, s := range p.StylingOpcodes {
			stylingSeen[i] = stylingSeen[i] || s
		}
		for i, s := range p.DrawingOpcodes {
			drawingSeen[i] = drawingSeen[i] || s
		}
		if err := subSweep.Eval(DiffCase{Bytes: append([]byte{}, b...)}); err != nil {
			t.Fatal(err)
		}
	}
	for mode := 0; mode < 2; mode++ {
		prefix := prefixStyling
		if mode == 1 {
			prefix = prefixDrawing
		}
		for opc := 0; opc < 256; opc++ {
			op := byte(opc)
			kinds, reps, ok := operandKinds(mode, op)
			if !ok {
				// reserved: alone, and followed by plausible operands
				run(append(append([]byte{}, prefix...), op))
				run(append(append([]byte{}, prefix...), op, 0x80, 0x80, 0x80, 0x80, 0xe1))
				continue
			}
			nNum := 0
			for i := 0; i < len(kinds); i++ {
				if kinds[i] >= 'a' {
					nNum++
				}
			}
			combos := 1
			for i := 0; i < nNum; i++ {
				combos *= 3
			}
			for combo := 0; combo < combos; combo++ {
				b := append(append([]byte{}, prefix...), op)
				for r := 0; r < reps; r++ {
					cc := combo
					for i := 0; i < len(kinds); i++ {
						w := 1
						if kinds[i] >= 'a' {
							if r == 0 {
								w = widths[cc%3]
								cc /= 3
							} else {
								w = widths[(r+i+combo)%3]
							}
						}
						b = append(b, operand(kinds[i], w, &ctr)...)
					}
				}
				// followed by something legal in the resulting mode, so that a
				// wrong operand count derails visibly
				full := append([]byte{}, b...)
				switch {
				case mode == 0 && op >= 0xc0 && op < 0xc7:
					full = append(full, 0xe1, 0x05)
				case mode == 0:
					full = append(full, 0x45, 0xc0, 0x80, 0x80, 0xe1)
				case op == 0xe1:
					full = append(full, 0x05)
				default:
					full = append(full, 0xe6, 0x10, 0xe1, 0x05)
				}
				run(full)
				if sampled < 3 && combo == 1 {
					subSweep.AddSample(DiffCase{Bytes: full})
					sampled++
				}
				if combo == combos/2 {
					// every truncation of this spelling
					for cut := len(prefix); cut < len(b); cut++ {
						run(b[:cut])
					}
				}
			}
		}
	}
	ns, nd := 0, 0
	for i := 0; i < 256; i++ {
		if stylingSeen[i] {
			ns++
		}
		if drawingSeen[i] {
			nd++
		}
	}
	subSweep.AddEnumerated(evals, nontriv)
	subSweep.Label("styling-opcodes-exercised", int64(ns))
	subSweep.Label("drawing-opcodes-exercised", int64(nd))
	subSweep.SetExhaustive()
	if ns != 256 || nd != 256 {
		t.Fatalf("sweep covered %d styling and %d drawing opcodes, want 256 each", ns, nd)
	}
}

// ---------------------------------------------------------------- metadata variants

func chunkVB(vals [4]byte) []byte { return []byte{0x0a, 0x00, vals[0], vals[1], vals[2], vals[3]} }
func chunkPal(n byte) []byte {
	body := []byte{0x02, n}
	for i := 0; i <= int(n&0x3f); i++ {
		body = append(body, byte(0x10+i))
	}
	return append([]byte{byte(len(body)) << 1}, body...)
}

func TestMetadataOrder(t *testing.T) {
	harness.OnlyFirstShard(t)
	chunks := map[string][]byte{
		"V": chunkVB([4]byte{0x50, 0x50, 0xb0, 0xb0}),
		"W": chunkVB([4]byte{0x60, 0x60, 0xa0, 0xa0}),
		"P": chunkPal(1),
		"Q": chunkPal(2),
		"U": {0x02, 0x04},                         // unknown MID 2, length 1
		"X": {0x0a, 0x04, 0x80, 0x80, 0x80, 0x80}, // unknown MID 2 with payload
	}
	letters := []string{"V", "W", "P", "Q", "U", "X"}
	tails := [][]byte{{}, {0xc0, 0x80, 0x80, 0xe1}, {0x05}}
	n, nt := int64(0), int64(0)
	var seqs []string
	seqs = append(seqs, "")
	for _, a := range letters {
		seqs = append(seqs, a)
		for _, b := range letters {
			seqs = append(seqs, a+b)
			for _, c := range letters {
				seqs = append(seqs, a+b+c)
			}
		}
	}
	for _, s := range seqs {
		for _, tail := range tails {
			for _, countDelta := range []int{0, 1, -1} {
				cnt := len(s) + countDelta
				if cnt < 0 {
					continue
				}
				b := append([]byte{}, spec.Magic...)
				b = append(b, byte(cnt)<<1)
				for _, l := range s {
					b = append(b, chunks[string(l)]...)
				}
				b = append(b, tail...)
				n++
				p := spec.Parse(b)
				if p.MetaOK {
					nt++
				}
				if n%97 == 1 {
					subMeta.AddSample(DiffCase{Bytes: b})
				}
				if err := subMeta.Eval(DiffCase{Bytes: b}); err != nil {
					t.Fatal(err)
				}
			}
		}
	}
	// declared lengths off by -3..+3
	for _, s := range []string{"V", "P", "VP"} {
		for delta := -3; delta <= 3; delta++ {
			for which := 0; which < len(s); which++ {
				b := append([]byte{}, spec.Magic...)
				b = append(b, byte(len(s))<<1)
				for i, l := range s {
					ch := append([]byte{}, chunks[string(l)]...)
					if i == which {
						ch[0] = byte(int(ch[0]>>1)+delta) << 1
					}
					b = append(b, ch...)
				}
				b = append(b, 0xc0, 0x80, 0x80, 0xe1)
				n++
				if err := subMeta.Eval(DiffCase{Bytes: b}); err != nil {
					t.Fatal(err)
				}
			}
		}
	}
	subMeta.AddEnumerated(n, nt)
	subMeta.SetExhaustive()
}

func FuzzDiff(f *testing.F) {
	var seeds [][]byte
	for _, c := range corpus.Sample(16) {
		seeds = append(seeds, c.Data)
	}
	seeds = append(seeds, gen.Hostile...)
	fz := harness.Counter("fuzz-diff", "native coverage-guided fuzzing (go test -fuzz) of the differential oracle, seeded with corpus graphics and hostile constants (thorough tier only)")
	harness.FuzzBytes(f, seeds, func(b []byte) error { return subDiff.Eval(DiffCase{Bytes: b}) }, func(b []byte) {
		p := spec.Parse(b)
		fz.Observe(p.MetaOK, harness.Hash(b), nil)
	})
}
