// C19 — generator gradient helpers realise the requested geometry and registers.
package c19

import (
	"fmt"
	"image"
	"image/color"
	"math"
	"testing"

	"github.com/reactivego/ivg"
	"github.com/reactivego/ivg/decode"
	"github.com/reactivego/ivg/encode"
	"github.com/reactivego/ivg/generate"
	"github.com/reactivego/ivg/render"
	"pgregory.net/rapid"

	"verif/internal/gen"
	"verif/internal/harness"
	"verif/internal/ops"
	"verif/internal/rast"
	"verif/internal/spec"
)

func TestMain(m *testing.M) { harness.Main(m, "C19") }

type StopSpec struct {
	Offset ops.F32   `json:"o"`
	Model  string    `json:"m"` // RGBA NRGBA RGBA64 Gray Alpha16 CMYK Alpha Gray16 NRGBA64 YCbCr Custom
	V      [4]uint16 `json:"v"`
}

func (s StopSpec) color() color.Color {
	v := s.V
	switch s.Model {
	case "NRGBA":
		return color.NRGBA{uint8(v[0]), uint8(v[1]), uint8(v[2]), uint8(v[3])}
	case "RGBA64":
		return color.RGBA64{v[0], v[1], v[2], v[3]}
	case "Gray":
		return color.Gray{uint8(v[0])}
	case "Alpha16":
		return color.Alpha16{v[0]}
	case "Alpha":
		return color.Alpha{uint8(v[0])}
	case "Gray16":
		return color.Gray16{v[0]}
	case "NRGBA64":
		return color.NRGBA64{v[0], v[1], v[2], v[3]}
	case "YCbCr":
		return color.YCbCr{uint8(v[0]), uint8(v[1]), uint8(v[2])}
	case "Custom":
		return customColor(v)
	case "CMYK":
		return color.CMYK{uint8(v[0]), uint8(v[1]), uint8(v[2]), uint8(v[3])}
	}
	return color.RGBA{uint8(v[0]), uint8(v[1]), uint8(v[2]), uint8(v[3])}
}

// customColor: a caller's own color.Color implementation (premultiplied 16-bit channels).
type customColor [4]uint16

func (c customColor) RGBA() (r, g, b, a uint32) {
	return uint32(c[0]), uint32(c[1]), uint32(c[2]), uint32(c[3])
}

func (s StopSpec) rgba8() color.RGBA {
	r, g, b, a := s.color().RGBA()
	return color.RGBA{uint8(r >> 8), uint8(g >> 8), uint8(b >> 8), uint8(a >> 8)}
}

type Case struct {
	Kind      string     `json:"kind"` // linear circular elliptical gradient
	F         []ops.F32  `json:"f"`
	Radial    bool       `json:"radial,omitempty"` // for kind gradient
	Spread    uint8      `json:"spread"`
	Stops     []StopSpec `json:"stops"`
	PriorCSel uint8      `json:"prior_csel"`
	// FillAdj: the path that shows the gradient names its register as CSEL minus this adjustment.
	FillAdj uint8 `json:"fill_adj,omitempty"`
	PriorNSel uint8      `json:"prior_nsel"`
	// ViaIncr > 0: the prior selectors are reached by that many incrementing
	// writes (wrapping past 63) instead of a plain selector write.
	ViaIncr int    `json:"via_incr,omitempty"`
	Dest    string `json:"dest"` // renderer encoder recorder
	// Jobs > 1: the same Generator and destination are Reset and the same
	// helper call is made again (a second graphic with the same gradient).
	Jobs int `json:"jobs,omitempty"`
	// ErrFirst: a helper call that must be rejected (60 stops) is made just before the call under
	// test, on the same Generator, with no Reset in between.
	ErrFirst bool `json:"err_first,omitempty"`
	// SwitchDest: with Jobs > 1, the Generator gets a new destination object for the later job.
	SwitchDest bool `json:"switch_dest,omitempty"`
	// EditStop: with Jobs > 1, the later job passes the very same stop slice with one colour edited in place.
	EditStop bool `json:"edit_stop,omitempty"`
	// PathTransform: SetTransform (the path-data transform) is in force while the helper is called.
	PathTransform bool `json:"path_transform,omitempty"`
	// Retarget: with a Renderer as destination, after the first filled path the Renderer is aimed at
	// this rectangle (x, y, w, h) and another path is filled with the gradient still in the registers.
	Retarget *[4]int    `json:"retarget,omitempty"`
	ViewBox  [4]ops.F32 `json:"viewbox"`
	Rect     [4]int     `json:"rect"`
}

func arg(c Case, i int) float32 {
	if i < len(c.F) {
		return float32(c.F[i])
	}
	return 0
}

var stopsModified bool

// reuseSlice: with EditStop, the caller's one stop list, refilled in place from job to job.
var reuseSlice []generate.GradientStop

func callHelper(g *generate.Generator, c Case) (err error) {
	stops := make([]generate.GradientStop, len(c.Stops), len(c.Stops)+2)
	if c.EditStop {
		if len(reuseSlice) != len(c.Stops) {
			reuseSlice = make([]generate.GradientStop, len(c.Stops), len(c.Stops)+2)
		}
		stops = reuseSlice
	}
	for i, s := range c.Stops {
		stops[i] = generate.GradientStop{Offset: float32(s.Offset), Color: s.color()}
	}
	keep := append([]generate.GradientStop{}, stops...)
	defer func() {
		// the caller's stop list is an input: it must come back untouched
		for i := range keep {
			if stops[i] != keep[i] {
				stopsModified = true
			}
		}
		if len(stops) != len(keep) {
			stopsModified = true
		}
	}()
	sp := generate.GradientSpread(c.Spread)
	switch c.Kind {
	case "linear":
		return g.SetLinearGradient(arg(c, 0), arg(c, 1), arg(c, 2), arg(c, 3), sp, stops)
	case "circular":
		return g.SetCircularGradient(arg(c, 0), arg(c, 1), arg(c, 2), arg(c, 3), sp, stops)
	case "elliptical":
		return g.SetEllipticalGradient(arg(c, 0), arg(c, 1), arg(c, 2), arg(c, 3), arg(c, 4), arg(c, 5), sp, stops)
	}
	shape := generate.GradientShapeLinear
	if c.Radial {
		shape = generate.GradientShapeRadial
	}
	return g.SetGradient(shape, sp, stops, generate.Aff3{arg(c, 0), arg(c, 1), arg(c, 2), arg(c, 3), arg(c, 4), arg(c, 5)})
}

// prior establishes the selector state before the helper call.
func prior(d ivg.Destination, c Case) {
	if c.ViaIncr > 0 {
		k := uint8(c.ViaIncr)
		d.SetCSel((c.PriorCSel - k) & 63)
		d.SetNSel((c.PriorNSel - k) & 63)
		for i := 0; i < c.ViaIncr; i++ {
			d.SetCReg(0, true, ivg.RGBAColor(color.RGBA{0x11, 0x22, 0x33, 0xff}))
			d.SetNReg(0, true, 0.5)
		}
		return
	}
	d.SetCSel(c.PriorCSel)
	d.SetNSel(c.PriorNSel)
}

const eps32 = 1.0 / (1 << 23)

func validForRendering(c Case) bool {
	n := len(c.Stops)
	if n < 2 || n > 58 {
		return false
	}
	for i, s := range c.Stops {
		o := float32(s.Offset)
		if !(o >= 0 && o <= 1) || i > 0 && !(o > float32(c.Stops[i-1].Offset)) {
			return false
		}
		if !spec.Premultiplied(s.rgba8()) {
			return false
		}
	}
	return true
}

func checkHelper(c Case) error {
	vb := [4]float32{float32(c.ViewBox[0]), float32(c.ViewBox[1]), float32(c.ViewBox[2]), float32(c.ViewBox[3])}
	rect := image.Rect(c.Rect[0], c.Rect[1], c.Rect[0]+c.Rect[2], c.Rect[1]+c.Rect[3])
	n := len(c.Stops)

	// the destination under test, wrapped so that every call is seen
	var enc *encode.Encoder
	var rr *rast.Recorder
	var hook *ops.Recorder
	newDest := func() {
		var inner ivg.Destination
		enc = nil
		rr = &rast.Recorder{}
		switch c.Dest {
		case "renderer":
			z := &render.Renderer{}
			z.SetRasterizer(rr, rect)
			inner = z
		case "encoder":
			enc = &encode.Encoder{}
			inner = enc
		}
		hook = &ops.Recorder{Inner: inner}
	}
	newDest()
	var g generate.Generator
	g.SetDestination(hook)
	jobs := c.Jobs
	if jobs < 1 {
		jobs = 1
	}
	reuseSlice = nil
	for job := 0; job < jobs; job++ {
		if job > 0 && c.EditStop && len(c.Stops) > 0 {
			// the caller edits one colour of its stop list in place and calls the helper again
			// with the very same slice
			c.Stops = append([]StopSpec{}, c.Stops...)
			i := (len(c.Stops) - 1) / 2
			c.Stops[i].Model, c.Stops[i].V = "RGBA", [4]uint16{0x12, 0x34, 0x56, 0xff}
		}
		if job > 0 && c.SwitchDest {
			// the same Generator is pointed at a new destination of the same kind
			newDest()
			g.SetDestination(hook)
		}
		if err := oneJob(c, &g, hook, enc, rr, vb, rect, n); err != nil {
			if v, ok := err.(*harness.Violation); ok && job > 0 {
				v.Msg = fmt.Sprintf("job %d on the same Generator: %s", job+1, v.Msg)
			}
			return err
		}
	}
	return nil
}

func oneJob(c Case, gp *generate.Generator, hook *ops.Recorder, enc *encode.Encoder, rr *rast.Recorder, vb [4]float32, rect image.Rectangle, n int) error {
	g := *gp
	defer func() { *gp = g }()
	g.Reset(gen.VB(vb), ivg.DefaultPalette)
	prior(&g, c)
	if c.ErrFirst {
		many := make([]generate.GradientStop, 60)
		for i := range many {
			many[i] = generate.GradientStop{Offset: float32(i) / 60, Color: color.RGBA{uint8(i), 0, 0, 0xff}}
		}
		n0 := len(hook.Ops)
		if err := g.SetCircularGradient(1, 2, 3, 4, generate.GradientSpreadReflect, many); err == nil {
			return harness.Violatef("c19/no-error", "SetCircularGradient with 60 stops returned no error")
		}
		for _, o := range hook.Ops[n0:] {
			if o.K == ops.SetCReg || o.K == ops.SetNReg {
				return harness.Violatef("c19/write-before-error", "the rejected 60-stop call wrote a register (%v)", o.K)
			}
		}
	}
	before := len(hook.Ops)
	cs0, ns0 := g.CSel()&63, g.NSel()&63
	if cs0 != c.PriorCSel&63 || ns0 != c.PriorNSel&63 {
		return harness.Violatef("c19/prior-selectors", "%s destination reports CSEL=%d NSEL=%d after the prior writes, the machine holds %d/%d", c.Dest, cs0, ns0, c.PriorCSel&63, c.PriorNSel&63)
	}
	if c.PathTransform {
		// a path-data transform configured on the Generator is no business of the gradient helpers
		g.SetTransform(generate.Scale(2, 3), generate.Translate(5, -7))
	}
	stopsModified = false
	err := callHelper(&g, c)
	if c.PathTransform {
		g.SetTransform()
	}
	if stopsModified {
		return harness.Violatef("c19/stops-modified", "the helper modified the caller's stop list")
	}
	calls := hook.Ops[before:]
	cs1, ns1 := g.CSel()&63, g.NSel()&63

	// (iv) documented errors, before anything is written
	var wantErr error
	switch {
	case n > 58:
		wantErr = generate.TooManyGradientStops
	case (c.PriorCSel-10)&63 < uint8(n):
		wantErr = generate.CSELUsedAsBothGradientAndStop
	}
	if wantErr != nil {
		if err != wantErr {
			return harness.Violatef("c19/missing-error", "%d stops, CSEL=%d (%s destination, selectors reached %s): helper returned %v, documented error is %q", n, c.PriorCSel, c.Dest, how(c), err, wantErr)
		}
		if len(calls) != 0 {
			return harness.Violatef("c19/writes-before-error", "helper returned %v after making %d destination calls", err, len(calls))
		}
	} else if err != nil {
		return harness.Violatef("c19/unexpected-error", "%d stops, CSEL=%d: helper returned %v", n, c.PriorCSel, err)
	}
	// (v) selectors restored
	if cs1 != cs0 || ns1 != ns0 {
		return harness.Violatef("c19/selectors-not-restored", "CSEL/NSEL were %d/%d before the helper and %d/%d after (%s destination, err=%v)", cs0, ns0, cs1, ns1, c.Dest, err)
	}
	if wantErr != nil {
		return nil
	}

	// (iii) registers, through the reference VM on the calls as made
	var vm spec.VM
	vm.Reset(ivg.DefaultPalette)
	for _, o := range hook.Ops {
		vm.Step(o, 64)
	}
	gc := vm.CReg[cs0]
	if !spec.IsGradient(gc) {
		return harness.Violatef("c19/no-gradient-value", "CREG[CSEL=%d] holds %v after the helper, not a gradient value", cs0, gc)
	}
	bits := spec.DecodeGradientBits(gc)
	wantRadial := c.Kind == "circular" || c.Kind == "elliptical" || c.Kind == "gradient" && c.Radial
	if int(bits.NStops) != n || bits.Spread != c.Spread || bits.Radial != wantRadial {
		return harness.Violatef("c19/gradient-value", "gradient value says NSTOPS=%d spread=%d radial=%v, requested %d/%d/%v", bits.NStops, bits.Spread, bits.Radial, n, c.Spread, wantRadial)
	}
	for i, s := range c.Stops {
		if got := vm.CReg[(bits.CBase+uint8(i))&63]; got != s.rgba8() {
			return harness.Violatef("c19/stop-registers", "stop %d: CREG[CBASE+%d] = %v, requested colour converts to %v", i, i, got, s.rgba8())
		}
		if got := vm.NReg[(bits.NBase+uint8(i))&63]; !ops.SameF32(got, float32(s.Offset)) {
			return harness.Violatef("c19/stop-registers", "stop %d: NREG[NBASE+%d] = %v, requested offset %v", i, i, got, s.Offset)
		}
	}
	var m [6]float64
	for j := 0; j < 6; j++ {
		m[j] = float64(vm.NReg[(bits.NBase-6+uint8(j))&63])
	}
	if c.Kind == "gradient" {
		for j := 0; j < 6; j++ {
			if !ops.SameF32(float32(m[j]), arg(c, j)) {
				return harness.Violatef("c19/matrix-registers", "NREG[NBASE-6+%d] = %v, the given matrix entry is %v", j, m[j], arg(c, j))
			}
		}
	}
	// geometry from the registers (viewBox space)
	if err := checkGeometry(c, func(x, y float64) (float64, float64) {
		return m[0]*x + m[1]*y + m[2], m[3]*x + m[4]*y + m[5]
	}, "registers"); err != nil {
		return err
	}

	// (i)+(ii) the paint reaching the rasteriser
	if !validForRendering(c) || c.Dest == "recorder" {
		return nil
	}
	// the path is filled from the register the helper wrote (CREG[CSEL]), addressed directly or as
	// selector minus adjustment
	if c.FillAdj > 0 {
		g.SetCSel((g.CSel() + c.FillAdj) & 63)
	}
	g.StartPath(c.FillAdj, vb[0], vb[1])
	g.AbsLineTo(vb[2], vb[1])
	g.AbsLineTo(vb[2], vb[3])
	g.ClosePathEndPath()
	if enc != nil {
		b, berr := enc.Bytes()
		if berr != nil {
			return harness.Violatef("c19/bytes-error", "Bytes: %v", berr)
		}
		z := &render.Renderer{}
		z.SetRasterizer(rr, rect)
		if derr := decode.Decode(z, append([]byte{}, b...)); derr != nil {
			return harness.Violatef("c19/decode-error", "Decode: %v", derr)
		}
	}
	if len(rr.Calls) == 0 || rr.Calls[len(rr.Calls)-1].K != rast.Draw {
		return harness.Violatef("c19/not-rendered", "a path filled with the helper's gradient (%d valid stops) was not drawn (%s destination, selectors reached %s)", n, c.Dest, how(c))
	}
	p := rr.Calls[len(rr.Calls)-1].P
	if p.Kind != "gradient" {
		return harness.Violatef("c19/not-a-gradient", "the path filled from CREG[CSEL] after the helper is painted %s, not with a gradient (%s destination, selectors reached %s)", p.Kind, c.Dest, how(c))
	}
	if p.Shape != b2i(wantRadial) || p.Spread != int(c.Spread) || len(p.Offsets) != n {
		return harness.Violatef("c19/rendered-config", "rendered gradient shape=%d spread=%d stops=%d, requested %d/%d/%d", p.Shape, p.Spread, len(p.Offsets), b2i(wantRadial), c.Spread, n)
	}
	for i, s := range c.Stops {
		if p.Colors[i] != s.rgba8() {
			return harness.Violatef("c19/rendered-stops", "rendered stop %d colour %v, requested %v", i, p.Colors[i], s.rgba8())
		}
		o := float64(float32(s.Offset))
		if math.Abs(p.Offsets[i]-o) > 4*eps32*math.Abs(o) {
			return harness.Violatef("c19/rendered-stops", "rendered stop %d offset %v, requested %v", i, p.Offsets[i], o)
		}
	}
	sx := float64(c.Rect[2]) / (float64(vb[2]) - float64(vb[0]))
	sy := float64(c.Rect[3]) / (float64(vb[3]) - float64(vb[1]))
	T := p.Transform
	// the paint is sampled at the source point given to Draw plus the pixel's place in the rectangle
	sp := rr.Calls[len(rr.Calls)-1].SP
	if err := checkGeometry(c, func(x, y float64) (float64, float64) {
		px, py := (x-float64(vb[0]))*sx+float64(sp.X), (y-float64(vb[1]))*sy+float64(sp.Y)
		return T[0]*px + T[1]*py + T[2], T[3]*px + T[4]*py + T[5]
	}, "rendered paint via "+c.Dest); err != nil {
		return err
	}
	// the Renderer is aimed at another rectangle (the next size of the same icon) and the same
	// gradient, still in the registers, fills another path: the geometry holds under the new map
	if zr, ok := hook.Inner.(*render.Renderer); ok && c.Retarget != nil {
		r2 := image.Rect(c.Retarget[0], c.Retarget[1], c.Retarget[0]+c.Retarget[2], c.Retarget[1]+c.Retarget[3])
		zr.SetRasterizer(rr, r2)
		g.StartPath(c.FillAdj, vb[0], vb[1])
		g.AbsLineTo(vb[2], vb[1])
		g.AbsLineTo(vb[2], vb[3])
		g.ClosePathEndPath()
		p2 := rr.Calls[len(rr.Calls)-1].P
		if rr.Calls[len(rr.Calls)-1].K != rast.Draw || p2 == nil || p2.Kind != "gradient" {
			return harness.Violatef("c19/not-rendered", "after re-targeting the Renderer, a path filled with the same gradient was not drawn with a gradient")
		}
		sx2 := float64(c.Retarget[2]) / (float64(vb[2]) - float64(vb[0]))
		sy2 := float64(c.Retarget[3]) / (float64(vb[3]) - float64(vb[1]))
		T2 := p2.Transform
		sp2 := rr.Calls[len(rr.Calls)-1].SP
		err := checkGeometry(c, func(x, y float64) (float64, float64) {
			px, py := (x-float64(vb[0]))*sx2+float64(sp2.X), (y-float64(vb[1]))*sy2+float64(sp2.Y)
			return T2[0]*px + T2[1]*py + T2[2], T2[3]*px + T2[4]*py + T2[5]
		}, "rendered paint after re-targeting the Renderer")
		zr.SetRasterizer(rr, rect)
		return err
	}
	return nil
}

func how(c Case) string {
	if c.ViaIncr > 0 {
		return fmt.Sprintf("by %d incrementing writes", c.ViaIncr)
	}
	return "by plain selector writes"
}

func b2i(b bool) int {
	if b {
		return 1
	}
	return 0
}

// checkGeometry tests the requested geometry on a viewBox->gradient map G.
func checkGeometry(c Case, G func(x, y float64) (float64, float64), where string) error {
	a := func(i int) float64 { return float64(arg(c, i)) }
	sum := 0.0
	for i := range c.F {
		sum += math.Abs(a(i))
	}
	near := func(got, want, cond float64, what string) error {
		tol := 64 * eps32 * cond
		if where != "registers" && c.Dest == "encoder" {
			tol *= 2 // matrix entries pass through the 30-bit form
		}
		if math.IsNaN(got) || math.Abs(got-want) > tol {
			return harness.Violatef("c19/geometry", "%s (%s): %s = %v, expected %v (tolerance %g)", c.Kind, where, what, got, want, tol)
		}
		return nil
	}
	switch c.Kind {
	case "linear":
		x1, y1, x2, y2 := a(0), a(1), a(2), a(3)
		dx, dy := x2-x1, y2-y1
		cond := 1 + sum/math.Hypot(dx, dy)
		g0, _ := G(x1, y1)
		g1, _ := G(x2, y2)
		gp, _ := G(x1+dy, y1-dx)
		for _, e := range []error{near(g0, 0, cond, "offset at (x1,y1)"), near(g1, 1, cond, "offset at (x2,y2)"), near(gp, 0, 2*cond, "offset along the perpendicular through (x1,y1)")} {
			if e != nil {
				return e
			}
		}
	case "circular":
		cx, cy, rx, ry := a(0), a(1), a(2), a(3)
		r := math.Hypot(rx, ry)
		cond := 1 + sum/r
		d := func(x, y float64) float64 { gx, gy := G(x, y); return math.Hypot(gx, gy) }
		for _, e := range []error{near(d(cx, cy), 0, cond, "distance at the centre"), near(d(cx+rx, cy+ry), 1, cond, "distance at centre+radius vector"),
			near(d(cx-ry, cy+rx), 1, cond, "distance at centre+rotated radius vector"), near(d(cx-rx, cy-ry), 1, cond, "distance at centre-radius vector")} {
			if e != nil {
				return e
			}
		}
	case "elliptical":
		cx, cy, rx, ry, sx, sy := a(0), a(1), a(2), a(3), a(4), a(5)
		lr, ls := math.Hypot(rx, ry), math.Hypot(sx, sy)
		sin := math.Abs(rx*sy-sx*ry) / (lr * ls)
		cond := (1 + sum/math.Min(lr, ls)) / sin
		d := func(x, y float64) float64 { gx, gy := G(x, y); return math.Hypot(gx, gy) }
		for _, e := range []error{near(d(cx, cy), 0, cond, "distance at the centre"), near(d(cx+rx, cy+ry), 1, cond, "distance at the first axis end point"), near(d(cx+sx, cy+sy), 1, cond, "distance at the second axis end point")} {
			if e != nil {
				return e
			}
		}
		// the ellipse with conjugate half-axes r and s is c + r*cos(t) + s*sin(t): offset 1 all
		// the way round, offset 1/2 half-way out
		for _, deg := range []float64{45, 120, 200, 250, 333} {
			ct, st := math.Cos(deg*math.Pi/180), math.Sin(deg*math.Pi/180)
			if e := near(d(cx+rx*ct+sx*st, cy+ry*ct+sy*st), 1, cond, fmt.Sprintf("distance on the ellipse at parameter %v degrees", deg)); e != nil {
				return e
			}
			if e := near(d(cx+(rx*ct+sx*st)/2, cy+(ry*ct+sy*st)/2), 0.5, cond, fmt.Sprintf("distance half-way out at parameter %v degrees", deg)); e != nil {
				return e
			}
		}
	case "gradient":
		// the map is the matrix itself: probe three points
		for _, pt := range [][2]float64{{0, 0}, {1, 0}, {0, 1}, {7, -3}} {
			gx, gy := G(pt[0], pt[1])
			wx := a(0)*pt[0] + a(1)*pt[1] + a(2)
			wy := a(3)*pt[0] + a(4)*pt[1] + a(5)
			cond := 1 + 10*sum
			if e := near(gx, wx, cond, fmt.Sprintf("x at %v", pt)); e != nil {
				return e
			}
			if c.Radial {
				if e := near(gy, wy, cond, fmt.Sprintf("y at %v", pt)); e != nil {
					return e
				}
			}
		}
	}
	return nil
}

var subHelper = harness.Define("helpers", "SetLinearGradient / SetCircularGradient / SetEllipticalGradient / SetGradient with non-degenerate geometry over 1e-2..1e3 (also exactly axis-aligned vectors in either order and sign), four spreads, stop lists of length 0..300 (dense at 0,1,2,57,58,59,255,256,257,300) of several colour models, every prior CSEL/NSEL reached by plain or wrapping incrementing writes, into a Renderer, an Encoder (then decoded) or a plain recorder: documented errors before any write, selectors restored, registers named by the written gradient value hold stops and matrix, geometry read back from registers and from the rendered paint, stops/spread/shape rendered as requested; non-trivial = geometry not axis-aligned at the origin, or an error path, or selectors reached by increments", checkHelper)

func genStops(t *rapid.T, n int, valid bool) []StopSpec {
	var offs []float32
	if valid {
		offs = gen.Offsets(t, n, "off")
	}
	out := make([]StopSpec, n)
	for i := range out {
		var o float32
		if valid {
			o = offs[i]
		} else {
			o = float32(rapid.IntRange(-8, 130).Draw(t, "o")) / 120
		}
		model := rapid.SampledFrom([]string{"RGBA", "RGBA", "NRGBA", "RGBA64", "Gray", "Alpha16", "CMYK", "Alpha", "Gray16", "NRGBA64", "YCbCr", "Custom"}).Draw(t, "model")
		var v [4]uint16
		switch model {
		case "RGBA":
			c := gen.PremulColor(t, "c")
			v = [4]uint16{uint16(c.R), uint16(c.G), uint16(c.B), uint16(c.A)}
		case "RGBA64":
			a := rapid.Uint16().Draw(t, "a")
			v = [4]uint16{uint16(rapid.IntRange(0, int(a)).Draw(t, "r")), uint16(rapid.IntRange(0, int(a)).Draw(t, "g")), uint16(rapid.IntRange(0, int(a)).Draw(t, "b")), a}
		case "Alpha16", "Gray16":
			v[0] = rapid.Uint16().Draw(t, "a")
		case "NRGBA64":
			for j := range v {
				v[j] = rapid.Uint16().Draw(t, "c16")
			}
		case "Custom":
			a := rapid.Uint16().Draw(t, "ca")
			v = [4]uint16{uint16(rapid.IntRange(0, int(a)).Draw(t, "cr")), uint16(rapid.IntRange(0, int(a)).Draw(t, "cg")), uint16(rapid.IntRange(0, int(a)).Draw(t, "cb")), a}
		default:
			for j := range v {
				v[j] = uint16(rapid.IntRange(0, 255).Draw(t, "c8"))
			}
		}
		out[i] = StopSpec{Offset: ops.F32(o), Model: model, V: v}
	}
	return out
}

func mag(t *rapid.T) float64 {
	return math.Pow(10, rapid.Float64Range(-2, 3).Draw(t, "mag"))
}

// axisAligned turns the vector exactly vertical (q=0), horizontal (q=1) or diagonal (q=2: both
// components of exactly the same magnitude), keeping its length (q<2) and sense.
func axisAligned(x, y float32, q int) (float32, float32) {
	l := float32(math.Hypot(float64(x), float64(y)))
	if q == 2 {
		d := float32(math.Abs(float64(x)))
		if y < 0 {
			return x, -d
		}
		return x, d
	}
	if q == 0 {
		if y < 0 {
			l = -l
		}
		return 0, l
	}
	if x < 0 {
		l = -l
	}
	return l, 0
}

func vec(t *rapid.T, m float64, label string) (float32, float32) {
	for {
		a := rapid.Float64Range(0, 2*math.Pi).Draw(t, label+".ang")
		l := m * rapid.Float64Range(0.1, 1).Draw(t, label+".len")
		return float32(l * math.Cos(a)), float32(l * math.Sin(a))
	}
}

func genCase(t *rapid.T) (Case, []string) {
	var c Case
	var labels []string
	c.Kind = rapid.SampledFrom([]string{"linear", "circular", "elliptical", "gradient"}).Draw(t, "kind")
	c.Spread = uint8(rapid.IntRange(0, 3).Draw(t, "spread"))
	m := mag(t)
	far := 1.0
	if rapid.IntRange(0, 5).Draw(t, "far") == 0 {
		// geometry small against its distance from the origin (an icon detail in a big canvas)
		far = math.Pow(10, rapid.Float64Range(1, 3.6).Draw(t, "farby"))
		labels = append(labels, "geometry-far-from-the-origin-relative-to-its-size")
	}
	pt := func(l string) float32 { return float32(far * rapid.Float64Range(-m, m).Draw(t, l)) }
	switch c.Kind {
	case "linear":
		x1, y1 := pt("x1"), pt("y1")
		dx, dy := vec(t, m, "d")
		if q := rapid.IntRange(0, 7).Draw(t, "axisaligned"); q < 3 {
			dx, dy = axisAligned(dx, dy, q)
		}
		c.F = []ops.F32{ops.F32(x1), ops.F32(y1), ops.F32(x1 + dx), ops.F32(y1 + dy)}
	case "circular":
		rx, ry := vec(t, m, "r")
		if q := rapid.IntRange(0, 7).Draw(t, "axisaligned"); q < 3 {
			rx, ry = axisAligned(rx, ry, q)
		}
		c.F = []ops.F32{ops.F32(pt("cx")), ops.F32(pt("cy")), ops.F32(rx), ops.F32(ry)}
	case "elliptical":
		a1 := rapid.Float64Range(0, 2*math.Pi).Draw(t, "a1")
		da := rapid.Float64Range(0.25, math.Pi-0.25).Draw(t, "da")
		if rapid.Bool().Draw(t, "flip") {
			da = -da
		}
		l1 := m * rapid.Float64Range(0.1, 1).Draw(t, "l1")
		l2 := m * rapid.Float64Range(0.1, 1).Draw(t, "l2")
		c.F = []ops.F32{ops.F32(pt("cx")), ops.F32(pt("cy")), ops.F32(float32(l1 * math.Cos(a1))), ops.F32(float32(l1 * math.Sin(a1))), ops.F32(float32(l2 * math.Cos(a1+da))), ops.F32(float32(l2 * math.Sin(a1+da)))}
		if q := rapid.IntRange(0, 15).Draw(t, "axisaligned"); q < 8 {
			// exactly axis-aligned axes, in either order and with either sign
			r, s2 := float32(l1), float32(l2)
			if q&1 != 0 {
				r = -r
			}
			if q&2 != 0 {
				s2 = -s2
			}
			if q&4 != 0 {
				c.F[2], c.F[3], c.F[4], c.F[5] = 0, ops.F32(r), ops.F32(s2), 0
			} else {
				c.F[2], c.F[3], c.F[4], c.F[5] = ops.F32(r), 0, 0, ops.F32(s2)
			}
			labels = append(labels, "elliptical-axes-exactly-axis-aligned")
		} else if q < 11 {
			// the second axis vector is the exact mirror image of the first in a coordinate axis
			// (an ellipse drawn from its "diagonal" conjugate diameters), or the first turned by
			// exactly a quarter (a circle given as an ellipse), or equal in length to it
			ox, oy := c.F[4], c.F[5]
			switch q {
			case 8:
				c.F[4], c.F[5] = c.F[2], -c.F[3]
			case 9:
				c.F[4], c.F[5] = -c.F[2], c.F[3]
			default:
				c.F[4], c.F[5] = -c.F[3], c.F[2]
			}
			// a mirror image of a nearly axis-aligned vector is nearly parallel to it: keep the
			// geometry non-degenerate (the angle between the axes at least as open as elsewhere)
			rx, ry, sx, sy := float64(c.F[2]), float64(c.F[3]), float64(c.F[4]), float64(c.F[5])
			if sin := math.Abs(rx*sy-sx*ry) / (math.Hypot(rx, ry) * math.Hypot(sx, sy)); !(sin >= 0.24) {
				c.F[4], c.F[5] = ox, oy
				break
			}
			labels = append(labels, "elliptical-second-axis-is-an-exact-mirror-or-quarter-turn-of-the-first")
		}
	default:
		c.Radial = rapid.Bool().Draw(t, "radial")
		mm := gen.SimpleMatrix(t, "m")
		for _, v := range mm {
			c.F = append(c.F, ops.F32(v))
		}
	}
	n := rapid.SampledFrom([]int{0, 1, 2, 2, 3, 3, 4, 5, 8, 20, 57, 58, 59, 60, 255, 256, 257, 300}).Draw(t, "nstops")
	valid := n <= 58 && rapid.IntRange(0, 4).Draw(t, "validstops") != 0
	c.Stops = genStops(t, n, valid)
	c.PriorCSel = uint8(rapid.IntRange(0, 63).Draw(t, "csel"))
	c.PriorNSel = uint8(rapid.IntRange(0, 63).Draw(t, "nsel"))
	if rapid.Bool().Draw(t, "viaincr") {
		c.ViaIncr = rapid.IntRange(1, 150).Draw(t, "nincr")
		labels = append(labels, "selectors-reached-by-increments")
		if c.ViaIncr > int(c.PriorCSel) {
			labels = append(labels, "increments-wrap-past-63")
		}
	}
	c.Dest = rapid.SampledFrom([]string{"renderer", "encoder", "recorder"}).Draw(t, "dest")
	w, h := rapid.IntRange(1, 64).Draw(t, "vw"), rapid.IntRange(1, 64).Draw(t, "vh")
	x0, y0 := rapid.IntRange(-64, 64).Draw(t, "vx"), rapid.IntRange(-64, 64).Draw(t, "vy")
	c.ViewBox = [4]ops.F32{ops.F32(x0), ops.F32(y0), ops.F32(x0 + w), ops.F32(y0 + h)}
	c.Rect = [4]int{rapid.IntRange(0, 9).Draw(t, "rx"), rapid.IntRange(0, 9).Draw(t, "ry"), w << uint(rapid.IntRange(0, 3).Draw(t, "kx")), h << uint(rapid.IntRange(0, 3).Draw(t, "ky"))}
	if c.Dest == "renderer" && rapid.IntRange(0, 2).Draw(t, "retarget") == 0 {
		c.Retarget = &[4]int{rapid.IntRange(0, 9).Draw(t, "rtx"), rapid.IntRange(0, 9).Draw(t, "rty"), w << uint(rapid.IntRange(0, 4).Draw(t, "rtkx")), h << uint(rapid.IntRange(0, 4).Draw(t, "rtky"))}
		labels = append(labels, "renderer-re-targeted-between-two-fills-of-the-same-gradient")
	}
	if rapid.Bool().Draw(t, "filladj") {
		c.FillAdj = uint8(rapid.IntRange(1, 6).Draw(t, "filladj.n"))
		labels = append(labels, "path-filled-from-CREG[CSEL-adj],adj>0")
	}
	if rapid.IntRange(0, 3).Draw(t, "pathtransform") == 0 {
		c.PathTransform = true
		labels = append(labels, "path-data-transform-in-force")
	}
	if rapid.IntRange(0, 4).Draw(t, "errfirst") == 0 {
		c.ErrFirst = true
		labels = append(labels, "a-rejected-helper-call-just-before")
	}
	if rapid.IntRange(0, 3).Draw(t, "jobs") == 0 {
		c.Jobs = 2
		labels = append(labels, "same-helper-call-again-after-Reset")
		if rapid.Bool().Draw(t, "editstop") {
			c.EditStop = true
			labels = append(labels, "same-stop-slice-with-a-colour-edited-in-place-for-the-second-job")
		}
		if rapid.Bool().Draw(t, "switchdest") {
			c.SwitchDest = true
			labels = append(labels, "generator-pointed-at-a-new-destination-for-the-second-job")
		}
	}
	labels = append(labels, "kind="+c.Kind, "dest="+c.Dest, fmt.Sprintf("stops=%s", stopBucket(n)))
	switch {
	case n > 58:
		labels = append(labels, "expect-too-many-stops")
	case (c.PriorCSel-10)&63 < uint8(n):
		labels = append(labels, "expect-csel-in-stop-range")
	case validForRendering(c) && c.Dest != "recorder":
		labels = append(labels, "rendered")
	}
	return c, labels
}

func stopBucket(n int) string {
	switch {
	case n < 2:
		return "0-1"
	case n <= 8:
		return "2-8"
	case n <= 58:
		return "9-58"
	case n < 256:
		return "59-255"
	}
	return "256+"
}

func TestHelpers(t *testing.T) {
	harness.Rapid(t, harness.N(15000, 16*320000), func(t *rapid.T) {
		c, labels := genCase(t)
		subHelper.See(c, true, harness.HashJSON(c), labels...)
		subHelper.Run(t, c)
	})
}

// Every prior selector value 0..63 for both selectors, plain and by wrapping
// increments, with stop counts around every boundary, on all three destinations.
func TestSelectorSweep(t *testing.T) {
	harness.OnlyFirstShard(t)
	st := harness.Counter("selector-sweep", "prior CSEL = NSEL+5 = 0..63 x {plain, 70 incrementing writes} x stop counts {0,1,2,6,7,54,58,59,256,300} x {renderer, encoder, recorder} with a fixed linear gradient")
	n := int64(0)
	for sel := 0; sel < 64; sel++ {
		for _, via := range []int{0, 70} {
			for _, ns := range []int{0, 1, 2, 6, 7, 54, 58, 59, 256, 300} {
				for _, dest := range []string{"renderer", "encoder", "recorder"} {
					c := Case{Kind: "linear", F: []ops.F32{-10, 2, 12, 8}, Spread: 1, PriorCSel: uint8(sel), PriorNSel: uint8((sel + 59) & 63), ViaIncr: via, Dest: dest,
						ViewBox: [4]ops.F32{-32, -32, 32, 32}, Rect: [4]int{0, 0, 64, 64}}
					for i := 0; i < ns; i++ {
						c.Stops = append(c.Stops, StopSpec{Offset: ops.F32(float32(i) / float32(ns)), Model: "RGBA", V: [4]uint16{uint16(i & 0xff), 0, 0, 0xff}})
					}
					n++
					if err := subHelper.Eval(c); err != nil {
						t.Fatalf("sel %d via %d stops %d dest %s: %v", sel, via, ns, dest, err)
					}
				}
			}
		}
	}
	st.AddEnumerated(n, n)
	st.SetExhaustive()
}
