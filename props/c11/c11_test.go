// C11 — the disassembly is a faithful, byte-complete listing of what decodes.
package c11

import (
	"bytes"
	"fmt"
	"os"
	"os/exec"
	"path/filepath"
	"regexp"
	"strconv"
	"strings"
	"syscall"
	"testing"
	"time"

	"github.com/reactivego/ivg/decode"
	"pgregory.net/rapid"

	"verif/internal/corpus"
	"verif/internal/gen"
	"verif/internal/harness"
	"verif/internal/ops"
	"verif/internal/spec"
)

func TestMain(m *testing.M) { harness.Main(m, "C11") }

type Case struct {
	Bytes ops.Hex `json:"bytes"`
	// Concurrent: the listing is also asked for while another goroutine disassembles another graphic.
	Concurrent bool `json:"concurrent,omitempty"`
}

type line struct {
	hex  []byte
	text string
	no   int
}

func parseLines(listing []byte) ([]line, error) {
	if len(listing) > 0 && listing[len(listing)-1] != '\n' {
		return nil, fmt.Errorf("listing does not end with a newline")
	}
	var out []line
	for i, raw := range strings.Split(strings.TrimSuffix(string(listing), "\n"), "\n") {
		if len(raw) < 14 {
			return nil, fmt.Errorf("line %d shorter than the 14-column byte field: %q", i+1, raw)
		}
		field, text := raw[:14], raw[14:]
		var hx []byte
		for j := 0; j+2 <= 14; j += 3 {
			tok := field[j : j+2]
			if tok == "  " {
				if strings.TrimSpace(field[j:]) != "" {
					return nil, fmt.Errorf("line %d: gap in the byte field: %q", i+1, field)
				}
				break
			}
			u, err := strconv.ParseUint(tok, 16, 8)
			if err != nil {
				return nil, fmt.Errorf("line %d: bad byte field %q", i+1, field)
			}
			hx = append(hx, byte(u))
			if j+2 < 14 && field[j+2] != ' ' {
				return nil, fmt.Errorf("line %d: bad byte field %q", i+1, field)
			}
		}
		out = append(out, line{hex: hx, text: text, no: i + 1})
	}
	return out, nil
}

// parseF32 reads a %g / %+g rendering of a float32 back at 32 bits.
func parseF32(s string) (float32, error) {
	s = strings.TrimSpace(s)
	switch strings.TrimLeft(s, "+-") {
	case "NaN":
		return float32(nan()), nil
	}
	f, err := strconv.ParseFloat(s, 32)
	if err != nil {
		if ne, ok := err.(*strconv.NumError); !ok || ne.Err != strconv.ErrRange {
			return 0, err
		}
	}
	return float32(f), nil
}

func nan() float64 { z := 0.0; return z / z }

var (
	reRGBA   = regexp.MustCompile(`^RGBA ([0-9a-f]{2})([0-9a-f]{2})([0-9a-f]{2})([0-9a-f]{2})$`)
	reGrad   = regexp.MustCompile(`^gradient \(NSTOPS=(\d+), CBASE=(\d+), NBASE=(\d+), (linear|radial), (none|pad|reflect|repeat)\)$`)
	rePal    = regexp.MustCompile(`^customPalette\[(\d+)\]$`)
	reCReg   = regexp.MustCompile(`^CREG\[(\d+)\]$`)
	reBlend  = regexp.MustCompile(`^blend \((\d+):(\d+)\) \((.+)\)$`)
	reSetSel = regexp.MustCompile(`^Set (C|N)SEL = (\d+)$`)
	reCRegOp = regexp.MustCompile(`^Set CREG\[CSEL-(\d+)\] to a (\d) byte( \(direct\)| \(indirect\))? color(; CSEL\+\+)?$`)
	reNRegOp = regexp.MustCompile(`^Set NREG\[NSEL-(\d+)\] to a (real|coordinate|zero-to-one) number(; NSEL\+\+)?$`)
	reStart  = regexp.MustCompile(`^Start path, filled with CREG\[CSEL-(\d+)\]; M \(absolute moveTo\)$`)
	reReps   = regexp.MustCompile(`^(.) \((absolute|relative) (\w+( \w+)?)\), (\d+) reps$`)
	reImpl   = regexp.MustCompile(`^(.) \((absolute|relative) (\w+( \w+)?)\), implicit$`)
	reAngle  = regexp.MustCompile(`^(\S+) × 360 degrees \((\S+) degrees\)$`)
	reFlags  = regexp.MustCompile(`^(0x[0-9a-f]+|0) \(largeArc=([01]), sweep=([01])\)$`)
	rePalHdr = regexp.MustCompile(`^(\d+) palette colors, (\d) bytes per color$`)
)

func hex2(s string) uint8 { u, _ := strconv.ParseUint(s, 16, 8); return uint8(u) }
func atoi(s string) int   { n, _ := strconv.Atoi(s); return n }

// colourMatches checks a printed colour against the delivered colour.
func colourMatches(text string, c ops.ColorV) error {
	text = strings.TrimSpace(text)
	switch c.T {
	case 0:
		rgba := c.RGBA()
		if m := reRGBA.FindStringSubmatch(text); m != nil {
			got := [4]uint8{hex2(m[1]), hex2(m[2]), hex2(m[3]), hex2(m[4])}
			if got != [4]uint8{rgba.R, rgba.G, rgba.B, rgba.A} {
				return fmt.Errorf("printed %q, delivered %v", text, c)
			}
			return nil
		}
		if m := reGrad.FindStringSubmatch(text); m != nil {
			if !spec.IsGradient(rgba) {
				return fmt.Errorf("printed a gradient for %v, which is not a gradient", c)
			}
			g := spec.DecodeGradientBits(rgba)
			shape := "linear"
			if g.Radial {
				shape = "radial"
			}
			spread := [4]string{"none", "pad", "reflect", "repeat"}[g.Spread]
			if atoi(m[1]) != int(g.NStops) || atoi(m[2]) != int(g.CBase) || atoi(m[3]) != int(g.NBase) || m[4] != shape || m[5] != spread {
				return fmt.Errorf("printed %q, delivered gradient NSTOPS=%d CBASE=%d NBASE=%d %s %s", text, g.NStops, g.CBase, g.NBase, shape, spread)
			}
			return nil
		}
		if text == "nonsensical color" {
			if spec.Premultiplied(rgba) || spec.IsGradient(rgba) {
				return fmt.Errorf("printed %q for %v, which is a valid colour or gradient", text, c)
			}
			return nil
		}
	case 1:
		if m := rePal.FindStringSubmatch(text); m != nil && atoi(m[1]) == int(c.R) {
			return nil
		}
	case 2:
		if m := reCReg.FindStringSubmatch(text); m != nil && atoi(m[1]) == int(c.R) {
			return nil
		}
	case 3:
		m := reBlend.FindStringSubmatch(text)
		if m == nil {
			break
		}
		if atoi(m[2]) != int(c.R) || atoi(m[1]) != 255-int(c.R) {
			return fmt.Errorf("printed %q, delivered blend t=%d", text, c.R)
		}
		i := strings.Index(m[3], ":")
		if i < 0 {
			break
		}
		if err := colourMatches(m[3][:i], spec.Color1(c.G)); err != nil {
			return fmt.Errorf("blend c0: %v", err)
		}
		if err := colourMatches(m[3][i+1:], spec.Color1(c.B)); err != nil {
			return fmt.Errorf("blend c1: %v", err)
		}
		return nil
	}
	return fmt.Errorf("printed %q does not describe delivered colour %v", text, c)
}

var verbOf = map[string]ops.Kind{
	"L absolute": ops.AbsLineTo, "l relative": ops.RelLineTo,
	"T absolute": ops.AbsSmoothQuadTo, "t relative": ops.RelSmoothQuadTo,
	"Q absolute": ops.AbsQuadTo, "q relative": ops.RelQuadTo,
	"S absolute": ops.AbsSmoothCubeTo, "s relative": ops.RelSmoothCubeTo,
	"C absolute": ops.AbsCubeTo, "c relative": ops.RelCubeTo,
	"A absolute": ops.AbsArcTo, "a relative": ops.RelArcTo,
}

var fixedText = map[string]ops.Kind{
	"z (closePath); end path":            ops.ClosePathEndPath,
	"z (closePath); M (absolute moveTo)": ops.ClosePathAbsMoveTo,
	"z (closePath); m (relative moveTo)": ops.ClosePathRelMoveTo,
	"H (absolute horizontal lineTo)":     ops.AbsHLineTo,
	"h (relative horizontal lineTo)":     ops.RelHLineTo,
	"V (absolute vertical lineTo)":       ops.AbsVLineTo,
	"v (relative vertical lineTo)":       ops.RelVLineTo,
}

type walker struct {
	lines []line
	i     int
}

func (w *walker) operand() (line, error) {
	if w.i >= len(w.lines) {
		return line{}, fmt.Errorf("listing ends where an operand line was expected")
	}
	l := w.lines[w.i]
	if !strings.HasPrefix(l.text, "    ") {
		return line{}, fmt.Errorf("line %d: expected an operand line, got %q", l.no, l.text)
	}
	w.i++
	return l, nil
}

func (w *walker) number(want float32) error {
	l, err := w.operand()
	if err != nil {
		return err
	}
	got, err := parseF32(l.text)
	if err != nil {
		return fmt.Errorf("line %d: cannot read number %q", l.no, l.text)
	}
	if !ops.SameF32(got, want) {
		return fmt.Errorf("line %d: printed %q, delivered %v", l.no, strings.TrimSpace(l.text), ops.F32(want))
	}
	return nil
}

func checkListing(c Case) error {
	src := append([]byte{}, c.Bytes...)
	rec := &ops.Recorder{}
	errDec := decode.Decode(rec, src)
	listing, errDis := decode.Disassemble(src)
	if !bytes.Equal(src, c.Bytes) {
		return harness.Violatef("c11/input-modified", "input modified")
	}
	if errDec != errDis {
		return harness.Violatef("c11/error-differs", "Decode error %v, Disassemble error %v", errDec, errDis)
	}
	if errNil := decode.Decode(nil, src); errNil != errDis {
		return harness.Violatef("c11/error-differs", "Decode without a Destination: error %v, Disassemble error %v", errNil, errDis)
	}
	if errDec != nil {
		if listing != nil {
			return harness.Violatef("c11/listing-on-error", "Disassemble returned a listing together with an error")
		}
		return nil
	}
	// the listing handed out belongs to the caller: a later Disassemble of
	// something else must not change it
	{
		keep := append([]byte{}, listing...)
		other := []byte{0x89, 'I', 'V', 'G', 0x00, 0x05, 0x87, 0x30, 0xc0, 0x80, 0x80, 0x1f}
		for i := 0; i < 32; i++ {
			other = append(other, 0x90+byte(i), 0x70)
		}
		other = append(other, 0xe1)
		decode.Disassemble(other)
		decode.Disassemble(src)
		if !bytes.Equal(keep, listing) {
			return harness.Violatef("c11/listing-changes-later", "the listing returned by Disassemble changed after later Disassemble calls")
		}
		// ... nor does another goroutine that is disassembling something else meanwhile (a tool that
		// lists the files of a directory in parallel) change what this call returns
		if c.Concurrent {
			stop, done := make(chan struct{}), make(chan struct{})
			go func() {
				defer close(done)
				for {
					select {
					case <-stop:
						return
					default:
						decode.Disassemble(other)
					}
				}
			}()
			var bad []byte
			for i := 0; i < 6 && bad == nil; i++ {
				if l2, err := decode.Disassemble(src); err != nil || !bytes.Equal(l2, keep) {
					bad = l2
				}
			}
			close(stop)
			<-done
			if bad != nil {
				return harness.Violatef("c11/listing-differs-beside-another", "Disassemble returns another listing (%d bytes instead of %d) while another goroutine disassembles another graphic", len(bad), len(keep))
			}
		}
	}
	lines, err := parseLines(listing)
	if err != nil {
		return harness.Violatef("c11/format", "%v", err)
	}
	// byte completeness
	var all []byte
	for _, l := range lines {
		all = append(all, l.hex...)
	}
	if !bytes.Equal(all, c.Bytes) {
		return harness.Violatef("c11/bytes", "byte column reproduces %x, input is %x", all, []byte(c.Bytes))
	}
	if len(rec.Ops) == 0 {
		return harness.Violatef("c11/no-reset", "accepted input delivered no calls")
	}
	ref := spec.Parse(c.Bytes)

	// metadata block
	w := &walker{lines: lines}
	reset := rec.Ops[0]
	expectText := func(prefix string) (line, error) {
		if w.i >= len(lines) {
			return line{}, fmt.Errorf("listing ends before %q", prefix)
		}
		l := lines[w.i]
		if !strings.HasPrefix(l.text, prefix) {
			return line{}, fmt.Errorf("line %d: expected %q..., got %q", l.no, prefix, l.text)
		}
		w.i++
		return l, nil
	}
	fail := func(err error) error { return harness.Violatef("c11/metadata-listing", "%v", err) }
	if _, err := expectText("IconVG Magic identifier"); err != nil {
		return fail(err)
	}
	l, err := expectText("Number of metadata chunks: ")
	if err != nil {
		return fail(err)
	}
	nChunks := atoi(strings.TrimPrefix(l.text, "Number of metadata chunks: "))
	if uint32(nChunks) != ref.NChunks {
		return fail(fmt.Errorf("line %d: printed %d chunks, stream has %d", l.no, nChunks, ref.NChunks))
	}
	for k := 0; k < nChunks; k++ {
		if _, err := expectText("Metadata chunk length: "); err != nil {
			return fail(err)
		}
		l, err := expectText("Metadata Identifier: ")
		if err != nil {
			return fail(err)
		}
		var mid int
		fmt.Sscanf(strings.TrimPrefix(l.text, "Metadata Identifier: "), "%d", &mid)
		if k < len(ref.MIDs) && uint32(mid) != ref.MIDs[k] {
			return fail(fmt.Errorf("line %d: printed MID %d, stream has %d", l.no, mid, ref.MIDs[k]))
		}
		switch mid {
		case 0:
			vb := reset.ViewBox()
			for _, v := range []float32{vb.MinX, vb.MinY, vb.MaxX, vb.MaxY} {
				if err := w.number(v); err != nil {
					return fail(err)
				}
			}
		case 1:
			l, err := w.operand()
			if err != nil {
				return fail(err)
			}
			m := rePalHdr.FindStringSubmatch(strings.TrimSpace(l.text))
			if m == nil {
				return fail(fmt.Errorf("line %d: bad palette header %q", l.no, l.text))
			}
			pal := reset.Palette()
			for i := 0; i < atoi(m[1]); i++ {
				l, err := w.operand()
				if err != nil {
					return fail(err)
				}
				if i >= 64 {
					return fail(fmt.Errorf("more than 64 palette lines"))
				}
				if err := colourMatches(l.text, ops.RGBAv(pal[i])); err != nil {
					return fail(fmt.Errorf("line %d: palette entry %d: %v", l.no, i, err))
				}
			}
			for i := atoi(m[1]); i < 64; i++ {
				if pal[i] != spec.Black {
					return fail(fmt.Errorf("palette entry %d delivered as %v but not listed", i, pal[i]))
				}
			}
		default:
			return fail(fmt.Errorf("line %d: unexpected MID %d in an accepted stream", l.no, mid))
		}
	}

	// instruction lines: one per delivered call
	nInstr := 0
	for _, l := range lines[w.i:] {
		if !strings.HasPrefix(l.text, " ") {
			nInstr++
		}
	}
	if nInstr != len(rec.Ops)-1 {
		return harness.Violatef("c11/line-count", "%d instruction lines for %d delivered calls", nInstr, len(rec.Ops)-1)
	}

	// lock-step walk
	bad := func(l line, format string, args ...any) error {
		return harness.Violatef("c11/values", "line %d %q: %s", l.no, l.text, fmt.Sprintf(format, args...))
	}
	oi := 1
	for w.i < len(lines) {
		l := lines[w.i]
		w.i++
		if oi >= len(rec.Ops) {
			return bad(l, "no delivered call left for this line")
		}
		o := rec.Ops[oi]
		text := l.text
		switch {
		case reSetSel.MatchString(text):
			m := reSetSel.FindStringSubmatch(text)
			k := ops.SetCSel
			if m[1] == "N" {
				k = ops.SetNSel
			}
			if o.K != k || int(o.Sel) != atoi(m[2]) {
				return bad(l, "delivered %v", o)
			}
			oi++
		case reCRegOp.MatchString(text):
			m := reCRegOp.FindStringSubmatch(text)
			incr := m[4] != ""
			if o.K != ops.SetCReg || int(o.Adj) != atoi(m[1]) || o.Incr != incr {
				return bad(l, "delivered %v", o)
			}
			wantLen := map[string]int{"1": 1, "2": 2, "3": 3, "4": 4}[m[2]]
			ol, err := w.operand()
			if err != nil {
				return bad(l, "%v", err)
			}
			if len(ol.hex) != wantLen {
				return bad(ol, "announced a %s byte colour, operand line carries %d bytes", m[2], len(ol.hex))
			}
			if (m[3] == " (indirect)") != (o.C.T == 3) {
				return bad(l, "directness does not match delivered colour %v", *o.C)
			}
			if err := colourMatches(ol.text, *o.C); err != nil {
				return bad(ol, "%v", err)
			}
			oi++
		case reNRegOp.MatchString(text):
			m := reNRegOp.FindStringSubmatch(text)
			incr := m[3] != ""
			if o.K != ops.SetNReg || int(o.Adj) != atoi(m[1]) || o.Incr != incr {
				return bad(l, "delivered %v", o)
			}
			if err := w.number(o.Arg(0)); err != nil {
				return bad(l, "%v", err)
			}
			oi++
		case reStart.MatchString(text):
			m := reStart.FindStringSubmatch(text)
			if o.K != ops.StartPath || int(o.Adj) != atoi(m[1]) {
				return bad(l, "delivered %v", o)
			}
			for j := 0; j < 2; j++ {
				if err := w.number(o.Arg(j)); err != nil {
					return bad(l, "%v", err)
				}
			}
			oi++
		case text == "Set LOD":
			if o.K != ops.SetLOD {
				return bad(l, "delivered %v", o)
			}
			for j := 0; j < 2; j++ {
				if err := w.number(o.Arg(j)); err != nil {
					return bad(l, "%v", err)
				}
			}
			oi++
		case reReps.MatchString(text):
			m := reReps.FindStringSubmatch(text)
			k, ok := verbOf[m[1]+" "+m[2]]
			if !ok {
				return bad(l, "unknown verb")
			}
			reps := atoi(m[5])
			base, max := spec.DrawOpcode(k)
			if len(l.hex) != 1 || reps < 1 || reps > max || int(l.hex[0]-base)+1 != reps {
				return bad(l, "repeat count %d does not match opcode %x", reps, l.hex)
			}
			for r := 0; r < reps; r++ {
				if r > 0 {
					if w.i >= len(lines) {
						return bad(l, "listing ends inside a run (%d of %d reps)", r, reps)
					}
					il := lines[w.i]
					w.i++
					mi := reImpl.FindStringSubmatch(il.text)
					if mi == nil || mi[1] != m[1] || mi[2] != m[2] || len(il.hex) != 0 {
						return bad(il, "expected the implicit repeat line of %q", text)
					}
				}
				if oi >= len(rec.Ops) {
					return bad(l, "run longer than the delivered calls")
				}
				o := rec.Ops[oi]
				if o.K != k {
					return bad(l, "rep %d: delivered %v", r, o)
				}
				if k == ops.AbsArcTo || k == ops.RelArcTo {
					if err := w.number(o.Arg(0)); err != nil {
						return bad(l, "rx: %v", err)
					}
					if err := w.number(o.Arg(1)); err != nil {
						return bad(l, "ry: %v", err)
					}
					al, err := w.operand()
					if err != nil {
						return bad(l, "%v", err)
					}
					am := reAngle.FindStringSubmatch(strings.TrimSpace(al.text))
					if am == nil {
						return bad(al, "bad angle line")
					}
					rot, err := parseF32(am[1])
					if err != nil || !ops.SameF32(rot, o.Arg(2)) && !(rot == 0 && o.Arg(2) == 0) {
						return bad(al, "delivered rotation %v", ops.F32(o.Arg(2)))
					}
					fl, err := w.operand()
					if err != nil {
						return bad(l, "%v", err)
					}
					fm := reFlags.FindStringSubmatch(strings.TrimSpace(fl.text))
					if fm == nil {
						return bad(fl, "bad flags line")
					}
					nat, _ := strconv.ParseUint(fm[1], 0, 32)
					u, _ := spec.DecodeNatural(fl.hex)
					if uint32(nat) != u || (fm[2] == "1") != o.LargeArc || (fm[3] == "1") != o.Sweep || (nat&1 != 0) != o.LargeArc || (nat&2 != 0) != o.Sweep {
						return bad(fl, "delivered largeArc=%v sweep=%v, encoded natural %#x", o.LargeArc, o.Sweep, u)
					}
					if err := w.number(o.Arg(3)); err != nil {
						return bad(l, "x: %v", err)
					}
					if err := w.number(o.Arg(4)); err != nil {
						return bad(l, "y: %v", err)
					}
				} else {
					for j := 0; j < k.NArgs(); j++ {
						if err := w.number(o.Arg(j)); err != nil {
							return bad(l, "rep %d operand %d: %v", r, j, err)
						}
					}
				}
				oi++
			}
		default:
			k, ok := fixedText[text]
			if !ok {
				return bad(l, "unrecognised instruction line")
			}
			if o.K != k {
				return bad(l, "delivered %v", o)
			}
			for j := 0; j < k.NArgs(); j++ {
				if err := w.number(o.Arg(j)); err != nil {
					return bad(l, "%v", err)
				}
			}
			oi++
		}
	}
	if oi != len(rec.Ops) {
		return harness.Violatef("c11/values", "listing ends after %d of %d delivered calls", oi-1, len(rec.Ops)-1)
	}
	return nil
}

var subListing = harness.Define("listing", "byte strings given to Decode (with a recording Destination and with none) and Disassemble: same error value; for accepted ones the listing is parsed (14-column byte field + text): bytes concatenate to the input, one instruction line per delivered call, printed values (numbers re-read at 32 bits, colours, selectors, ADJ, repeat counts, arc flags, metadata) equal the delivered values; non-trivial = accepted with at least one instruction", checkListing)

func TestCorpus(t *testing.T) {
	files := corpus.All()
	if !harness.Thorough() {
		files = corpus.Sample(6)
	}
	lo, hi := harness.Range(uint64(len(files)))
	for _, f := range files[lo:hi] {
		c := Case{Bytes: f.Data, Concurrent: true}
		subListing.See(c, true, harness.Hash(f.Data), "corpus", "beside-another-goroutine's-Disassemble")
		if err := subListing.Eval(c); err != nil {
			t.Fatalf("%s: %v", f.Name, err)
		}
	}
}

func TestGeneratedStreams(t *testing.T) {
	harness.Rapid(t, harness.N(10000, 16*60000), func(t *rapid.T) {
		b, want, open := gen.Stream(t, gen.StreamCfg{AllowOpen: true, MaxRun: 40})
		c := Case{Bytes: b}
		labels := []string{"accepted"}
		if rapid.IntRange(0, 7).Draw(t, "concurrent") == 0 {
			c.Concurrent = true
			labels = append(labels, "beside-another-goroutine's-Disassemble")
		}
		if open {
			labels = append(labels, "ends-in-drawing-mode")
		}
		for _, o := range want {
			if o.C != nil && o.C.T == 0 && spec.IsGradient(o.C.RGBA()) {
				labels = append(labels, "gradient-colour")
				break
			}
		}
		for _, o := range want {
			if o.C != nil && o.C.T == 0 && !spec.IsGradient(o.C.RGBA()) && !spec.Premultiplied(o.C.RGBA()) {
				labels = append(labels, "nonsensical-colour")
				break
			}
		}
		for _, o := range want {
			if o.K == ops.AbsArcTo || o.K == ops.RelArcTo {
				labels = append(labels, "arc")
				break
			}
		}
		subListing.See(c, len(want) > 1, harness.Hash(b), labels...)
		subListing.Run(t, c)
	})
}

// Long blocks of the shortest instructions: the listing is then at its largest relative to the
// input (30-50 listing bytes per input byte), whatever Disassemble assumes about its output size.
func TestDenseListings(t *testing.T) {
	harness.Rapid(t, harness.N(1500, 16*12000), func(t *rapid.T) {
		b := []byte{0x89, 'I', 'V', 'G', 0x00}
		n := rapid.SampledFrom([]int{20, 21, 22, 40, 64, 100, 300, 1000}).Draw(t, "n") + rapid.IntRange(0, 9).Draw(t, "nd")
		kind := rapid.IntRange(0, 3).Draw(t, "kind")
		// the incrementing forms have the longest lines ("...; CSEL++"): a block of them only, as a
		// gradient set-up is, gives the densest listing of all
		incr := rapid.Bool().Draw(t, "incr")
		adj := func(l string) byte {
			if incr {
				return 7
			}
			return byte(rapid.IntRange(0, 7).Draw(t, l))
		}
		if incr && kind == 0 {
			kind = 3
		}
		for i := 0; i < n; i++ {
			k := kind
			if kind == 3 {
				k = rapid.IntRange(0, 2).Draw(t, "k")
				if incr && k == 0 {
					k = 1
				}
			}
			switch k {
			case 0: // selector writes, one byte each
				b = append(b, byte(rapid.IntRange(0, 0x7f).Draw(t, "sel")))
			case 1: // colour register <- 1-byte colour
				b = append(b, 0x80+adj("cadj"), rapid.Byte().Draw(t, "col"))
			default: // number register <- 1-byte real, coordinate or zero-to-one
				b = append(b, []byte{0xa8, 0xb0, 0xb8}[rapid.IntRange(0, 2).Draw(t, "form")]+adj("nadj"), byte(rapid.IntRange(0, 119).Draw(t, "num"))<<1)
			}
		}
		b = append(b, 0xc0, 0x80, 0x80, 0xe1)
		c := Case{Bytes: b}
		subListing.See(c, true, harness.Hash(b), "dense-block-of-short-instructions")
		subListing.Run(t, c)
	})
}

func TestRejectedAndMutated(t *testing.T) {
	all := corpus.All()
	harness.Rapid(t, harness.N(10000, 16*60000), func(t *rapid.T) {
		var base, other []byte
		if rapid.Bool().Draw(t, "corpus") {
			base = all[rapid.IntRange(0, len(all)-1).Draw(t, "file")].Data
			other = all[rapid.IntRange(0, len(all)-1).Draw(t, "file2")].Data
		} else {
			base, _, _ = gen.Stream(t, gen.StreamCfg{AllowOpen: true, MaxRun: 20, DefaultMeta: rapid.Bool().Draw(t, "defmeta")})
			other, _, _ = gen.Stream(t, gen.StreamCfg{DefaultMeta: true, MaxRun: 6})
		}
		b := gen.Mutate(t, base, other)
		c := Case{Bytes: b}
		p := spec.Parse(b)
		l := "rejected"
		if p.OK {
			l = "accepted"
		}
		subListing.See(c, p.OK && len(p.Ops) > 1, harness.Hash(b), l, "mutated")
		subListing.Run(t, c)
	})
	for _, b := range gen.Hostile {
		subListing.Run(t, Case{Bytes: b})
	}
}

func FuzzListing(f *testing.F) {
	var seeds [][]byte
	for _, c := range corpus.Sample(16) {
		seeds = append(seeds, c.Data)
	}
	seeds = append(seeds, gen.Hostile...)
	fz := harness.Counter("fuzz-listing", "native coverage-guided fuzzing (go test -fuzz) of the listing oracle, seeded with corpus graphics (thorough tier only)")
	harness.FuzzBytes(f, seeds, func(b []byte) error {
		if len(b) > 4096 {
			return nil
		}
		return subListing.Eval(Case{Bytes: b})
	}, func(b []byte) {
		p := spec.Parse(b)
		fz.Observe(p.OK && len(p.Ops) > 1, harness.Hash(b), nil)
	})
}

// ---------------------------------------------------------------- the disivg command

type ToolCase struct {
	Inputs []ops.Hex `json:"inputs"` // disassembled one after the other into the same -o file
}

func checkTool(c ToolCase) error {
	tool := os.Getenv("VERIF_DISIVG")
	if tool == "" {
		return nil
	}
	dir, err := os.MkdirTemp("", "c11-disivg-")
	if err != nil {
		return err
	}
	defer os.RemoveAll(dir)
	out := filepath.Join(dir, "listing.txt")
	for i, in := range c.Inputs {
		src := filepath.Join(dir, fmt.Sprintf("in%d.ivg", i))
		if err := os.WriteFile(src, in, 0o644); err != nil {
			return err
		}
		want, werr := decode.Disassemble(append([]byte{}, in...))
		before, _ := os.ReadFile(out)
		runErr := exec.Command(tool, "-o", out, src).Run()
		if werr != nil {
			if runErr == nil {
				return harness.Violatef("c11/tool-accepts", "disivg exits 0 for input %d, which Disassemble rejects (%v)", i, werr)
			}
			after, _ := os.ReadFile(out)
			if !bytes.Equal(before, after) {
				return harness.Violatef("c11/tool-output-on-error", "disivg changed the output file although input %d is rejected", i)
			}
			continue
		}
		if runErr != nil {
			return harness.Violatef("c11/tool-fails", "disivg fails (%v) on input %d, which Disassemble accepts", runErr, i)
		}
		got, _ := os.ReadFile(out)
		if !bytes.Equal(got, want) {
			return harness.Violatef("c11/tool-file", "after disassembling input %d into the same -o file, the file holds %d bytes; the listing of that input has %d (first difference at byte %d)", i, len(got), len(want), firstDiffAt(got, want))
		}
		stdout, serr := exec.Command(tool, src).Output()
		if serr != nil || !bytes.Equal(stdout, want) {
			return harness.Violatef("c11/tool-stdout", "disivg to stdout differs from Disassemble for input %d (%v)", i, serr)
		}
		// -o once more with the process's temporary directory on another file system than the
		// output file (where there is one)
		if st, err := os.Stat("/dev/shm"); err == nil && st.IsDir() {
			cmd := exec.Command(tool, "-o", out, src)
			cmd.Env = append(os.Environ(), "TMPDIR=/dev/shm")
			if err := cmd.Run(); err != nil {
				return harness.Violatef("c11/tool-fails", "disivg -o fails (%v) on input %d when TMPDIR is on another file system than the output file", err, i)
			}
			if got, _ := os.ReadFile(out); !bytes.Equal(got, want) {
				return harness.Violatef("c11/tool-file", "disivg -o with TMPDIR on another file system: the file differs from the listing of input %d", i)
			}
		}
		// the same bytes read from a named pipe (the size the file system reports is not the
		// length of the content)
		fifo := src + ".fifo"
		os.Remove(fifo)
		if syscall.Mkfifo(fifo, 0o600) == nil {
			done := make(chan struct{})
			go func() {
				defer close(done)
				if f, err := os.OpenFile(fifo, os.O_WRONLY, 0); err == nil {
					// a producer that delivers the graphic in two pieces with a pause
					half := len(in) / 2
					f.Write(in[:half])
					time.Sleep(30 * time.Millisecond)
					f.Write(in[half:])
					f.Close()
				}
			}()
			cmd := exec.Command(tool, fifo)
			stdout, serr := cmd.Output()
			select {
			case <-done:
			case <-time.After(5 * time.Second):
				// the tool never opened the pipe: unblock the writer
				if f, err := os.OpenFile(fifo, os.O_RDONLY|syscall.O_NONBLOCK, 0); err == nil {
					f.Close()
				}
				<-done
			}
			if serr != nil || !bytes.Equal(stdout, want) {
				return harness.Violatef("c11/tool-stdout", "disivg reading input %d from a named pipe: differs from Disassemble (%v)", i, serr)
			}
			os.Remove(fifo)
		}
		// the same file named by a path that steps back out of a symbolic link to another
		// directory: a/link/../icon is b/icon, not a/icon
		{
			a, b := filepath.Join(dir, "a"), filepath.Join(dir, "b")
			os.MkdirAll(a, 0o755)
			os.MkdirAll(filepath.Join(b, "sub"), 0o755)
			os.WriteFile(filepath.Join(a, "icon.ivg"), []byte{0x89, 'I', 'V', 'G', 0x00, 0x05}, 0o644)
			os.WriteFile(filepath.Join(b, "icon.ivg"), in, 0o644)
			os.Remove(filepath.Join(a, "link"))
			if os.Symlink(filepath.Join(b, "sub"), filepath.Join(a, "link")) == nil {
				stdout, serr := exec.Command(tool, a+"/link/../icon.ivg").Output()
				if serr != nil || !bytes.Equal(stdout, want) {
					return harness.Violatef("c11/tool-stdout", "disivg given a path through a symbolic link and back (a/link/../icon.ivg) for input %d: differs from Disassemble of the file that path names (%v)", i, serr)
				}
			}
		}
		// the same bytes in files whose names hold characters that mean something to a shell, a
		// glob matcher, a format string or a URL parser, each next to decoys such a reading would
		// pick instead: the argument names one file, literally
		{
			od := filepath.Join(dir, "odd")
			os.MkdirAll(od, 0o755)
			decoy := []byte{0x89, 'I', 'V', 'G', 0x00, 0xe1}
			for _, n := range []string{"icon1.ivg", "icon.ivg", "icXYn.ivg", "a.ivg", "b.ivg", "icon%21.ivg", "icon!.ivg", "icon .ivg"} {
				os.WriteFile(filepath.Join(od, n), decoy, 0o644)
			}
			for _, n := range []string{"icon[1].ivg", "ic*n.ivg", "ico?.ivg", "{a,b}.ivg", "icon%21.ivg", "icon%s.ivg", "icon .ivg", "icon\\.ivg", "#icon.ivg", "icon.ivg?x=1", "~icon.ivg", "$HOME.ivg"} {
				f := filepath.Join(od, n)
				if os.WriteFile(f, in, 0o644) != nil {
					continue
				}
				stdout, serr := exec.Command(tool, f).Output()
				if serr != nil || !bytes.Equal(stdout, want) {
					return harness.Violatef("c11/tool-stdout", "disivg given the file name %q (next to decoy files a pattern reading of it would match) for input %d: differs from Disassemble of that file (%v)", n, i, serr)
				}
				os.WriteFile(f, decoy, 0o644) // a decoy itself for the names that follow
			}
		}
		// the same file named through a symbolic link
		link := src + ".link"
		os.Remove(link)
		if os.Symlink(src, link) == nil {
			stdout, serr := exec.Command(tool, link).Output()
			if serr != nil || !bytes.Equal(stdout, want) {
				return harness.Violatef("c11/tool-stdout", "disivg given a symbolic link to input %d: differs from Disassemble (%v)", i, serr)
			}
		}
	}
	return nil
}

func firstDiffAt(a, b []byte) int {
	n := len(a)
	if len(b) < n {
		n = len(b)
	}
	for i := 0; i < n; i++ {
		if a[i] != b[i] {
			return i
		}
	}
	return n
}

var subTool = harness.Define("disivg-tool", "the cmd/disivg command built from the same tree: sequences of 2-4 inputs (generated streams of different lengths, some rejected; also valid graphics of 64 KiB to 200 kB) disassembled one after the other into the same -o file and to stdout; the file and stdout must equal decode.Disassemble of the current input, rejected inputs exit non-zero and leave the file alone; each accepted input also from a named pipe, through symbolic links, and from files whose names hold glob/format/URL characters next to decoy files; non-trivial = a shorter listing follows a longer one", checkTool)

func TestDisivgTool(t *testing.T) {
	if os.Getenv("VERIF_DISIVG") == "" {
		harness.Note("disivg-tool: VERIF_DISIVG not set (run through ./check), sub-check skipped")
		t.Skip()
	}
	harness.OnlyFirstShard(t)
	files := corpus.Testdata()
	harness.Rapid(t, harness.N(12, 60), func(t *rapid.T) {
		var c ToolCase
		n := rapid.IntRange(2, 4).Draw(t, "n")
		for i := 0; i < n; i++ {
			switch rapid.IntRange(0, 3).Draw(t, "src") {
			case 0:
				c.Inputs = append(c.Inputs, files[rapid.IntRange(0, len(files)-1).Draw(t, "file")].Data)
			case 1:
				c.Inputs = append(c.Inputs, []byte{0x89, 'I', 'V', 'G', 0x00})
			case 2:
				b, _, _ := gen.Stream(t, gen.StreamCfg{AllowOpen: true, MaxRun: 20})
				c.Inputs = append(c.Inputs, gen.Mutate(t, b, b))
			default:
				b, _, _ := gen.Stream(t, gen.StreamCfg{AllowOpen: true, MaxRun: 20})
				c.Inputs = append(c.Inputs, b)
			}
		}
		shrinks := false
		for i := 1; i < len(c.Inputs); i++ {
			if len(c.Inputs[i]) < len(c.Inputs[i-1]) {
				shrinks = true
			}
		}
		subTool.See(c, shrinks, harness.HashJSON(c))
		subTool.Run(t, c)
	})
	// graphics far larger than any test file (the tool reads its whole input, however long):
	// valid streams of many small paths, cut at an instruction boundary and inside an operand
	for _, size := range []int{65536 + 4466, 65536 - 1, 200003} {
		b := []byte{0x89, 'I', 'V', 'G', 0x00}
		for i := 0; len(b) < size; i++ {
			b = append(b, 0xc0, 0x80+byte(i&0x3e), 0x70, 0x01, 0x90, 0x80+byte(i>>6&0x3e), 0x60, 0x91, 0xe1)
		}
		whole := ToolCase{Inputs: []ops.Hex{append([]byte{}, b...), {0x89, 'I', 'V', 'G', 0x00}}}
		if err := subTool.Eval(whole); err != nil {
			t.Fatalf("large input (%d bytes): %v", len(b), err)
		}
		subTool.AddEnumerated(1, 1)
	}
}
