// C02 — decoding arbitrary bytes is safe, bounded and never delivers garbage early.
package c02

import (
	"bytes"
	"encoding/json"
	"fmt"
	"image"
	"os"
	"os/exec"
	"path/filepath"
	"runtime/debug"
	"strings"
	"testing"
	"time"

	"github.com/reactivego/ivg/decode"
	"github.com/reactivego/ivg/encode"
	"github.com/reactivego/ivg/render"
	"pgregory.net/rapid"

	"verif/internal/corpus"
	"verif/internal/gen"
	"verif/internal/harness"
	"verif/internal/ops"
	"verif/internal/rast"
	"verif/internal/spec"
)

func TestMain(m *testing.M) { harness.Main(m, "C02") }

type Case struct {
	Bytes ops.Hex `json:"bytes"`
	// AllCuts: check prefix monotonicity at every cut point (else a sample).
	AllCuts bool `json:"all_cuts,omitempty"`
	// Cheap: skip the sampled prefix cuts (used by the mass corruption sweep,
	// which still checks the cut just before and after the corrupted byte).
	Cheap bool `json:"cheap,omitempty"`
	Pos   int  `json:"pos,omitempty"`
}

var paintProbes = []image.Point{{3, 5}, {27, 5}, {50, 5}, {3, 25}, {27, 25}, {50, 44}}

const sentinel = 0xa5

// guarded returns a copy of b inside a larger allocation whose spare capacity
// is filled with a sentinel.
func guarded(b []byte) (s []byte, whole []byte) {
	whole = make([]byte, len(b)+64)
	for i := range whole {
		whole[i] = sentinel
	}
	copy(whole, b)
	return whole[:len(b)], whole
}

func intact(b, whole []byte) bool {
	if !bytes.Equal(whole[:len(b)], b) {
		return false
	}
	for _, x := range whole[len(b):] {
		if x != sentinel {
			return false
		}
	}
	return true
}

func isDecodeError(err error) bool {
	_, ok := err.(decode.DecodeError)
	return ok
}

var wd = harness.NewWatchdog("robust", 20*time.Second)

func decodeOps(b []byte) ([]ops.Op, error) {
	rec := &ops.Recorder{}
	err := decode.Decode(rec, b)
	return rec.Ops, err
}

func checkRobust(c Case) error {
	wd.Enter(c.Bytes)
	defer wd.Leave()
	orig := []byte(c.Bytes)
	s, whole := guarded(orig)
	p := spec.Parse(orig)

	// (i) plain recorder
	rec := &ops.Recorder{}
	errRec := decode.Decode(rec, s)
	if !intact(orig, whole) {
		return harness.Violatef("c02/input-modified", "Decode(recorder) modified its input or wrote past it")
	}

	// (ii) Renderer over the recording rasteriser, with per-call accounting
	// gradient paints are evaluated at a few pixels of the rectangle, first to last row, as a
	// rasteriser would (the paint is ivg code too, and must not panic either)
	rr := &rast.Recorder{Limit: 1, Points: paintProbes}
	var z render.Renderer
	z.SetRasterizer(rr, image.Rect(3, 5, 3+48, 5+40))
	var viol error
	last := 0
	hook := &ops.Recorder{NoRecord: true, Inner: &z}
	hook.After = func(o ops.Op) {
		d := rr.Count - last
		last = rr.Count
		max := 2
		if o.K == ops.AbsArcTo || o.K == ops.RelArcTo {
			max = 4
		}
		if o.K == ops.Reset || o.K.IsStyling() && o.K != ops.StartPath {
			max = 0
		}
		if d > max && viol == nil {
			viol = harness.Violatef("c02/rasteriser-activity", "%v caused %d rasteriser calls (limit %d)", o.K, d, max)
		}
	}
	errRen := decode.Decode(hook, s)
	if viol != nil {
		return viol
	}
	if !intact(orig, whole) {
		return harness.Violatef("c02/input-modified", "Decode(renderer) modified its input or wrote past it")
	}

	// (iii) Encoder
	var enc encode.Encoder
	errEnc := decode.Decode(&enc, s)
	if !intact(orig, whole) {
		return harness.Violatef("c02/input-modified", "Decode(encoder) modified its input or wrote past it")
	}
	_, _ = enc.Bytes()

	// (iii') no Destination at all: validation only
	errNil := decode.Decode(nil, s)
	if !intact(orig, whole) {
		return harness.Violatef("c02/input-modified", "Decode(nil) modified its input or wrote past it")
	}

	// (iv) DecodeViewBox, (v) Disassemble
	_, errVB := decode.DecodeViewBox(s)
	_, errDis := decode.Disassemble(s)
	if !intact(orig, whole) {
		return harness.Violatef("c02/input-modified", "DecodeViewBox/Disassemble modified the input or wrote past it")
	}

	for name, err := range map[string]error{"Decode(recorder)": errRec, "Decode(renderer)": errRen, "Decode(encoder)": errEnc, "Decode(nil)": errNil, "DecodeViewBox": errVB, "Disassemble": errDis} {
		if err != nil && !isDecodeError(err) {
			return harness.Violatef("c02/error-type", "%s returned %T (%v), want a DecodeError", name, err, err)
		}
	}
	if (errRec == nil) != (errRen == nil) || (errRec == nil) != (errEnc == nil) || (errRec == nil) != (errDis == nil) || (errRec == nil) != (errNil == nil) {
		return harness.Violatef("c02/entry-points-disagree", "accept/reject differs: recorder=%v renderer=%v encoder=%v no-destination=%v disassemble=%v", errRec, errRen, errEnc, errNil, errDis)
	}
	metaOK := len(rec.Ops) > 0
	if (errVB == nil) != p.MetaOK {
		return harness.Violatef("c02/metadata-verdict", "DecodeViewBox err=%v, reference metadata valid=%v (%s)", errVB, p.MetaOK, p.Err)
	}
	if !p.MetaOK {
		if metaOK || hook.Count > 0 {
			return harness.Violatef("c02/delivered-before-valid-metadata", "%d calls delivered although magic/metadata are invalid (%s)", len(rec.Ops), p.Err)
		}
		if errRec == nil {
			return harness.Violatef("c02/accepts-invalid-metadata", "Decode accepts invalid metadata (%s)", p.Err)
		}
	} else {
		if len(rec.Ops) == 0 || rec.Ops[0].K != ops.Reset {
			return harness.Violatef("c02/first-call-not-reset", "metadata valid but first call is %v", firstKind(rec.Ops))
		}
		for i, o := range rec.Ops[1:] {
			if o.K == ops.Reset {
				return harness.Violatef("c02/reset-again", "Reset delivered again at call %d", i+1)
			}
		}
		// every delivered call consumed at least one byte of the instruction section
		if len(rec.Ops)-1 > len(orig)-p.InstrStart {
			return harness.Violatef("c02/calls-exceed-bytes", "%d calls from %d instruction bytes", len(rec.Ops)-1, len(orig)-p.InstrStart)
		}
		if hook.Count != len(rec.Ops) {
			return harness.Violatef("c02/entry-points-disagree", "renderer received %d calls, recorder %d", hook.Count, len(rec.Ops))
		}
	}
	if rr.Count > 4*len(rec.Ops) {
		return harness.Violatef("c02/rasteriser-activity", "%d rasteriser calls for %d destination calls", rr.Count, len(rec.Ops))
	}

	// prefix monotonicity
	var cuts []int
	switch {
	case c.AllCuts || len(orig) <= 96 && !c.Cheap:
		for k := 0; k < len(orig); k++ {
			cuts = append(cuts, k)
		}
	case c.Cheap:
		for _, k := range []int{c.Pos, c.Pos + 1, c.Pos + 2, len(orig) - 1} {
			if k >= 0 && k < len(orig) {
				cuts = append(cuts, k)
			}
		}
	default:
		h := harness.Hash(orig)
		for i := 0; i < 24; i++ {
			h = h*6364136223846793005 + 1442695040888963407
			cuts = append(cuts, int((h>>33)%uint64(len(orig))))
		}
	}
	// the same bytes in a buffer the caller keeps for input after input (a reader that sizes its
	// target with DecodeViewBox and then decodes): the same verdict and calls as from a slice of
	// their own, whatever the buffer held before
	if n := len(orig); n <= len(reused) {
		copy(reused[:n], orig)
		_, errVB3 := decode.DecodeViewBox(reused[:n])
		rec3 := &ops.Recorder{}
		err3 := decode.Decode(rec3, reused[:n])
		if (errVB3 == nil) != p.MetaOK {
			return harness.Violatef("c02/reused-buffer", "DecodeViewBox on the same bytes in a buffer that held another input before: err=%v, the metadata is valid=%v", errVB3, p.MetaOK)
		}
		if (err3 == nil) != (errRec == nil) || ops.DiffOps(rec3.Ops, rec.Ops) != "" {
			return harness.Violatef("c02/reused-buffer", "Decode on the same bytes in a buffer that held another input before: err=%v and %d calls; from a slice of their own err=%v and %d calls", err3, len(rec3.Ops), errRec, len(rec.Ops))
		}
	}
	for _, k := range cuts {
		got, _ := decodeOps(orig[:k:k])
		if len(got) > len(rec.Ops) {
			return harness.Violatef("c02/prefix", "prefix of length %d delivers %d calls, the whole input (%d bytes) only %d", k, len(got), len(orig), len(rec.Ops))
		}
		if d := ops.DiffOps(got, rec.Ops[:len(got)]); d != "" {
			return harness.Violatef("c02/prefix", "calls for the prefix of length %d are not a prefix of the calls for the whole input: %s", k, d)
		}
	}
	return nil
}

// reused: one buffer for every input of the process that fits.
var reused [4096]byte

func firstKind(o []ops.Op) string {
	if len(o) == 0 {
		return "nothing"
	}
	return o[0].K.String()
}

var subRobust = harness.Define("robust", "byte strings fed to Decode (into a recorder, a Renderer over a recording rasteriser, an Encoder, and with no Destination), DecodeViewBox and Disassemble: no panic, input and a sentinel behind it untouched, DecodeError only, agreement of the six entry points, nothing delivered before valid metadata, first call Reset, calls <= instruction bytes, <= 4 rasteriser calls per call, prefix monotonicity; non-trivial = the reference gets past the metadata and the input is not a verbatim corpus file", checkRobust)

func classify(b []byte) (bool, []string) {
	p := spec.Parse(b)
	var labels []string
	switch {
	case !p.MetaOK:
		labels = append(labels, "rejected-in-metadata")
	case !p.OK:
		labels = append(labels, fmt.Sprintf("rejected-after-%s-ops", bucket(len(p.Ops)-1)))
	default:
		labels = append(labels, "accepted")
		if p.EndsInDrawing {
			labels = append(labels, "accepted-ends-in-drawing-mode")
		}
	}
	for _, o := range p.Ops {
		nf := false
		for _, f := range o.F {
			if v := float32(f); v != v || v-v != 0 {
				nf = true
			}
		}
		if nf {
			labels = append(labels, "has-non-finite-operand")
			break
		}
	}
	return p.MetaOK, labels
}

func bucket(n int) string {
	switch {
	case n <= 0:
		return "0"
	case n < 10:
		return "1-9"
	case n < 100:
		return "10-99"
	}
	return "100+"
}

// Every truncation point of every corpus file (exhaustive in both tiers).
func TestCorpusTruncations(t *testing.T) {
	files := corpus.All()
	lo, hi := harness.Range(uint64(len(files)))
	st := harness.Counter("truncations", "every truncation point of every corpus file (971 files): calls for each prefix are a prefix of the calls for the file, plus all other invariants on the file itself")
	var n, total int64
	for _, f := range files[lo:hi] {
		c := Case{Bytes: f.Data, AllCuts: true}
		if err := subRobust.Eval(c); err != nil {
			t.Fatalf("%s: %v", f.Name, err)
		}
		n++
		total += int64(len(f.Data))
	}
	st.AddEnumerated(total, total-5*n)
	st.Label("files", n)
	st.SetExhaustive()
	st.AddSample(map[string]any{"file": files[lo].Name, "cuts": len(files[lo].Data)})
}

// Single-byte corruptions of the corpus.
func TestCorpusCorruptions(t *testing.T) {
	files := corpus.All()
	st := harness.Counter("corruptions", "single-byte corruptions of corpus files; quick: 3 values (xor 0x01, xor 0x80, a hash-chosen value) at every position of the testdata graphics and every 8th icon; thorough: all 255 values at every position of every file")
	var n, nt int64
	thorough := harness.Thorough()
	for fi, f := range files {
		if thorough {
			if fi%harness.Shards() != harness.Shard() {
				continue
			}
		} else if fi%8 != 0 && fi >= len(corpus.Testdata()) {
			continue
		}
		buf := append([]byte{}, f.Data...)
		for pos := range buf {
			orig := buf[pos]
			try := func(v byte) {
				if v == orig {
					return
				}
				buf[pos] = v
				c := Case{Bytes: buf, Cheap: true, Pos: pos}
				n++
				if pos >= 5 {
					nt++
				}
				if err := subRobust.Eval(c); err != nil {
					// re-evaluate on a private copy so the saved replay is stable
					c.Bytes = append([]byte{}, buf...)
					subRobust.Eval(c)
					t.Fatalf("%s pos %d value %#x: %v", f.Name, pos, v, err)
				}
			}
			if thorough {
				for v := 0; v < 256; v++ {
					try(byte(v))
				}
			} else {
				h := harness.Hash([]byte(f.Name), []byte{byte(pos), byte(pos >> 8)}, []byte{byte(harness.Seed())})
				try(orig ^ 0x01)
				try(orig ^ 0x80)
				try(byte(h))
			}
			buf[pos] = orig
		}
	}
	st.AddEnumerated(n, nt)
	if thorough {
		st.SetExhaustive()
	}
	st.AddSample(map[string]any{"file": files[0].Name, "pos": 7, "value": "orig^0x01"})
}

func TestGeneratedAndMutated(t *testing.T) {
	all := corpus.All()
	harness.Rapid(t, harness.N(5000, 16*60000), func(t *rapid.T) {
		var b []byte
		switch rapid.IntRange(0, 8).Draw(t, "source") {
		case 6: // generated metadata section (valid or with one defect, any coordinate form) + instruction tail
			b, _ = gen.MetaSection(t)
			tail, _, _ := gen.Instructions(t, gen.StreamCfg{AllowOpen: true, MaxRun: 8})
			b = append(b, tail...)
		case 7, 8: // register-heavy program with gradient blocks (valid or broken stops, bases that wrap), encoded, sometimes mutated
			b = gradientProgram(t)
			if rapid.IntRange(0, 3).Draw(t, "mutategrad") == 0 {
				b = gen.Mutate(t, b, b)
			}
		case 0: // random short strings
			b = rapid.SliceOfN(rapid.Byte(), 0, 24).Draw(t, "random")
		case 1: // random tail behind a valid header
			b = append([]byte{0x89, 'I', 'V', 'G', 0x00}, rapid.SliceOfN(rapid.Byte(), 0, 60).Draw(t, "tail")...)
		case 2: // generated stream, possibly open, unmutated
			b, _, _ = gen.Stream(t, gen.StreamCfg{AllowOpen: true, MaxRun: 40})
		case 3: // mutated corpus file
			f := all[rapid.IntRange(0, len(all)-1).Draw(t, "file")].Data
			g := all[rapid.IntRange(0, len(all)-1).Draw(t, "file2")].Data
			b = gen.Mutate(t, f, g)
		default: // mutated generated stream
			base, _, _ := gen.Stream(t, gen.StreamCfg{AllowOpen: true, MaxRun: 20, DefaultMeta: rapid.Bool().Draw(t, "defmeta")})
			other, _, _ := gen.Stream(t, gen.StreamCfg{DefaultMeta: true, MaxRun: 6})
			b = gen.Mutate(t, base, other)
		}
		c := Case{Bytes: b}
		nt, labels := classify(b)
		subRobust.See(c, nt, harness.Hash(b), labels...)
		subRobust.Run(t, c)
	})
}

func TestHostile(t *testing.T) {
	harness.OnlyFirstShard(t)
	for _, b := range gen.Hostile {
		c := Case{Bytes: b, AllCuts: true}
		nt, labels := classify(b)
		subRobust.See(c, nt, harness.Hash(b), append(labels, "hostile-constant")...)
		subRobust.Run(t, c)
	}
	// long runs of one byte value behind a valid header, both modes
	for v := 0; v < 256; v++ {
		for _, prefix := range [][]byte{{0x89, 'I', 'V', 'G', 0x00}, {0x89, 'I', 'V', 'G', 0x00, 0xc0, 0x80, 0x80}} {
			b := append(append([]byte{}, prefix...), bytes.Repeat([]byte{byte(v)}, 300)...)
			c := Case{Bytes: b}
			nt, labels := classify(b)
			subRobust.See(c, nt, harness.Hash(b), append(labels, "byte-run")...)
			subRobust.Run(t, c)
		}
	}
}

// ---------------------------------------------------------------- very long chains, small stack

// DeepCase: a long uninterrupted chain of one small construct, decoded in a child process whose
// goroutine stacks are limited to 8 MB (a decoder whose stack depth grows with the input dies
// there with an unrecoverable "stack overflow"; in-process that would take the whole check down).
type DeepCase struct {
	Pattern string `json:"pattern"`
	N       int    `json:"n"`
}

func deepInput(c DeepCase) []byte {
	b := []byte{0x89, 'I', 'V', 'G', 0x00}
	rep := func(unit ...byte) {
		for i := 0; i < c.N; i++ {
			b = append(b, unit...)
		}
	}
	switch c.Pattern {
	case "empty-paths":
		rep(0xc0, 0x80, 0x80, 0xe1)
	case "selector-writes":
		rep(0x05, 0x47)
	case "register-writes":
		rep(0x98, 0x7e, 0xa8, 0x04)
	case "lines":
		b = append(b, 0xc0, 0x80, 0x80)
		rep(0x00, 0x90, 0x70)
		b = append(b, 0xe1)
	case "close-and-moves":
		b = append(b, 0xc0, 0x80, 0x80)
		rep(0xe2, 0x90, 0x70, 0x30, 0x84)
		b = append(b, 0xe1)
	case "paths-with-one-line":
		rep(0xc0, 0x80, 0x80, 0x00, 0x90, 0x70, 0xe1)
	}
	return b
}

func checkDeep(c DeepCase) error {
	if os.Getenv("VERIF_C02_CHILD") != "" {
		debug.SetMaxStack(8 << 20)
		return checkRobust(Case{Bytes: deepInput(c), Cheap: true})
	}
	dir, err := os.MkdirTemp("", "c02-deep-")
	if err != nil {
		return err
	}
	defer os.RemoveAll(dir)
	doc, _ := json.Marshal(map[string]interface{}{"sub": "deep-chain", "key": "c02/deep-chain", "case": c})
	file := filepath.Join(dir, "deep.json")
	if err := os.WriteFile(file, doc, 0o644); err != nil {
		return err
	}
	cmd := exec.Command(os.Args[0])
	cmd.Env = append(os.Environ(), "VERIF_REPLAY="+file, "VERIF_C02_CHILD=1", "VERIF_REPLAY_DIR="+dir)
	out, err := cmd.CombinedOutput()
	if err != nil {
		tail := string(out)
		if i := strings.Index(tail, "\ngoroutine "); i > 0 {
			tail = tail[:i]
		}
		if len(tail) > 1500 {
			tail = tail[:1500]
		}
		return harness.Violatef("c02/deep-chain", "decoding a chain of %d %s (%d bytes) in a child process with an 8 MB stack limit failed: %v\n%s", c.N, c.Pattern, len(deepInput(c)), err, tail)
	}
	return nil
}

var subDeep = harness.Define("deep-chain", "uninterrupted chains of 150 000 small constructs (empty paths, one-line paths, selector writes, register writes, line segments, close-and-moves; 0.3-1 MB) through the whole robustness oracle in a child process with goroutine stacks limited to 8 MB: the child must finish normally (stack depth independent of input length)", checkDeep)

func TestDeepChains(t *testing.T) {
	harness.OnlyFirstShard(t)
	if os.Getenv("VERIF_C02_CHILD") != "" {
		t.Skip()
	}
	pats := []string{"empty-paths", "paths-with-one-line", "selector-writes", "register-writes", "lines", "close-and-moves"}
	errs := make([]error, len(pats))
	done := make(chan int)
	for i, p := range pats {
		c := DeepCase{Pattern: p, N: 150000}
		subDeep.See(c, true, harness.HashJSON(c), "pattern="+p)
		go func(i int, c DeepCase) { errs[i] = subDeep.Eval(c); done <- i }(i, c)
	}
	for range pats {
		<-done
	}
	for _, err := range errs {
		if err != nil {
			t.Fatal(err)
		}
	}
}

func FuzzDecode(f *testing.F) {
	var seeds [][]byte
	for _, c := range corpus.Sample(16) {
		seeds = append(seeds, c.Data)
	}
	seeds = append(seeds, gen.Hostile...)
	fz := harness.Counter("fuzz-decode", "native coverage-guided fuzzing (go test -fuzz) of the robustness oracle, seeded with corpus graphics and hostile constants (thorough tier only)")
	harness.FuzzBytes(f, seeds, func(b []byte) error {
		if len(b) > 4096 {
			return nil
		}
		return subRobust.Eval(Case{Bytes: b})
	}, func(b []byte) {
		p := spec.Parse(b)
		fz.Observe(p.MetaOK, harness.Hash(b), nil)
	})
}

// gradientProgram encodes a program whose paths are filled from gradient
// register blocks at arbitrary (wrapping) bases.
func gradientProgram(t *rapid.T) []byte {
	var enc encode.Encoder
	n := rapid.IntRange(1, 3).Draw(t, "gblocks")
	for i := 0; i < n; i++ {
		blk, g := gen.GradientBlock(t, gen.SimpleMatrix, rapid.Bool().Draw(t, "allowbreak"))
		ops.ApplyAll(&enc, blk)
		enc.SetCSel(g.Reg)
		enc.StartPath(0, gen.Grid(t, "gx", 30), gen.Grid(t, "gy", 30))
		enc.AbsLineTo(gen.Grid(t, "gx1", 30), gen.Grid(t, "gy1", 30))
		enc.AbsLineTo(gen.Grid(t, "gx2", 30), gen.Grid(t, "gy2", 30))
		enc.ClosePathEndPath()
	}
	b, _ := enc.Bytes()
	return append([]byte{}, b...)
}
