// C20 — SVG path-data front ends emit the path they were given, transformed.
package c20

import (
	"bytes"
	"fmt"
	"math"
	"os"
	"path/filepath"
	"regexp"
	"strconv"
	"strings"
	"testing"

	"github.com/reactivego/ivg"
	"github.com/reactivego/ivg/decode"
	"github.com/reactivego/ivg/generate"
	"github.com/reactivego/ivg/mdicons"
	"golang.org/x/image/math/f32"
	"pgregory.net/rapid"

	"verif/internal/harness"
	"verif/internal/ops"
)

func TestMain(m *testing.M) { harness.Main(m, "C20") }

const eps32 = 1.0 / (1 << 23)

// Cmd is one path command with its operand groups as decimal strings.
type Cmd struct {
	Verb   string     `json:"verb"`
	Groups [][]string `json:"groups,omitempty"`
}

// Factor is one scale-and-translate transform factor.
type Factor struct {
	Kind string    `json:"kind"` // scale1 scale2 translate
	V    []ops.F32 `json:"v"`
}

type Circle struct {
	Cx, Cy, R ops.F32
}

type Case struct {
	Dialect string `json:"dialect"` // generator converter
	D       string `json:"d"`
	Cmds    []Cmd  `json:"cmds"`
	Adj     uint8  `json:"adj"`
	// generator
	Factors []Factor `json:"factors,omitempty"`
	// SetTransformEmpty: call SetTransform() with no factors (identity) instead of not calling it.
	SetTransformEmpty bool `json:"set_transform_empty,omitempty"`
	// DestAfterTransform: SetDestination is called (again) after SetTransform.
	DestAfterTransform bool `json:"dest_after_transform,omitempty"`
	// CopyRetransform: after SetTransform the Generator is copied and the copy is given another
	// transform (same number of factors) before the original emits its path.
	CopyRetransform bool `json:"copy_retransform,omitempty"`
	// Second: another path given to the same Generator afterwards, under its own transform.
	Second *Case `json:"second,omitempty"`
	// converter
	Size    ops.F32    `json:"size,omitempty"`
	Offset  [2]ops.F32 `json:"offset,omitempty"`
	OutSize ops.F32    `json:"out_size,omitempty"`
}

// exp is an expected operation with per-number tolerances.
type exp struct {
	k        ops.Kind
	adj      uint8
	la, sw   bool
	v, tol   []float64
	hasFlags bool
}

func nargs(verb byte) int {
	switch verb {
	case 'H', 'h', 'V', 'v':
		return 1
	case 'L', 'l', 'M', 'm', 'T', 't':
		return 2
	case 'Q', 'q', 'S', 's':
		return 4
	case 'C', 'c':
		return 6
	case 'A', 'a':
		return 7
	}
	return 0
}

var kindOf = map[byte]ops.Kind{
	'H': ops.AbsHLineTo, 'h': ops.RelHLineTo, 'V': ops.AbsVLineTo, 'v': ops.RelVLineTo,
	'L': ops.AbsLineTo, 'l': ops.RelLineTo, 'T': ops.AbsSmoothQuadTo, 't': ops.RelSmoothQuadTo,
	'Q': ops.AbsQuadTo, 'q': ops.RelQuadTo, 'S': ops.AbsSmoothCubeTo, 's': ops.RelSmoothCubeTo,
	'C': ops.AbsCubeTo, 'c': ops.RelCubeTo, 'A': ops.AbsArcTo, 'a': ops.RelArcTo,
}

// axisMap maps a coordinate on an axis (0 x, 1 y), absolute or relative, and
// returns the value with the magnitude of its terms.
type axisMap func(axis int, v float64, relative bool) (val, terms float64)

// expected interprets the structured path: the first move starts the path,
// later moves close-and-move, operand groups repeat the verb (lines after a
// move), the path is ended exactly once.
func expected(cmds []Cmd, adj uint8, m axisMap, arcRadius func(axis int, v float64) (float64, float64)) ([]exp, error) {
	var out []exp
	started := false
	for _, c := range cmds {
		verb := c.Verb[0]
		if verb == 'z' || verb == 'Z' {
			continue
		}
		n := nargs(verb)
		for gi, g := range c.Groups {
			if len(g) != n {
				return nil, fmt.Errorf("bad group")
			}
			vals := make([]float64, n)
			for i, s := range g {
				f, err := strconv.ParseFloat(s, 64)
				if err != nil {
					return nil, err
				}
				vals[i] = float64(float32(f))
			}
			v := verb
			if gi > 0 {
				if verb == 'M' {
					v = 'L'
				} else if verb == 'm' {
					v = 'l'
				}
			}
			rel := v >= 'a' && v <= 'z'
			e := exp{}
			put := func(axis int, x float64, relative bool) {
				val, terms := m(axis, x, relative)
				e.v = append(e.v, val)
				e.tol = append(e.tol, 4*eps32*(terms+math.Abs(val))+1e-30)
			}
			switch {
			case v == 'M' || v == 'm':
				if !started {
					e.k, e.adj = ops.StartPath, adj
					put(0, vals[0], false) // the first move is absolute whatever its case
					put(1, vals[1], false)
					started = true
				} else {
					e.k = ops.ClosePathAbsMoveTo
					if rel {
						e.k = ops.ClosePathRelMoveTo
					}
					put(0, vals[0], rel)
					put(1, vals[1], rel)
				}
			case v == 'H' || v == 'h':
				e.k = kindOf[v]
				put(0, vals[0], rel)
			case v == 'V' || v == 'v':
				e.k = kindOf[v]
				put(1, vals[0], rel)
			case v == 'A' || v == 'a':
				e.k = kindOf[v]
				for axis := 0; axis < 2; axis++ {
					val, terms := arcRadius(axis, vals[axis])
					e.v = append(e.v, val)
					e.tol = append(e.tol, 4*eps32*(terms+math.Abs(val))+1e-30)
				}
				e.v = append(e.v, vals[2]/360)
				e.tol = append(e.tol, 4*eps32*math.Abs(vals[2]/360)+1e-30)
				e.hasFlags, e.la, e.sw = true, vals[3] != 0, vals[4] != 0
				put(0, vals[5], rel)
				put(1, vals[6], rel)
			default:
				e.k = kindOf[v]
				for i := 0; i < n; i++ {
					put(i&1, vals[i], rel)
				}
			}
			out = append(out, e)
		}
	}
	return out, nil
}

func compare(got []ops.Op, want []exp, what string) error {
	if len(got) != len(want) {
		n := len(got)
		if len(want) < n {
			n = len(want)
		}
		for i := 0; i < n; i++ {
			if got[i].K != want[i].k {
				return harness.Violatef("c20/ops", "%s: op %d is %v, the path spells %v (and %d ops emitted, %d spelled)", what, i, got[i], want[i].k, len(got), len(want))
			}
		}
		return harness.Violatef("c20/op-count", "%s: %d ops emitted, the path spells %d", what, len(got), len(want))
	}
	for i, w := range want {
		g := got[i]
		if g.K != w.k || g.Adj != w.adj || w.hasFlags && (g.LargeArc != w.la || g.Sweep != w.sw) || len(g.F) != len(w.v) {
			return harness.Violatef("c20/ops", "%s: op %d is %v, the path spells %v adj=%d flags=%v,%v", what, i, g, w.k, w.adj, w.la, w.sw)
		}
		for j := range w.v {
			if d := math.Abs(float64(g.F[j]) - w.v[j]); !(d <= w.tol[j]) {
				return harness.Violatef("c20/number", "%s: op %d (%v) operand %d = %v, the transformed path value is %v (tolerance %g)", what, i, g.K, j, g.F[j], w.v[j], w.tol[j])
			}
		}
	}
	return nil
}

func checkPathData(c Case) error {
	rec := &ops.Recorder{}
	switch c.Dialect {
	case "generator":
		var g generate.Generator
		g.SetDestination(rec)
		// reference composition of the factors: x -> x*s + t per axis
		s := [2]float64{1, 1}
		tr := [2]float64{0, 0}
		mag := [2]float64{0, 0}
		var affs []generate.Aff3
		for _, f := range c.Factors {
			v := func(i int) float32 { return float32(f.V[i]) }
			switch f.Kind {
			case "scale1":
				affs = append(affs, generate.Scale(v(0)))
				for a := 0; a < 2; a++ {
					s[a] *= float64(v(0))
					tr[a] *= float64(v(0))
					mag[a] *= math.Abs(float64(v(0)))
				}
			case "scale2":
				affs = append(affs, generate.Scale(v(0), v(1)))
				for a := 0; a < 2; a++ {
					s[a] *= float64(v(a))
					tr[a] *= float64(v(a))
					mag[a] *= math.Abs(float64(v(a)))
				}
			case "translate":
				affs = append(affs, generate.Translate(v(0), v(1)))
				for a := 0; a < 2; a++ {
					tr[a] += float64(v(a))
					mag[a] += math.Abs(float64(v(a)))
				}
			}
		}
		if len(affs) > 0 || c.SetTransformEmpty {
			g.SetTransform(affs...)
			// the caller's list is the caller's: it is reused for something else right away
			for i := range affs {
				affs[i] = generate.Concat(generate.Scale(77, -3), generate.Translate(-1000, 5))
			}
		}
		if c.DestAfterTransform {
			// the destination is (re)assigned after the transform was configured
			g.SetDestination(rec)
		}
		if c.CopyRetransform && len(affs) > 0 {
			// a copy of the Generator (plain assignment) goes its own way with as many other
			// factors; the original keeps the transform it was given
			g2 := g
			g2.SetDestination(&ops.Recorder{})
			other := make([]generate.Aff3, len(affs))
			for i := range other {
				other[i] = generate.Concat(generate.Scale(3, -5), generate.Translate(7, 9))
			}
			g2.SetTransform(other...)
			g2.SetPathData("M1 2L3 4z", 0)
		}
		m := func(axis int, x float64, rel bool) (float64, float64) {
			if rel {
				return x * s[axis], math.Abs(x * s[axis])
			}
			return x*s[axis] + tr[axis], math.Abs(x*s[axis]) + mag[axis] + math.Abs(tr[axis])
		}
		radius := func(axis int, x float64) (float64, float64) { return x * s[axis], math.Abs(x * s[axis]) }
		want, err := expected(c.Cmds, c.Adj, m, radius)
		if err != nil {
			return err
		}
		want = append(want, exp{k: ops.ClosePathEndPath})
		if err := g.SetPathData(c.D, c.Adj); err != nil {
			return harness.Violatef("c20/error", "SetPathData(%q) returned %v for a well-formed path", c.D, err)
		}
		if err := compare(rec.Ops, want, fmt.Sprintf("SetPathData(%q)", c.D)); err != nil {
			return err
		}
		if c.Second != nil {
			// the same Generator, another transform, another path
			first := len(rec.Ops)
			s2, t2, m2, want2, err := generatorExpect(*c.Second)
			if err != nil {
				return err
			}
			_, _, _ = s2, t2, m2
			var affs2 []generate.Aff3
			for _, f := range c.Second.Factors {
				affs2 = append(affs2, f.aff())
			}
			g.SetTransform(affs2...)
			for i := range affs2 {
				affs2[i] = generate.Scale(-9, 13)
			}
			if err := g.SetPathData(c.Second.D, c.Second.Adj); err != nil {
				return harness.Violatef("c20/error", "second SetPathData(%q) returned %v", c.Second.D, err)
			}
			return compare(rec.Ops[first:], want2, fmt.Sprintf("second SetPathData(%q) on the same Generator", c.Second.D))
		}
		return nil
	case "converter":
		size, outSize := float64(float32(c.Size)), float64(float32(c.OutSize))
		off := [2]float64{float64(float32(c.Offset[0])), float64(float32(c.Offset[1]))}
		ratio := float64(float32(c.OutSize) / float32(c.Size))
		_ = size
		m := func(axis int, x float64, rel bool) (float64, float64) {
			if rel {
				return x * ratio, math.Abs(x * ratio)
			}
			return x*ratio - outSize/2 - off[axis], math.Abs(x*ratio) + outSize/2 + math.Abs(off[axis])
		}
		want, err := expected(c.Cmds, c.Adj, m, nil)
		if err != nil {
			return err
		}
		if err := mdicons.ParsePathData(rec, c.D, c.Adj, float32(c.Size), f32.Vec2{float32(c.Offset[0]), float32(c.Offset[1])}, float32(c.OutSize)); err != nil {
			return harness.Violatef("c20/error", "ParsePathData(%q) returned %v for a well-formed path", c.D, err)
		}
		return compare(rec.Ops, want, fmt.Sprintf("ParsePathData(%q)", c.D))
	}
	return fmt.Errorf("bad dialect")
}

// generatorExpect computes the expected ops of a generator-dialect case whose
// transform is set explicitly (possibly with no factors).
func generatorExpect(c Case) (s, tr, mag [2]float64, want []exp, err error) {
	s = [2]float64{1, 1}
	for _, f := range c.Factors {
		v := func(i int) float64 { return float64(float32(f.V[i])) }
		switch f.Kind {
		case "scale1":
			for a := 0; a < 2; a++ {
				s[a] *= v(0)
				tr[a] *= v(0)
				mag[a] *= math.Abs(v(0))
			}
		case "scale2":
			for a := 0; a < 2; a++ {
				s[a] *= v(a)
				tr[a] *= v(a)
				mag[a] *= math.Abs(v(a))
			}
		default:
			for a := 0; a < 2; a++ {
				tr[a] += v(a)
				mag[a] += math.Abs(v(a))
			}
		}
	}
	m := func(axis int, x float64, rel bool) (float64, float64) {
		if rel {
			return x * s[axis], math.Abs(x * s[axis])
		}
		return x*s[axis] + tr[axis], math.Abs(x*s[axis]) + mag[axis] + math.Abs(tr[axis])
	}
	radius := func(axis int, x float64) (float64, float64) { return x * s[axis], math.Abs(x * s[axis]) }
	want, err = expected(c.Cmds, c.Adj, m, radius)
	want = append(want, exp{k: ops.ClosePathEndPath})
	return
}

var subPath = harness.Define("path-data", "grammar-generated SVG path strings in each front end's dialect (every verb, every separator style the dialect allows, implicit repetition, sub-paths joined by z+M/m) x scale-and-translate transforms (generator: 0-3 Scale/Translate factors; converter: size, offset, outSize) x ADJ 0-6: the ops recorded from Generator.SetPathData / mdicons.ParsePathData equal the path's own structure interpreted by the stated rules, numbers within 4*eps32*sum|terms|; non-trivial = has an implicit repetition, a second sub-path or a relative verb under a non-identity transform", checkPathData)

// ---------------------------------------------------------------- generators

func genNumber(t *rapid.T, label string, lim int) string {
	neg := rapid.Bool().Draw(t, label+".neg")
	var s string
	switch rapid.IntRange(0, 3).Draw(t, label+".form") {
	case 0:
		s = strconv.Itoa(rapid.IntRange(0, lim).Draw(t, label+".i"))
	case 1:
		d := rapid.IntRange(1, 4).Draw(t, label+".d")
		s = fmt.Sprintf("%d.%0*d", rapid.IntRange(0, lim-1).Draw(t, label+".i"), d, rapid.IntRange(0, pow10(d)-1).Draw(t, label+".f"))
	case 2:
		d := rapid.IntRange(1, 4).Draw(t, label+".d")
		s = fmt.Sprintf(".%0*d", d, rapid.IntRange(0, pow10(d)-1).Draw(t, label+".f"))
	default:
		s = strconv.Itoa(rapid.IntRange(0, 48).Draw(t, label+".i"))
	}
	if lim >= 1000 && rapid.IntRange(0, 39).Draw(t, label+".long") == 0 {
		// digit strings far longer than any integer type holds: a whole number of 19-30 digits, or
		// a fraction with as many decimals
		n := rapid.IntRange(19, 30).Draw(t, label+".ndigits")
		ds := make([]byte, n)
		for i := range ds {
			ds[i] = byte('0' + rapid.IntRange(0, 9).Draw(t, label+".digit"))
		}
		if ds[0] == '0' {
			ds[0] = '7'
		}
		if rapid.Bool().Draw(t, label+".longfrac") {
			s = "3." + string(ds)
		} else {
			s = string(ds)
		}
	}
	// redundant leading zeros in the integer part are still digits
	if s[0] != '.' && rapid.IntRange(0, 11).Draw(t, label+".lead0") == 0 {
		s = strings.Repeat("0", rapid.IntRange(1, 3).Draw(t, label+".nlead")) + s
	}
	switch {
	case neg:
		return "-" + s
	case rapid.IntRange(0, 9).Draw(t, label+".plus") == 0:
		return "+" + s
	}
	return s
}

func pow10(d int) int {
	p := 1
	for i := 0; i < d; i++ {
		p *= 10
	}
	return p
}

func genCmds(t *rapid.T, arcs bool, firstLower bool, implicitAfterMove bool) ([]Cmd, []string) {
	verbs := "LlHhVvCcSsQqTt"
	if arcs {
		verbs += "AaAa"
	}
	labels := map[string]bool{}
	var cmds []Cmd
	group := func(v byte) []string {
		n := nargs(v)
		g := make([]string, n)
		for i := range g {
			g[i] = genNumber(t, "n", 1000)
		}
		if v == 'A' || v == 'a' {
			g[0] = strings.TrimLeft(genNumber(t, "rx", 100), "+-")
			g[1] = strings.TrimLeft(genNumber(t, "ry", 100), "+-")
			g[2] = genNumber(t, "rot", 360)
			g[3] = strconv.Itoa(rapid.IntRange(0, 1).Draw(t, "fa"))
			g[4] = strconv.Itoa(rapid.IntRange(0, 1).Draw(t, "fs"))
		}
		return g
	}
	move := func(v byte) Cmd {
		c := Cmd{Verb: string(v), Groups: [][]string{group(v)}}
		if implicitAfterMove && rapid.IntRange(0, 3).Draw(t, "mimpl") == 0 {
			k := rapid.IntRange(1, 3).Draw(t, "mimpln")
			for i := 0; i < k; i++ {
				c.Groups = append(c.Groups, group(v))
			}
			labels["implicit-lines-after-move"] = true
		}
		return c
	}
	first := byte('M')
	if firstLower && rapid.Bool().Draw(t, "firstm") {
		first = 'm'
		labels["starts-with-m"] = true
	}
	cmds = append(cmds, move(first))
	nsub := rapid.IntRange(1, 3).Draw(t, "subpaths")
	for s := 0; s < nsub; s++ {
		if s > 0 {
			cmds = append(cmds, Cmd{Verb: "z"})
			mv := byte('M')
			if rapid.Bool().Draw(t, "relmove") {
				mv = 'm'
			}
			cmds = append(cmds, move(mv))
			labels["second-sub-path"] = true
		}
		n := rapid.IntRange(0, 6).Draw(t, "ncmds")
		for i := 0; i < n; i++ {
			v := verbs[rapid.IntRange(0, len(verbs)-1).Draw(t, "verb")]
			c := Cmd{Verb: string(v), Groups: [][]string{group(v)}}
			if rapid.IntRange(0, 2).Draw(t, "impl") == 0 {
				k := rapid.IntRange(1, 3).Draw(t, "impln")
				for j := 0; j < k; j++ {
					c.Groups = append(c.Groups, group(v))
				}
				labels["implicit-repetition"] = true
			}
			if v >= 'a' {
				labels["relative-verb"] = true
			}
			cmds = append(cmds, c)
		}
	}
	var ls []string
	for l := range labels {
		ls = append(ls, l)
	}
	return cmds, ls
}

// render spells the commands as a string in the dialect.
func render(t *rapid.T, cmds []Cmd, dialect string) string {
	var b strings.Builder
	prevHasDot := false
	sep := func(next string) {
		opts := []string{" "}
		if dialect == "generator" {
			opts = append(opts, ",", ", ", " ,", "  ")
		} else {
			opts = append(opts, "  ")
		}
		if next[0] == '-' || next[0] == '+' || next[0] == '.' && prevHasDot {
			opts = append(opts, "", "")
		}
		b.WriteString(rapid.SampledFrom(opts).Draw(t, "sep"))
	}
	for ci, c := range cmds {
		if c.Verb == "z" || c.Verb == "Z" {
			b.WriteString(c.Verb)
			continue
		}
		if ci > 0 && cmds[ci-1].Verb != "z" && rapid.IntRange(0, 2).Draw(t, "spverb") == 0 {
			b.WriteString(" ") // optional space before a verb
		}
		b.WriteString(c.Verb)
		if dialect == "converter" && rapid.IntRange(0, 3).Draw(t, "spafter") == 0 {
			b.WriteString(" ")
		}
		first := true
		for _, g := range c.Groups {
			for _, num := range g {
				if !first {
					sep(num)
				}
				first = false
				b.WriteString(num)
				prevHasDot = strings.Contains(num, ".")
			}
		}
	}
	// terminator
	if dialect == "generator" {
		if rapid.IntRange(0, 3).Draw(t, "spz") == 0 {
			b.WriteString(" ")
		}
		b.WriteString("z")
	} else if rapid.Bool().Draw(t, "trailz") {
		b.WriteString("z")
	}
	return b.String()
}

func genFactors(t *rapid.T) []Factor {
	n := rapid.IntRange(0, 3).Draw(t, "nfactors")
	var out []Factor
	val := func(l string) ops.F32 {
		v := float32(rapid.IntRange(-800, 800).Draw(t, l)) / 100
		if v == 0 {
			v = 2
		}
		return ops.F32(v)
	}
	for i := 0; i < n; i++ {
		switch rapid.IntRange(0, 2).Draw(t, "fkind") {
		case 0:
			out = append(out, Factor{Kind: "scale1", V: []ops.F32{val("s")}})
		case 1:
			out = append(out, Factor{Kind: "scale2", V: []ops.F32{val("sx"), val("sy")}})
		default:
			out = append(out, Factor{Kind: "translate", V: []ops.F32{val("tx") * 10, val("ty") * 10}})
		}
	}
	return out
}

func TestGeneratorDialect(t *testing.T) {
	harness.Rapid(t, harness.N(15000, 16*160000), func(t *rapid.T) {
		cmds, labels := genCmds(t, true, true, true)
		c := Case{Dialect: "generator", Cmds: cmds, Adj: uint8(rapid.IntRange(0, 6).Draw(t, "adj")), Factors: genFactors(t)}
		c.D = render(t, cmds, "generator")
		if len(c.Factors) > 0 {
			labels = append(labels, "transform")
			if rapid.IntRange(0, 3).Draw(t, "destafter") == 0 {
				c.DestAfterTransform = true
				labels = append(labels, "SetDestination-after-SetTransform")
			}
			if rapid.IntRange(0, 3).Draw(t, "copyretransform") == 0 {
				c.CopyRetransform = true
				labels = append(labels, "generator-copied-and-the-copy-retransformed")
			}
		} else if rapid.Bool().Draw(t, "emptytransform") {
			c.SetTransformEmpty = true
			labels = append(labels, "SetTransform-without-factors")
		}
		if rapid.IntRange(0, 3).Draw(t, "second") == 0 {
			cmds2, _ := genCmds(t, true, true, true)
			sc := Case{Dialect: "generator", Cmds: cmds2, Adj: uint8(rapid.IntRange(0, 6).Draw(t, "adj2")), Factors: genFactors(t)}
			sc.D = render(t, cmds2, "generator")
			c.Second = &sc
			labels = append(labels, "second-path-on-the-same-generator")
		}
		subPath.See(c, len(labels) > 0, harness.Hash([]byte(c.D), []byte(fmt.Sprint(c.Factors, c.Adj))), append(labels, "dialect=generator")...)
		subPath.Run(t, c)
	})
}

func TestConverterDialect(t *testing.T) {
	harness.Rapid(t, harness.N(15000, 16*160000), func(t *rapid.T) {
		cmds, labels := genCmds(t, false, false, false)
		c := Case{Dialect: "converter", Cmds: cmds, Adj: uint8(rapid.IntRange(0, 6).Draw(t, "adj"))}
		c.Size = ops.F32(rapid.SampledFrom([]float32{12, 18, 24, 36, 48}).Draw(t, "size"))
		c.OutSize = ops.F32(rapid.SampledFrom([]float32{48, 48, 64, 24, 100}).Draw(t, "out"))
		c.Offset = [2]ops.F32{ops.F32(float32(rapid.IntRange(-48, 48).Draw(t, "ox")) / 2), ops.F32(float32(rapid.IntRange(-48, 48).Draw(t, "oy")) / 2)}
		c.D = render(t, cmds, "converter")
		subPath.See(c, len(labels) > 0, harness.Hash([]byte(c.D), []byte(fmt.Sprint(c.Size, c.OutSize, c.Offset, c.Adj))), append(labels, "dialect=converter")...)
		subPath.Run(t, c)
	})
}

// ---------------------------------------------------------------- Concat is composition

type ConcatCase struct {
	Factors []Factor   `json:"factors"`
	Point   [2]ops.F32 `json:"point"`
}

func (f Factor) aff() generate.Aff3 {
	v := func(i int) float32 { return float32(f.V[i]) }
	switch f.Kind {
	case "scale1":
		return generate.Scale(v(0))
	case "scale2":
		return generate.Scale(v(0), v(1))
	}
	return generate.Translate(v(0), v(1))
}

func checkConcat(c ConcatCase) error {
	var affs []generate.Aff3
	x, y := float64(c.Point[0]), float64(c.Point[1])
	mag := math.Abs(x) + math.Abs(y)
	for _, f := range c.Factors {
		affs = append(affs, f.aff())
		v := func(i int) float64 { return float64(float32(f.V[i])) }
		switch f.Kind {
		case "scale1":
			x, y = x*v(0), y*v(0)
			mag *= math.Abs(v(0))
		case "scale2":
			x, y = x*v(0), y*v(1)
			mag *= math.Max(math.Abs(v(0)), math.Abs(v(1)))
		default:
			x, y = x+v(0), y+v(1)
			mag += math.Abs(v(0)) + math.Abs(v(1))
		}
	}
	gx, gy := generate.MulAff3(float32(c.Point[0]), float32(c.Point[1]), generate.Concat(affs...))
	if math.Abs(float64(gx)-x) > 1e-5*(mag+1) || math.Abs(float64(gy)-y) > 1e-5*(mag+1) {
		return harness.Violatef("c20/concat", "Concat(%v) maps %v to (%v,%v); applying the factors in order gives (%v,%v)", c.Factors, c.Point, gx, gy, x, y)
	}
	return nil
}

var subConcat = harness.Define("concat", "Concat of 0-4 Scale/Translate factors applied to a point equals applying the factors one after the other (1e-5 relative)", checkConcat)

func TestConcat(t *testing.T) {
	harness.Rapid(t, harness.N(5000, 16*80000), func(t *rapid.T) {
		c := ConcatCase{Factors: genFactors(t)}
		if rapid.Bool().Draw(t, "more") {
			c.Factors = append(c.Factors, genFactors(t)...)
		}
		c.Point = [2]ops.F32{ops.F32(float32(rapid.IntRange(-1000, 1000).Draw(t, "x")) / 8), ops.F32(float32(rapid.IntRange(-1000, 1000).Draw(t, "y")) / 8)}
		subConcat.See(c, len(c.Factors) >= 2, harness.HashJSON(c))
		subConcat.Run(t, c)
	})
}

// ---------------------------------------------------------------- converter: opacity, circles, files

type SVGPath struct {
	Cmds        []Cmd    `json:"cmds"`
	D           string   `json:"d"`
	Opacity     *ops.F32 `json:"opacity,omitempty"`
	FillOpacity *ops.F32 `json:"fill_opacity,omitempty"`
}

type FileCase struct {
	Size    int       `json:"size"`
	VBX     ops.F32   `json:"vbx"`
	VBY     ops.F32   `json:"vby"`
	OutSize ops.F32   `json:"out_size"`
	Paths   []SVGPath `json:"paths"`
	Circles []Circle  `json:"circles"`
	ViaFile bool      `json:"via_file"`
	// VBSize (via file): width and height written in the file's viewBox attribute when they are
	// not the size the converter is called with (the transform is configured by the size
	// argument, the viewBox origin and outSize).
	VBSize *[2]int `json:"viewbox_size,omitempty"`
}

func (c FileCase) vbSize() [2]int {
	if c.VBSize != nil {
		return *c.VBSize
	}
	return [2]int{c.Size, c.Size}
}

func (c FileCase) expected() ([]exp, error) {
	size, outSize := float64(c.Size), float64(float32(c.OutSize))
	ratio := float64(float32(c.OutSize) / float32(c.Size))
	off := [2]float64{float64(float32(c.VBX) * float32(c.OutSize) / float32(c.Size)), float64(float32(c.VBY) * float32(c.OutSize) / float32(c.Size))}
	_ = size
	m := func(axis int, x float64, rel bool) (float64, float64) {
		if rel {
			return x * ratio, math.Abs(x * ratio)
		}
		return x*ratio - outSize/2 - off[axis], math.Abs(x*ratio) + outSize/2 + math.Abs(off[axis])
	}
	var out []exp
	adjs := map[float32]uint8{}
	circles := c.Circles
	doPath := func(p SVGPath) error {
		adj := uint8(0)
		op := float32(1)
		if p.Opacity != nil {
			op = float32(*p.Opacity)
		} else if p.FillOpacity != nil {
			op = float32(*p.FillOpacity)
		}
		if op != 1 {
			a, ok := adjs[op]
			if !ok {
				a = uint8(len(adjs) + 1)
				adjs[op] = a
				out = append(out, exp{k: ops.SetCReg, adj: a, v: []float64{float64(uint8(op * 0xff))}})
			}
			adj = a
		}
		started := false
		if len(p.Cmds) > 0 {
			e, err := expected(p.Cmds, adj, m, nil)
			if err != nil {
				return err
			}
			out = append(out, e...)
			started = true
		}
		for _, ci := range circles {
			cx := float64(float32(ci.Cx))*ratio - outSize/2 - off[0]
			cy := float64(float32(ci.Cy))*ratio - outSize/2 - off[1]
			r := float64(float32(ci.R)) * ratio
			tx := 8 * eps32 * (math.Abs(float64(ci.Cx))*ratio + outSize/2 + math.Abs(off[0]) + r)
			ty := 8 * eps32 * (math.Abs(float64(ci.Cy))*ratio + outSize/2 + math.Abs(off[1]))
			k := ops.ClosePathAbsMoveTo
			a := uint8(0)
			if !started {
				k, a, started = ops.StartPath, adj, true
			}
			out = append(out, exp{k: k, adj: a, v: []float64{cx - r, cy}, tol: []float64{tx, ty}})
			tr := 8 * eps32 * r
			out = append(out,
				exp{k: ops.RelArcTo, hasFlags: true, la: false, sw: true, v: []float64{r, r, 0, 2 * r, 0}, tol: []float64{tr, tr, 0, 2 * tr, 0}},
				exp{k: ops.RelArcTo, hasFlags: true, la: false, sw: true, v: []float64{r, r, 0, -2 * r, 0}, tol: []float64{tr, tr, 0, 2 * tr, 0}})
		}
		circles = nil
		out = append(out, exp{k: ops.ClosePathEndPath})
		return nil
	}
	for _, p := range c.Paths {
		if err := doPath(p); err != nil {
			return nil, err
		}
	}
	if len(circles) > 0 {
		if err := doPath(SVGPath{}); err != nil {
			return nil, err
		}
	}
	return out, nil
}

func compareWithBlend(got []ops.Op, want []exp, what string, quantised bool) error {
	// SetCReg entries carry the blend parameter in v[0]
	var g2 []ops.Op
	var w2 []exp
	if len(got) != len(want) {
		return compare(got, want, what)
	}
	for i, w := range want {
		if w.k == ops.SetCReg {
			g := got[i]
			wantC := ops.ColorV{T: 3, R: uint8(w.v[0]), G: 0x7f, B: 0x80}
			if g.K != ops.SetCReg || g.Adj != w.adj || g.Incr || g.C == nil || *g.C != wantC {
				return harness.Violatef("c20/opacity", "%s: op %d is %v, expected SetCReg(adj=%d, blend(%d, transparent, palette[0]))", what, i, g, w.adj, uint8(w.v[0]))
			}
			continue
		}
		if quantised {
			// the file path goes through the low-resolution Encoder: 1/64 grid
			w.tol = append([]float64{}, w.tol...)
			for j := range w.tol {
				w.tol[j] += 1.0/128 + 1e-6
			}
		}
		g2 = append(g2, got[i])
		w2 = append(w2, w)
	}
	return compare(g2, w2, what)
}

var reByte = regexp.MustCompile(`0x[0-9a-f]{2}`)

func checkFile(c FileCase) error {
	want, err := c.expected()
	if err != nil {
		return err
	}
	size := float32(c.Size)
	if !c.ViaFile {
		rec := &ops.Recorder{}
		adjs := map[float32]uint8{}
		offset := f32.Vec2{float32(c.VBX) * float32(c.OutSize) / size, float32(c.VBY) * float32(c.OutSize) / size}
		circles := make([]mdicons.Circle, len(c.Circles))
		for i, ci := range c.Circles {
			circles[i] = mdicons.Circle{Cx: float32(ci.Cx), Cy: float32(ci.Cy), R: float32(ci.R)}
		}
		all := circles
		for _, p := range c.Paths {
			mp := &mdicons.Path{D: p.D}
			if p.Opacity != nil {
				v := float32(*p.Opacity)
				mp.Opacity = &v
			}
			if p.FillOpacity != nil {
				v := float32(*p.FillOpacity)
				mp.FillOpacity = &v
			}
			if err := mdicons.ParsePath(rec, mp, adjs, size, offset, float32(c.OutSize), circles); err != nil {
				return harness.Violatef("c20/error", "ParsePath(%q): %v", p.D, err)
			}
			circles = nil
		}
		if len(circles) > 0 {
			if err := mdicons.ParsePath(rec, &mdicons.Path{}, adjs, size, offset, float32(c.OutSize), circles); err != nil {
				return harness.Violatef("c20/error", "ParsePath(circles): %v", err)
			}
		}
		if err := compareWithBlend(rec.Ops, want, "ParsePath", false); err != nil {
			return err
		}
		// the circle list belongs to the caller: unchanged afterwards, and good for another icon
		for i, ci := range c.Circles {
			if all[i] != (mdicons.Circle{Cx: float32(ci.Cx), Cy: float32(ci.Cy), R: float32(ci.R)}) {
				return harness.Violatef("c20/circles-modified", "ParsePath modified the caller's circle list: circle %d is now %+v", i, all[i])
			}
		}
		return nil
	}
	// through ParseFile: write an SVG file, parse the emitted Go byte literal back
	dir, err := os.MkdirTemp("", "c20-")
	if err != nil {
		return err
	}
	defer os.RemoveAll(dir)
	var svg bytes.Buffer
	fmt.Fprintf(&svg, `<svg xmlns="http://www.w3.org/2000/svg" width="%d" height="%d" viewBox="%v %v %d %d">`+"\n", c.Size, c.Size, float32(c.VBX), float32(c.VBY), c.vbSize()[0], c.vbSize()[1])
	for _, p := range c.Paths {
		fmt.Fprintf(&svg, `<path d="%s"`, p.D)
		if p.Opacity != nil {
			fmt.Fprintf(&svg, ` opacity="%v"`, float32(*p.Opacity))
		}
		if p.FillOpacity != nil {
			fmt.Fprintf(&svg, ` fill-opacity="%v"`, float32(*p.FillOpacity))
		}
		svg.WriteString("/>\n")
	}
	for _, ci := range c.Circles {
		fmt.Fprintf(&svg, `<circle cx="%v" cy="%v" r="%v"/>`+"\n", float32(ci.Cx), float32(ci.Cy), float32(ci.R))
	}
	svg.WriteString("</svg>\n")
	name := filepath.Join(dir, "ic_test_icon_48px.svg")
	if err := os.WriteFile(name, svg.Bytes(), 0o644); err != nil {
		return err
	}
	var out bytes.Buffer
	if _, err := mdicons.ParseFile(name, "action", "test_icon", size, float32(c.OutSize), &out); err != nil {
		return harness.Violatef("c20/error", "ParseFile: %v", err)
	}
	var data []byte
	for _, m := range reByte.FindAllString(out.String(), -1) {
		u, _ := strconv.ParseUint(m, 0, 8)
		data = append(data, byte(u))
	}
	rec := &ops.Recorder{}
	if err := decode.Decode(rec, data); err != nil {
		return harness.Violatef("c20/file-decode", "the bytes emitted by ParseFile do not decode: %v", err)
	}
	if len(rec.Ops) == 0 || rec.Ops[0].ViewBox() != (ivg.ViewBox{MinX: -24, MinY: -24, MaxX: 24, MaxY: 24}) {
		return harness.Violatef("c20/file-viewbox", "ParseFile output has viewBox %v", rec.Ops[0].ViewBox())
	}
	return compareWithBlend(rec.Ops[1:], want, "ParseFile", true)
}

var subFile = harness.Define("converter-paths", "generated lists of converter-dialect paths with opacity / fill-opacity attributes (<= 6 distinct values) and circle lists through mdicons.ParsePath, and through mdicons.ParseFile on generated SVG files (emitted Go byte literal parsed back and decoded): one blend register per distinct opacity, reused afterwards; circles as two half-turn arcs appended to the first path; each path ended once; non-trivial = an opacity is reused, or circles present, or more than one path", checkFile)

func TestConverterPathsAndFiles(t *testing.T) {
	nFile := 0
	harness.Rapid(t, harness.N(4000, 16*40000), func(t *rapid.T) {
		var c FileCase
		c.Size = rapid.SampledFrom([]int{12, 18, 24, 36, 48}).Draw(t, "size")
		c.OutSize = 48
		c.ViaFile = rapid.IntRange(0, 9).Draw(t, "viafile") == 0
		if !c.ViaFile {
			c.OutSize = ops.F32(rapid.SampledFrom([]float32{48, 48, 64, 24}).Draw(t, "out"))
			c.VBX = ops.F32(float32(rapid.IntRange(-12, 12).Draw(t, "vbx")))
			c.VBY = ops.F32(float32(rapid.IntRange(-12, 12).Draw(t, "vby")))
		} else {
			nFile++
			if rapid.Bool().Draw(t, "file.origin") {
				c.VBX = ops.F32(float32(rapid.IntRange(-12, 12).Draw(t, "vbx")))
				c.VBY = ops.F32(float32(rapid.IntRange(-12, 12).Draw(t, "vby")))
			}
			if rapid.IntRange(0, 2).Draw(t, "file.vbsize") == 0 {
				c.VBSize = &[2]int{rapid.SampledFrom([]int{12, 18, 24, 32, 36, 48, 96}).Draw(t, "vbw"), rapid.SampledFrom([]int{12, 18, 24, 32, 36, 48, 96}).Draw(t, "vbh")}
			}
			c.OutSize = ops.F32(rapid.SampledFrom([]float32{48, 48, 64, 24}).Draw(t, "file.out"))
		}
		opacities := []float32{0.5, 0.25, 0.3, 0.54, 0.87, 0.1}
		np := rapid.IntRange(0, 5).Draw(t, "npaths")
		var labels []string
		used := map[float32]int{}
		allSix := rapid.IntRange(0, 7).Draw(t, "allsix") == 0
		if allSix {
			// all six registers taken by six distinct opacities, then opacities that are reused
			np = rapid.IntRange(7, 10).Draw(t, "npaths6")
			labels = append(labels, "six-distinct-opacities-then-reuse")
		}
		for i := 0; i < np; i++ {
			var p SVGPath
			if rapid.IntRange(0, 9).Draw(t, "emptyd") != 0 {
				// keep coordinates inside the icon so that the file path stays in the short-coordinate range
				cmds, _ := genCmdsSmall(t, c.Size)
				p.Cmds = cmds
				p.D = render(t, cmds, "converter")
			}
			okind := rapid.IntRange(0, 3).Draw(t, "opacity")
			if allSix {
				okind = 4
			}
			switch okind {
			case 4:
				v := ops.F32(opacities[i%6])
				if i >= 6 {
					v = ops.F32(rapid.SampledFrom(opacities).Draw(t, "op6"))
				}
				if i%2 == 0 {
					p.Opacity = &v
				} else {
					p.FillOpacity = &v
				}
				used[float32(v)]++
			case 0:
				v := ops.F32(rapid.SampledFrom(opacities).Draw(t, "op"))
				p.Opacity = &v
				used[float32(v)]++
			case 1:
				v := ops.F32(rapid.SampledFrom(opacities).Draw(t, "fop"))
				p.FillOpacity = &v
				if b := rapid.IntRange(0, 4).Draw(t, "both"); b == 0 {
					w := ops.F32(rapid.SampledFrom(opacities).Draw(t, "op2"))
					p.Opacity = &w
					used[float32(w)]++
				} else if b == 1 {
					w := ops.F32(1) // opacity present and exactly 1: it still wins over the fill-opacity
					p.Opacity = &w
					labels = append(labels, "opacity-1-beside-a-fill-opacity")
				} else {
					used[float32(v)]++
				}
			}
			if p.D == "" && c.ViaFile {
				continue // an SVG path without data is skipped by nobody but adds nothing
			}
			c.Paths = append(c.Paths, p)
		}
		for _, n := range used {
			if n > 1 {
				labels = append(labels, "opacity-reused")
				break
			}
		}
		nc := rapid.SampledFrom([]int{0, 0, 1, 2, 3}).Draw(t, "ncircles")
		for i := 0; i < nc; i++ {
			c.Circles = append(c.Circles, Circle{Cx: ops.F32(float32(rapid.IntRange(0, c.Size*2).Draw(t, "cx")) / 2), Cy: ops.F32(float32(rapid.IntRange(0, c.Size*2).Draw(t, "cy")) / 2), R: ops.F32(float32(rapid.IntRange(1, c.Size).Draw(t, "r")) / 2)})
		}
		if nc > 0 {
			labels = append(labels, "circles")
			if len(c.Paths) == 0 {
				labels = append(labels, "circles-without-path")
			}
		}
		if c.ViaFile {
			labels = append(labels, "via-ParseFile")
			if c.VBX != 0 || c.VBY != 0 {
				labels = append(labels, "file-viewbox-with-an-origin")
				if c.VBSize != nil && c.VBSize[0] != c.Size {
					labels = append(labels, "file-viewbox-with-an-origin-and-another-width-than-the-size-argument")
				}
			}
		}
		if len(c.Paths) > 1 {
			labels = append(labels, "several-paths")
		}
		subFile.See(c, len(labels) > 0, harness.HashJSON(c), labels...)
		subFile.Run(t, c)
	})
}

// genCmdsSmall draws a converter-dialect path with coordinates inside 0..size.
func genCmdsSmall(t *rapid.T, size int) ([]Cmd, []string) {
	cmds, labels := genCmds(t, false, false, false)
	for ci := range cmds {
		v := cmds[ci].Verb[0]
		for gi := range cmds[ci].Groups {
			for ni := range cmds[ci].Groups[gi] {
				lim := size
				if v >= 'a' && v <= 'z' {
					lim = size / 4
				}
				s := genNumber(t, "small", lim)
				if !(v >= 'a' && v <= 'z') {
					s = strings.TrimLeft(s, "-")
				}
				cmds[ci].Groups[gi][ni] = s
			}
		}
	}
	return cmds, labels
}
