// C17 — Encoders and Renderers carry no state across Reset; output is deterministic.
package c17

import (
	"bytes"
	"image"
	"image/color"
	"image/draw"
	"testing"

	"github.com/reactivego/ivg"
	"github.com/reactivego/ivg/decode"
	"github.com/reactivego/ivg/encode"
	"github.com/reactivego/ivg/generate"
	"github.com/reactivego/ivg/raster/vec"
	"github.com/reactivego/ivg/render"
	"pgregory.net/rapid"

	"verif/internal/corpus"
	"verif/internal/gen"
	"verif/internal/harness"
	"verif/internal/ops"
	"verif/internal/rast"
	"verif/internal/spec"
)

func TestMain(m *testing.M) { harness.Main(m, "C17") }

type Case struct {
	// Earlier history A: calls (may break the protocol, may end mid-path, may
	// contain Resets) and/or raw bytes to decode first.
	AOps   []ops.Op `json:"a_ops"`
	AHi    bool     `json:"a_hires"`
	ABytes ops.Hex  `json:"a_bytes,omitempty"`
	// Later program B: well formed.
	BViewBox [4]ops.F32  `json:"b_viewbox"`
	BPalette ops.Palette `json:"b_palette"`
	BOps     []ops.Op    `json:"b_ops"`
	// per path: 0 leave HighResolutionCoordinates as it is (after Reset: false), 1 set it, 2 clear it
	BHi  []int  `json:"b_hires"`
	Rect [4]int `json:"rect"`
	// ARect: the rectangle the Renderer was aimed at during A (nil: the same as Rect; may be empty).
	ARect *[4]int `json:"a_rect,omitempty"`
	// NoRearm: the caller arms the rasteriser's one-shot DrawOp (Src) for A only; B is drawn with
	// whatever a consumed one-shot leaves behind (Over), as on a fresh rasteriser.
	NoRearm bool `json:"no_rearm,omitempty"`
}

func (c Case) aRect(rect image.Rectangle) image.Rectangle {
	if c.ARect == nil {
		return rect
	}
	return image.Rect(c.ARect[0], c.ARect[1], c.ARect[0]+c.ARect[2], c.ARect[1]+c.ARect[3])
}

func (c Case) bvb() ivg.ViewBox {
	return ivg.ViewBox{MinX: float32(c.BViewBox[0]), MinY: float32(c.BViewBox[1]), MaxX: float32(c.BViewBox[2]), MaxY: float32(c.BViewBox[3])}
}

func encodeB(e *encode.Encoder, c Case) ([]byte, error) {
	e.Reset(c.bvb(), [64]color.RGBA(c.BPalette))
	path := 0
	for _, o := range c.BOps {
		if o.K == ops.StartPath {
			if path < len(c.BHi) {
				switch c.BHi[path] {
				case 1:
					e.HighResolutionCoordinates = true
				case 2:
					e.HighResolutionCoordinates = false
				}
			}
			path++
		}
		ops.Apply(e, o)
	}
	b, err := e.Bytes()
	return append([]byte{}, b...), err
}

func renderB(d ivg.Destination, c Case) {
	d.Reset(c.bvb(), [64]color.RGBA(c.BPalette))
	ops.ApplyAll(d, c.BOps)
}

func checkReuse(c Case) error {
	rect := image.Rect(c.Rect[0], c.Rect[1], c.Rect[0]+c.Rect[2], c.Rect[1]+c.Rect[3])

	// ---- Encoder
	var fresh encode.Encoder
	want, err := encodeB(&fresh, c)
	if err != nil {
		return harness.Violatef("c17/harness", "B does not encode on a fresh Encoder: %v", err)
	}
	var used encode.Encoder
	used.HighResolutionCoordinates = c.AHi
	ops.ApplyAll(&used, c.AOps)
	{
		// asking twice gives the same answer, also when the answer is an error
		b1, e1 := used.Bytes()
		b1 = append([]byte{}, b1...)
		b2, e2 := used.Bytes()
		if (e1 == nil) != (e2 == nil) || e1 != nil && e1.Error() != e2.Error() || !bytes.Equal(b1, b2) {
			return harness.Violatef("c17/bytes-twice", "Bytes called twice after history A: first %d bytes and error %v, then %d bytes and error %v", len(b1), e1, len(b2), e2)
		}
	}
	got, err := encodeB(&used, c)
	if err != nil {
		return harness.Violatef("c17/encoder-error-survives-reset", "after history A and Reset, encoding B fails: %v", err)
	}
	if !bytes.Equal(got, want) {
		return harness.Violatef("c17/encoder-state-leak", "Encoder reused after history A gives different bytes for B:\n reused %x\n fresh  %x", got, want)
	}
	// ... nor does another, fresh Encoder see anything of what the used one went through
	var later encode.Encoder
	if lb, err := encodeB(&later, c); err != nil || !bytes.Equal(lb, want) {
		return harness.Violatef("c17/encoder-state-leak", "a fresh Encoder used after the reused one gives different bytes for B (%v):\n later %x\n fresh %x", err, lb, want)
	}
	again, err := encodeB(&used, c)
	if err != nil || !bytes.Equal(again, want) {
		return harness.Violatef("c17/encoder-nondeterministic", "encoding B a second time on the same Encoder gives different bytes (%v)", err)
	}
	b1, _ := used.Bytes()
	b1 = append([]byte{}, b1...)
	b2, _ := used.Bytes()
	if !bytes.Equal(b1, b2) || !bytes.Equal(b1, want) {
		return harness.Violatef("c17/bytes-twice", "Bytes called twice returns different bytes")
	}
	// Bytes twice at arbitrary points of the history (also inside a path,
	// with a run still pending) returns equal bytes, and asking does not
	// change what the finished stream decodes to.
	{
		var probe encode.Encoder
		probe.Reset(c.bvb(), [64]color.RGBA(c.BPalette))
		path := 0
		for i, o := range c.BOps {
			if o.K == ops.StartPath {
				if path < len(c.BHi) {
					switch c.BHi[path] {
					case 1:
						probe.HighResolutionCoordinates = true
					case 2:
						probe.HighResolutionCoordinates = false
					}
				}
				path++
			}
			ops.Apply(&probe, o)
			if (i*7+len(c.BOps))%5 == 0 {
				x, e1 := probe.Bytes()
				x = append([]byte{}, x...)
				y, e2 := probe.Bytes()
				if e1 != nil || e2 != nil || !bytes.Equal(x, y) {
					return harness.Violatef("c17/bytes-twice", "after call %d (%v) Bytes called twice returns %d then %d bytes (%v, %v)", i, o.K, len(x), len(y), e1, e2)
				}
			}
		}
		pb, perr := probe.Bytes()
		if perr != nil {
			return harness.Violatef("c17/bytes-twice", "Bytes fails after intermediate Bytes calls: %v", perr)
		}
		r1, r2 := &ops.Recorder{}, &ops.Recorder{}
		e1 := decode.Decode(r1, append([]byte{}, pb...))
		e2 := decode.Decode(r2, want)
		if e1 != nil || e2 != nil {
			return harness.Violatef("c17/bytes-twice", "stream does not decode after intermediate Bytes calls: %v %v", e1, e2)
		}
		if d := ops.DiffOps(r1.Ops, r2.Ops); d != "" {
			return harness.Violatef("c17/bytes-changes-stream", "asking for Bytes in the middle of the history changes what the finished stream decodes to: %s", d)
		}
	}
	// ---- Encoder reused as the Destination of a Decode (a transcoder that keeps its Encoder)
	{
		var usedD, freshD encode.Encoder
		usedD.HighResolutionCoordinates = c.AHi
		ops.ApplyAll(&usedD, c.AOps)
		usedD.HighResolutionCoordinates = false
		eu := decode.Decode(&usedD, append([]byte{}, want...))
		ef := decode.Decode(&freshD, append([]byte{}, want...))
		bu, eub := usedD.Bytes()
		bf, efb := freshD.Bytes()
		if ef != nil || efb != nil {
			return harness.Violatef("c17/harness", "B does not transcode on a fresh Encoder: %v %v", ef, efb)
		}
		if eu != nil || eub != nil {
			return harness.Violatef("c17/encoder-error-survives-reset", "after history A, decoding B into the same Encoder fails: %v %v", eu, eub)
		}
		if !bytes.Equal(bu, bf) {
			return harness.Violatef("c17/encoder-state-leak", "Encoder reused as the destination of a Decode after history A holds different bytes for B:\n reused %x\n fresh  %x", bu, bf)
		}
	}
	var fresh2 encode.Encoder
	if w2, _ := encodeB(&fresh2, c); !bytes.Equal(w2, want) {
		return harness.Violatef("c17/encoder-nondeterministic", "two fresh Encoders give different bytes for the same calls")
	}

	// ---- Renderer driven directly
	rrFresh := &rast.Recorder{}
	var zf render.Renderer
	zf.SetRasterizer(rrFresh, rect)
	renderB(&zf, c)

	rrUsed := &rast.Recorder{}
	var zu render.Renderer
	zu.SetRasterizer(rrUsed, c.aRect(rect))
	zu.Reset(ivg.DefaultViewBox, ivg.DefaultPalette)
	ops.ApplyAll(&zu, c.AOps)
	if c.ARect != nil {
		zu.SetRasterizer(rrUsed, rect)
	}
	mark := len(rrUsed.Calls)
	renderB(&zu, c)
	if d := rast.DiffCalls(rrUsed.Calls[mark:], rrFresh.Calls); d != "" {
		return harness.Violatef("c17/renderer-state-leak", "Renderer reused (driven directly) after history A renders B differently: %s", d)
	}

	// ---- ... and it does not depend on what another Renderer is doing meanwhile: a second
	// Renderer (own rasteriser) has a gradient-filled path of its own open during every path of B
	{
		rrI := &rast.Recorder{}
		var zi render.Renderer
		zi.SetRasterizer(rrI, rect)
		var by render.Renderer
		var byR rast.Recorder
		var g generate.Generator
		by.SetRasterizer(&byR, image.Rect(3, 4, 40, 50))
		g.SetDestination(&by)
		g.Reset(ivg.ViewBox{MinX: 0, MinY: 0, MaxX: 10, MaxY: 10}, ivg.DefaultPalette)
		hook := &ops.Recorder{Inner: &zi, NoRecord: true}
		hook.After = func(o ops.Op) {
			switch o.K {
			case ops.StartPath:
				g.SetLinearGradient(1, 2, 7, 9, generate.GradientSpreadReflect, []generate.GradientStop{
					{Offset: 0.125, Color: color.RGBA{0x12, 0x34, 0x56, 0xff}}, {Offset: 0.375, Color: color.RGBA{0x65, 0x43, 0x21, 0xff}},
					{Offset: 0.625, Color: color.RGBA{0x01, 0x02, 0x03, 0x04}}, {Offset: 0.875, Color: color.RGBA{0xf0, 0xe0, 0xd0, 0xff}}})
				g.StartPath(0, 1, 1)
				g.AbsLineTo(5, 1)
				g.AbsLineTo(5, 5)
			case ops.ClosePathEndPath:
				g.ClosePathEndPath()
			}
		}
		renderB(hook, c)
		if d := rast.DiffCalls(rrI.Calls, rrFresh.Calls); d != "" {
			return harness.Violatef("c17/renderer-depends-on-another", "a Renderer renders B differently while another Renderer has a path open: %s", d)
		}
	}

	// ---- Renderer reused through Decode
	aBytes := []byte(c.ABytes)
	if len(aBytes) == 0 {
		var ea encode.Encoder
		ea.HighResolutionCoordinates = c.AHi
		ops.ApplyAll(&ea, c.AOps)
		if b, err := ea.Bytes(); err == nil {
			aBytes = append([]byte{}, b...)
		}
	}
	rrD := &rast.Recorder{}
	var zd render.Renderer
	zd.SetRasterizer(rrD, c.aRect(rect))
	decode.Decode(&zd, aBytes) // may fail half-way: that is the point
	drawsInA := 0
	for _, k := range rrD.Calls {
		if k.K == rast.Draw {
			drawsInA++
		}
	}
	if c.ARect != nil {
		zd.SetRasterizer(rrD, rect)
	}
	mark = len(rrD.Calls)
	if err := decode.Decode(&zd, want); err != nil {
		return harness.Violatef("c17/harness", "decode of B failed: %v", err)
	}
	rrD2 := &rast.Recorder{}
	var zd2 render.Renderer
	zd2.SetRasterizer(rrD2, rect)
	if err := decode.Decode(&zd2, want); err != nil {
		return harness.Violatef("c17/harness", "decode of B failed: %v", err)
	}
	if d := rast.DiffCalls(rrD.Calls[mark:], rrD2.Calls); d != "" {
		return harness.Violatef("c17/renderer-state-leak", "Renderer reused for a second Decode renders B differently: %s", d)
	}

	// ---- pixels with the bundled rasteriser
	if !logModerate(rrD.Calls) {
		pixelSkippedHuge++
		return nil
	}
	return pixelPart(c, rect, aBytes, want, drawsInA)
}

var pixelSkippedHuge int64

// logModerate: every coordinate that reached the recording rasteriser is
// within +-20000 px (x/image/vector's cost grows with the covered area).
func logModerate(calls []rast.Call) bool {
	for _, cl := range calls {
		for _, v := range cl.F {
			if v != v || v > 20000 || v < -20000 {
				return false
			}
		}
	}
	return true
}

var vectorPanics int64

// pixelPart compares pixels. golang.org/x/image/vector itself panics or takes
// very long on astronomically large coordinates (which arcs with tiny radii
// produce from moderate operands); that is outside ivg, the same decodes ran
// above against the recording rasteriser without panicking, so such cases
// are skipped and counted.
func pixelPart(c Case, rect image.Rectangle, aBytes, want []byte, drawsInA int) (err error) {
	defer func() {
		if r := recover(); r != nil {
			vectorPanics++
			err = nil
		}
	}()
	if c.Rect[2] <= 96 && c.Rect[3] <= 96 {
		bounds := image.Rect(0, 0, c.Rect[0]+c.Rect[2]+3, c.Rect[1]+c.Rect[3]+3)
		bg := image.NewUniform(color.RGBA{0x20, 0x40, 0x60, 0x80})
		imgU := image.NewRGBA(bounds)
		draw.Draw(imgU, bounds, bg, image.Point{}, draw.Src)
		vu := vec.NewRasterizer(imgU)
		var zpu render.Renderer
		zpu.SetRasterizer(vu, c.aRect(rect))
		// without re-arming, what B is drawn with is what A's first Draw left behind: when A
		// draws nothing the one-shot is still armed, which says nothing about reuse
		noRearm := c.NoRearm && drawsInA > 0
		vu.DrawOp = draw.Src
		decode.Decode(&zpu, aBytes)
		draw.Draw(imgU, bounds, bg, image.Point{}, draw.Src)
		if c.ARect != nil {
			zpu.SetRasterizer(vu, rect)
		}
		if !noRearm {
			vu.DrawOp = draw.Src // re-arm the documented one-shot field, as a caller must
		}
		decode.Decode(&zpu, want)

		imgF := image.NewRGBA(bounds)
		draw.Draw(imgF, bounds, bg, image.Point{}, draw.Src)
		vf := vec.NewRasterizer(imgF)
		var zpf render.Renderer
		zpf.SetRasterizer(vf, rect)
		if !noRearm {
			vf.DrawOp = draw.Src
		}
		decode.Decode(&zpf, want)
		if !bytes.Equal(imgU.Pix, imgF.Pix) {
			return harness.Violatef("c17/pixels-differ", "Renderer and rasteriser reused for a second Decode give different pixels for B")
		}
	}
	return nil
}

var subReuse = harness.Define("reuse", "pairs (earlier history A, later well-formed program B): A = well-formed, protocol-breaking, or cut mid-path/mid-run histories with high-resolution on and registers, selectors, LOD and smooth-curve state dirtied (also raw mutated streams that fail half-way); B relies on defaults (unwritten CREG/NREG, no selector writes, default LOD, smooth first op). Encoder after A+Reset == fresh (bytes; also when B arrives through Decode, and when B has no instructions at all), encoding twice and Bytes twice equal; Renderer (driven directly, reused through Decode; A drawn into the same, another or an empty rectangle; one-shot draw operator re-armed or armed for A only) == fresh (rasteriser log incl. paints, and pixels with raster/vec); non-trivial = A leaves dirty state (open path, error, LOD, or all registers written)", checkReuse)

func moderate(t *rapid.T, l string) float32 { return gen.Moderate(t, l, 40) }

func genA(t *rapid.T) ([]ops.Op, []string) {
	var a []ops.Op
	var labels []string
	if rapid.IntRange(0, 3).Draw(t, "dirtyall") != 0 {
		labels = append(labels, "A-writes-all-registers")
		a = append(a, ops.OpSetCSel(0), ops.OpSetNSel(uint8(rapid.IntRange(0, 63).Draw(t, "nbase"))))
		for i := 0; i < 64; i++ {
			a = append(a, ops.OpSetCReg(0, true, ops.RGBAv(gen.PremulColor(t, "ac"))))
			// increasing offsets: a gradient reading stale NREGs would be valid
			a = append(a, ops.OpSetNReg(0, true, float32(i)/64))
		}
		a = append(a, ops.OpSetCSel(gen.Sel(t, "acsel")), ops.OpSetNSel(gen.Sel(t, "ansel")))
	}
	if rapid.Bool().Draw(t, "lod") {
		labels = append(labels, "A-sets-LOD")
		a = append(a, ops.OpSetLOD(float32(rapid.SampledFrom([]int{0, 200, 1000}).Draw(t, "l0")), float32(rapid.SampledFrom([]int{1, 2000}).Draw(t, "l1"))))
	}
	if rapid.Bool().Draw(t, "agrad") {
		labels = append(labels, "A-paints-a-gradient")
		blk, gs := gen.GradientBlock(t, gen.SimpleMatrix, false)
		a = append(a, blk...)
		a = append(a, ops.OpSetCSel(gs.Reg), ops.OpSetLOD(0, 5000), ops.OpStartPath(0, 1, 1), ops.OpDraw(ops.AbsLineTo, 5, 5), ops.OpDraw(ops.AbsLineTo, 1, 9), ops.OpDraw(ops.ClosePathEndPath))
	}
	open := rapid.Bool().Draw(t, "open")
	a = append(a, gen.Program(t, gen.ProgCfg{Num: moderate, OpenEnd: open, MaxRun: 40, AlwaysPath: open})...)
	if open {
		labels = append(labels, "A-ends-mid-path")
		if rapid.Bool().Draw(t, "smooth") {
			a = append(a, ops.OpDraw(ops.AbsQuadTo, 1, 2, 3, 4), ops.OpDraw(ops.AbsCubeTo, 1, 2, 3, 4, 5, 6))
		}
	}
	if rapid.IntRange(0, 2).Draw(t, "violate") == 0 {
		labels = append(labels, "A-breaks-protocol")
		switch rapid.IntRange(0, 3).Draw(t, "which") {
		case 0:
			a = append(a, ops.OpSetCReg(9, false, ops.ColorV{T: 1}))
		case 1:
			a = append(a, ops.OpSetNReg(2, true, 1))
		case 2:
			a = append(a, ops.OpDraw(ops.ClosePathEndPath), ops.OpDraw(ops.AbsLineTo, 1, 1))
		default:
			a = append(a, ops.OpStartPath(0, 0, 0), ops.OpSetCSel(1))
		}
	}
	if rapid.IntRange(0, 4).Draw(t, "midreset") == 0 {
		labels = append(labels, "A-contains-Reset")
		k := rapid.IntRange(0, len(a)).Draw(t, "resetat")
		r := ops.OpReset(ivg.ViewBox{MinX: 0, MinY: 0, MaxX: 10, MaxY: 10}, ivg.DefaultPalette)
		a = append(a[:k], append([]ops.Op{r}, a[k:]...)...)
	}
	return a, labels
}

func genB(t *rapid.T) ([]ops.Op, []int) {
	var b []ops.Op
	path := func(first ops.Op) {
		b = append(b, ops.OpStartPath(gen.Adj(t, "badj"), moderate(t, "bx"), moderate(t, "by")), first)
		n := rapid.IntRange(0, 4).Draw(t, "bn")
		for i := 0; i < n; i++ {
			b = append(b, gen.DrawOp(t, rapid.SampledFrom(gen.DrawVerbs).Draw(t, "bverb"), moderate, "bd"))
		}
		b = append(b, ops.OpDraw(ops.ClosePathEndPath))
	}
	// a gradient value that names one stop, or none (never a paint; the Renderer's gradient object
	// may still hold the ranges of an earlier graphic): before B's own first gradient
	if rapid.Bool().Draw(t, "bfew") {
		g1 := spec.EncodeGradientBits(spec.GradientBits{NStops: uint8(rapid.IntRange(0, 1).Draw(t, "g1n")), CBase: gen.Sel(t, "g1cb"), NBase: gen.Sel(t, "g1nb"), Spread: uint8(rapid.IntRange(0, 3).Draw(t, "g1s")), Radial: rapid.Bool().Draw(t, "g1r")})
		b = append(b, ops.OpSetCReg(0, false, ops.RGBAv(g1)))
		path(ops.OpDraw(ops.AbsLineTo, moderate(t, "g1x"), moderate(t, "g1y")))
		b = append(b, ops.OpSetCReg(0, false, ops.ColorV{T: 1, R: 0})) // CREG[0] as it was
	}
	// relies on CSEL = NSEL = 0 after Reset: a gradient written with
	// incrementing writes only (matrix in NREG[0..5], offsets in NREG[6..8],
	// colours in CREG[0..2], the gradient value in CREG[3])
	b = append(b, ops.OpSetNReg(0, true, 1.0/64))
	for i := 0; i < 5; i++ {
		b = append(b, ops.OpSetNReg(0, true, 0))
	}
	b = append(b, ops.OpSetNReg(0, true, 0), ops.OpSetNReg(0, true, 0.5), ops.OpSetNReg(0, true, 1))
	for i := 0; i < 3; i++ {
		b = append(b, ops.OpSetCReg(0, true, ops.RGBAv(gen.RGBAOfClass(t, "dc", gen.RGBAOpaque))))
	}
	b = append(b, ops.OpSetCReg(0, false, ops.RGBAv(spec.EncodeGradientBits(spec.GradientBits{NStops: 3, CBase: 0, NBase: 6, Spread: 1}))))
	b = append(b, ops.OpStartPath(0, -20, -20), ops.OpDraw(ops.AbsLineTo, 20, -20), ops.OpDraw(ops.AbsLineTo, 20, 20), ops.OpDraw(ops.ClosePathEndPath))
	// relies on defaults: unwritten CREG, smooth first op
	path(ops.OpDraw(ops.AbsSmoothQuadTo, moderate(t, "tx"), moderate(t, "ty")))
	path(ops.OpDraw(ops.RelSmoothCubeTo, 1, 2, moderate(t, "sx"), moderate(t, "sy")))
	// a gradient whose stops and matrix are whatever the registers hold
	g := spec.EncodeGradientBits(spec.GradientBits{NStops: uint8(rapid.IntRange(2, 5).Draw(t, "gn")), CBase: gen.Sel(t, "gcb"), NBase: gen.Sel(t, "gnb"), Spread: 1})
	b = append(b, ops.OpSetCReg(0, false, ops.RGBAv(g)))
	path(ops.OpDraw(ops.AbsLineTo, moderate(t, "lx"), moderate(t, "ly")))
	// a valid gradient set up from scratch (the Renderer's gradient object is reused between paths)
	if rapid.Bool().Draw(t, "bgrad") {
		blk, gs := gen.GradientBlock(t, gen.SimpleMatrix, false)
		b = append(b, blk...)
		b = append(b, ops.OpSetCSel(gs.Reg))
		path(ops.OpDraw(ops.AbsLineTo, moderate(t, "glx"), moderate(t, "gly")))
	}
	// then anything well formed
	b = append(b, gen.Program(t, gen.ProgCfg{Num: moderate, MaxRun: 20, MaxBlocks: 3})...)
	var hi []int
	for _, o := range b {
		if o.K == ops.StartPath {
			hi = append(hi, rapid.SampledFrom([]int{0, 0, 0, 1, 2}).Draw(t, "bhi"))
		}
	}
	return b, hi
}

func TestReuse(t *testing.T) {
	files := corpus.Testdata()
	harness.Rapid(t, harness.N(5000, 16*75000), func(t *rapid.T) {
		var c Case
		var labels []string
		c.AOps, labels = genA(t)
		c.AHi = rapid.Bool().Draw(t, "ahi")
		if c.AHi {
			labels = append(labels, "A-high-resolution")
		}
		if rapid.IntRange(0, 3).Draw(t, "abytes") == 0 {
			base := files[rapid.IntRange(0, len(files)-1).Draw(t, "file")].Data
			other, _, _ := gen.Stream(t, gen.StreamCfg{AllowOpen: true, MaxRun: 20})
			c.ABytes = gen.Mutate(t, base, other)
			labels = append(labels, "A-raw-mutated-stream")
		}
		c.BViewBox = [4]ops.F32{-32, -32, 32, 32}
		if rapid.IntRange(0, 9).Draw(t, "bvbflat") == 0 {
			// a legal viewBox without height: whatever a Renderer makes of it, it makes the same
			// of it after any history (pixels are not compared: the coordinates are not finite)
			c.BViewBox = [4]ops.F32{-32, 5, 32, 5}
			labels = append(labels, "B-has-a-viewbox-of-zero-height")
		} else if rapid.Bool().Draw(t, "bvb") {
			c.BViewBox = [4]ops.F32{-20, -10, 44, 30}
		}
		c.BPalette = ops.DefaultPalette()
		if rapid.Bool().Draw(t, "bpal") {
			c.BPalette = gen.Palette(t, "bpal", true)
		}
		if rapid.IntRange(0, 9).Draw(t, "bzero") == 0 {
			// B's metadata is the zero value of its types (a viewBox that is one point, 64
			// transparent entries): legal, and what a never-Reset object holds in its fields
			c.BViewBox = [4]ops.F32{}
			c.BPalette = ops.Palette{}
			labels = append(labels, "B-metadata-is-the-zero-value")
			if rapid.Bool().Draw(t, "bzero.noreset") {
				// ... after a history without any Reset
				var a []ops.Op
				for _, o := range c.AOps {
					if o.K != ops.Reset {
						a = append(a, o)
					}
				}
				c.AOps = a
			}
		}
		c.BOps, c.BHi = genB(t)
		switch rapid.IntRange(0, 11).Draw(t, "bsmall") {
		case 0: // a graphic that is its metadata and nothing else
			c.BOps, c.BHi = nil, nil
			labels = append(labels, "B-has-no-instructions-at-all")
		case 1: // ... or styling instructions only, no path
			c.BOps, c.BHi = []ops.Op{ops.OpSetCSel(3), ops.OpSetNReg(1, false, 0.5)}, nil
			labels = append(labels, "B-has-styling-instructions-only")
		}
		if rapid.IntRange(0, 5).Draw(t, "astale") == 0 {
			// A ends with B's own first gradient, drawn with another first colour, and then set up
			// once more with B's colours but a last stop that is not premultiplied (so that path is
			// not drawn): whatever a Renderer keeps of the accepted and of the rejected attempt, B's
			// gradient is B's
			var cols []ops.Op
			for _, o := range c.BOps {
				if o.K == ops.SetCReg && o.Incr && o.C != nil && o.C.T == 0 && len(cols) < 3 {
					cols = append(cols, o)
				}
			}
			if len(cols) == 3 {
				other := ops.ColorV{T: 0, R: cols[0].C.R ^ 0x5a, G: cols[0].C.G, B: cols[0].C.B ^ 0x33, A: 0xff}
				bad := ops.ColorV{T: 0, R: 0xff, G: 0x10, B: 0x10, A: 0x20}
				pathOps := []ops.Op{ops.OpStartPath(0, -20, -20), ops.OpDraw(ops.AbsLineTo, 20, -20), ops.OpDraw(ops.AbsLineTo, 20, 20), ops.OpDraw(ops.ClosePathEndPath)}
				a := []ops.Op{ops.OpReset(c.bvb(), ivg.DefaultPalette), ops.OpSetNReg(0, true, 1.0/64)}
				for i := 0; i < 5; i++ {
					a = append(a, ops.OpSetNReg(0, true, 0))
				}
				a = append(a, ops.OpSetNReg(0, true, 0), ops.OpSetNReg(0, true, 0.5), ops.OpSetNReg(0, true, 1))
				a = append(a, ops.OpSetCReg(0, true, other), cols[1], cols[2])
				a = append(a, ops.OpSetCReg(0, false, ops.RGBAv(spec.EncodeGradientBits(spec.GradientBits{NStops: 3, CBase: 0, NBase: 6, Spread: 1}))))
				a = append(a, pathOps...)
				a = append(a, ops.OpSetCSel(0), cols[0], cols[1], ops.OpSetCReg(0, true, bad))
				a = append(a, pathOps...)
				c.AOps = append(c.AOps, a...)
				labels = append(labels, "A-ends-with-B's-gradient-once-recoloured-and-once-rejected-at-its-last-stop")
			}
		}
		if rapid.IntRange(0, 3).Draw(t, "areset") == 0 {
			// A ends with a Reset to B's viewBox moved elsewhere (same size, same scale, other origin)
			dx := float32(rapid.IntRange(-30, 30).Draw(t, "avdx"))
			dy := float32(rapid.IntRange(-30, 30).Draw(t, "avdy"))
			vb := ivg.ViewBox{MinX: float32(c.BViewBox[0]) + dx, MinY: float32(c.BViewBox[1]) + dy, MaxX: float32(c.BViewBox[2]) + dx, MaxY: float32(c.BViewBox[3]) + dy}
			c.AOps = append(c.AOps, ops.OpReset(vb, ivg.DefaultPalette), ops.OpStartPath(0, 1, 1), ops.OpDraw(ops.AbsLineTo, 3, 4))
			labels = append(labels, "A-resets-to-a-shifted-viewbox")
		}
		if rapid.IntRange(0, 4).Draw(t, "abmeta") == 0 {
			// A once held exactly B's metadata (after something larger), then went on with other metadata
			pre := append([]ops.Op{}, c.AOps...)
			c.AOps = append(pre, ops.OpReset(c.bvb(), [64]color.RGBA(c.BPalette)), ops.OpStartPath(0, 2, 2), ops.OpDraw(ops.AbsLineTo, 5, 6), ops.OpDraw(ops.ClosePathEndPath),
				ops.OpReset(ivg.DefaultViewBox, ivg.DefaultPalette), ops.OpStartPath(0, 1, 1), ops.OpDraw(ops.AbsLineTo, 3, 4), ops.OpDraw(ops.RelLineTo, 1, 1))
			labels = append(labels, "A-was-reset-to-exactly-B's-metadata-earlier")
		}
		c.Rect = [4]int{rapid.IntRange(0, 5).Draw(t, "rx"), rapid.IntRange(0, 5).Draw(t, "ry"), rapid.SampledFrom([]int{1, 2, 16, 48, 64, 96, 200}).Draw(t, "rw"), rapid.SampledFrom([]int{1, 1, 2, 3, 16, 48, 64, 96, 300}).Draw(t, "rh")}
		if c.Rect[2] == 1 || c.Rect[3] == 1 {
			labels = append(labels, "target-one-pixel-wide-or-high")
		}
		switch rapid.IntRange(0, 6).Draw(t, "arect") {
		case 6: // the same size somewhere else (the previous cell of a sheet)
			c.ARect = &[4]int{c.Rect[0] + rapid.SampledFrom([]int{-c.Rect[2], c.Rect[2], 7, 0}).Draw(t, "asx"), c.Rect[1] + rapid.SampledFrom([]int{c.Rect[3], 0, 5}).Draw(t, "asy"), c.Rect[2], c.Rect[3]}
			labels = append(labels, "A-drawn-into-a-rectangle-of-the-same-size-elsewhere")
		case 0:
			c.ARect = &[4]int{c.Rect[0], c.Rect[1], rapid.SampledFrom([]int{0, c.Rect[2]}).Draw(t, "aw"), 0}
			labels = append(labels, "A-drawn-into-an-empty-rectangle")
		case 1:
			c.ARect = &[4]int{rapid.IntRange(0, 9).Draw(t, "arx"), rapid.IntRange(0, 9).Draw(t, "ary"), rapid.SampledFrom([]int{8, 16, 64, 80}).Draw(t, "arw"), rapid.SampledFrom([]int{8, 16, 64, 80}).Draw(t, "arh")}
			labels = append(labels, "A-drawn-into-another-rectangle")
		}
		if rapid.IntRange(0, 2).Draw(t, "norearm") == 0 {
			c.NoRearm = true
			labels = append(labels, "draw-operator-armed-for-A-only")
		}
		subReuse.See(c, len(labels) > 0, harness.HashJSON(c), labels...)
		subReuse.Run(t, c)
	})
	subReuse.Label("pixel-comparison-skipped:x/image/vector-panicked", vectorPanics)
	subReuse.Label("pixel-comparison-skipped:coordinates-beyond-20000px", pixelSkippedHuge)
}
