// C13 — metadata: defaults, suggested palette, viewBox validation, chunk framing.
package c13

import (
	"fmt"
	"image/color"
	"testing"

	"github.com/reactivego/ivg"
	"github.com/reactivego/ivg/decode"
	"pgregory.net/rapid"

	"verif/internal/corpus"
	"verif/internal/gen"
	"verif/internal/harness"
	"verif/internal/ops"
	"verif/internal/spec"
)

func TestMain(m *testing.M) { harness.Main(m, "C13") }

type Case struct {
	Bytes ops.Hex `json:"bytes"` // magic + metadata + instruction tail
	Tail  int     `json:"tail"`  // length of the instruction tail at the end of Bytes
	// Expectation from the generator ("" = only the reference parser decides).
	Expect  string       `json:"expect"` // "valid", "invalid" or ""
	Defect  string       `json:"defect,omitempty"`
	ViewBox [4]ops.F32   `json:"viewbox"`
	Palette *ops.Palette `json:"palette,omitempty"`
	// An earlier, unrelated Decode with palette options in the same process
	// (0 = none): 1 WithColorAt on a graphic without chunks, 2 WithPalette on
	// one, 3 WithColorAt on a graphic with a viewBox chunk only, 4 the same
	// bytes as this case decoded with WithColorAt first.
	Prior    int       `json:"prior,omitempty"`
	PriorIdx int       `json:"prior_idx,omitempty"`
	PriorCol ops.ColorV `json:"prior_col,omitempty"`
}

var pristine = ivg.DefaultMetadata

// priorDecode is the earlier use: whatever it does to its own destination, the
// defaults and the stored metadata the case under test receives are its own.
func priorDecode(c Case) {
	col := color.RGBA{c.PriorCol.R, c.PriorCol.G, c.PriorCol.B, c.PriorCol.A}
	var g []byte
	var opt decode.DecodeOption
	switch c.Prior {
	case 1:
		g, opt = []byte{0x89, 'I', 'V', 'G', 0x00, 0xc0, 0x80, 0x80, 0xe1}, decode.WithColorAt(c.PriorIdx&63, col)
	case 2:
		var pal [64]color.RGBA
		for i := range pal {
			pal[i] = col
		}
		g, opt = []byte{0x89, 'I', 'V', 'G', 0x00}, decode.WithPalette(pal)
	case 3:
		g, opt = []byte{0x89, 'I', 'V', 'G', 0x02, 0x0a, 0x00, 0x50, 0x50, 0xb0, 0xb0, 0xc0, 0x80, 0x80, 0xe1}, decode.WithColorAt(c.PriorIdx&63, col)
	case 4:
		g, opt = append([]byte{}, c.Bytes...), decode.WithColorAt(c.PriorIdx&63, col)
	default:
		return
	}
	decode.Decode(&ops.Recorder{}, g, opt)
}

func sameVB(a ivg.ViewBox, b [4]float32) bool {
	return ops.SameF32(a.MinX, b[0]) && ops.SameF32(a.MinY, b[1]) && ops.SameF32(a.MaxX, b[2]) && ops.SameF32(a.MaxY, b[3])
}

func isDecodeError(err error) bool {
	_, ok := err.(decode.DecodeError)
	return ok
}

func checkMeta(c Case) error {
	ivg.DefaultMetadata = pristine // every case starts from the library's own initial state
	priorDecode(c)
	src := append([]byte{}, c.Bytes...)
	rec := &ops.Recorder{}
	err := decode.Decode(rec, src)
	vb, verr := decode.DecodeViewBox(src)
	p := spec.Parse(c.Bytes)

	if err != nil && !isDecodeError(err) {
		return harness.Violatef("c13/error-type", "Decode returned %T %v, want a DecodeError", err, err)
	}
	if verr != nil && !isDecodeError(verr) {
		return harness.Violatef("c13/error-type", "DecodeViewBox returned %T %v, want a DecodeError", verr, verr)
	}
	// Decoding without a Destination (validation only) validates the same things.
	if errNil := decode.Decode(nil, append([]byte{}, c.Bytes...)); (errNil == nil) != (err == nil) {
		return harness.Violatef("c13/no-destination-verdict", "Decode without a Destination says %v, with one %v", errNil, err)
	}
	// Reference semantics.
	if p.MetaOK != (verr == nil) {
		return harness.Violatef("c13/viewbox-verdict", "DecodeViewBox err=%v but the reference says metadata valid=%v (%s)", verr, p.MetaOK, p.Err)
	}
	if !p.MetaOK {
		if err == nil {
			return harness.Violatef("c13/accepts-bad-metadata", "Decode accepts ill-formed metadata (%s at %d)", p.Err, p.ErrPos)
		}
		if len(rec.Ops) != 0 {
			return harness.Violatef("c13/calls-before-valid-metadata", "%d destination calls although the metadata is ill-formed (%s)", len(rec.Ops), p.Err)
		}
	} else {
		if len(rec.Ops) == 0 || rec.Ops[0].K != ops.Reset {
			return harness.Violatef("c13/no-reset", "metadata valid but first call is not Reset (err=%v, %d calls)", err, len(rec.Ops))
		}
		r := rec.Ops[0]
		if !sameVB(r.ViewBox(), p.ViewBox) {
			return harness.Violatef("c13/reset-viewbox", "Reset viewBox %v, reference %v", r.ViewBox(), p.ViewBox)
		}
		if r.Palette() != p.Palette {
			return harness.Violatef("c13/reset-palette", "Reset palette differs from reference: %s", palDiff(r.Palette(), p.Palette))
		}
		if !sameVB(vb, p.ViewBox) {
			return harness.Violatef("c13/decodeviewbox-value", "DecodeViewBox = %v, reference %v", vb, p.ViewBox)
		}
		if (err == nil) != p.OK {
			return harness.Violatef("c13/instruction-verdict", "Decode err=%v, reference ok=%v (%s)", err, p.OK, p.Err)
		}
	}
	// Generator's own expectation (constructive oracle).
	switch c.Expect {
	case "valid":
		if verr != nil {
			return harness.Violatef("c13/rejects-valid-metadata", "DecodeViewBox rejects (%v) a well-formed metadata section", verr)
		}
		want := [4]float32{float32(c.ViewBox[0]), float32(c.ViewBox[1]), float32(c.ViewBox[2]), float32(c.ViewBox[3])}
		if !sameVB(vb, want) {
			return harness.Violatef("c13/decodeviewbox-value", "DecodeViewBox = %v, constructed %v", vb, want)
		}
		if len(rec.Ops) == 0 || rec.Ops[0].K != ops.Reset {
			return harness.Violatef("c13/no-reset", "well-formed metadata but no Reset (err=%v)", err)
		}
		if !sameVB(rec.Ops[0].ViewBox(), want) {
			return harness.Violatef("c13/reset-viewbox", "Reset viewBox %v, constructed %v", rec.Ops[0].ViewBox(), want)
		}
		if c.Palette != nil && rec.Ops[0].Palette() != [64]color.RGBA(*c.Palette) {
			return harness.Violatef("c13/reset-palette", "Reset palette differs from constructed: %s", palDiff(rec.Ops[0].Palette(), [64]color.RGBA(*c.Palette)))
		}
	case "invalid":
		if verr == nil || err == nil {
			return harness.Violatef("c13/accepts-bad-metadata", "accepted metadata built to be ill-formed (%s): Decode err=%v DecodeViewBox err=%v", c.Defect, err, verr)
		}
		if len(rec.Ops) != 0 {
			return harness.Violatef("c13/calls-before-valid-metadata", "%d destination calls for metadata built to be ill-formed (%s)", len(rec.Ops), c.Defect)
		}
	}
	// Metadata-only decoding ignores the instruction section.
	if c.Tail > 0 && c.Tail <= len(c.Bytes) {
		head := c.Bytes[:len(c.Bytes)-c.Tail]
		for _, tail := range [][]byte{nil, {0xff, 0xff}, {0xc0}} {
			alt := append(append([]byte{}, head...), tail...)
			vb2, verr2 := decode.DecodeViewBox(alt)
			if (verr2 == nil) != (verr == nil) || (verr == nil && !sameVB(vb2, [4]float32{vb.MinX, vb.MinY, vb.MaxX, vb.MaxY})) {
				return harness.Violatef("c13/decodeviewbox-reads-instructions", "DecodeViewBox depends on the instruction section: %v,%v with tail %x vs %v,%v", vb2, verr2, tail, vb, verr)
			}
		}
	}
	// The same bytes in a buffer the caller keeps reusing (same address, often
	// the same length as the previous graphic): same answers.
	if n := len(c.Bytes); n <= len(reuse) {
		copy(reuse[:n], c.Bytes)
		vb3, verr3 := decode.DecodeViewBox(reuse[:n])
		if (verr3 == nil) != (verr == nil) || (verr == nil && !sameVB(vb3, [4]float32{vb.MinX, vb.MinY, vb.MaxX, vb.MaxY})) {
			return harness.Violatef("c13/decodeviewbox-reused-buffer", "DecodeViewBox on the same bytes in a reused buffer gives %v,%v; on a fresh slice %v,%v", vb3, verr3, vb, verr)
		}
		rec3 := &ops.Recorder{}
		err3 := decode.Decode(rec3, reuse[:n])
		if (err3 == nil) != (err == nil) || ops.DiffOps(rec3.Ops, rec.Ops) != "" {
			return harness.Violatef("c13/decode-reused-buffer", "Decode on the same bytes in a reused buffer differs from a fresh slice")
		}
	}
	// Input untouched.
	if string(src) != string(c.Bytes) {
		return harness.Violatef("c13/input-modified", "input modified")
	}
	return nil
}

var reuse [1024]byte

func palDiff(a, b [64]color.RGBA) string {
	for i := range a {
		if a[i] != b[i] {
			return fmt.Sprintf("entry %d: got %v want %v", i, a[i], b[i])
		}
	}
	return "equal"
}

var subMeta = harness.Define("meta", "generated metadata sections (0-3 chunks in any order incl. repeats/unknown MIDs, every palette format and count, every viewBox coordinate form, lengths off by -3..+3 or huge, counts larger than the data) + short instruction tail; oracle = constructive expectation and the reference parser; non-trivial = at least one chunk present", checkMeta)

var tails = [][]byte{{}, {0xc0, 0x80, 0x80, 0xe1}, {0x05, 0x87, 0x10}, {0xc0, 0x80}, {0xc8}}

func TestMetadata(t *testing.T) {
	harness.Rapid(t, harness.N(50000, 16*1000000), func(t *rapid.T) {
		b, exp := gen.MetaSection(t)
		tail := rapid.SampledFrom(tails).Draw(t, "tail")
		c := Case{Bytes: append(b, tail...), Tail: len(tail)}
		if exp.Valid {
			c.Expect = "valid"
			p := ops.Palette(exp.Palette)
			c.Palette = &p
			for i, v := range exp.ViewBox {
				c.ViewBox[i] = ops.F32(v)
			}
		} else {
			c.Expect = "invalid"
			c.Defect = exp.Defect
		}
		if rapid.IntRange(0, 3).Draw(t, "hasPrior") == 0 {
			c.Prior = rapid.IntRange(1, 4).Draw(t, "prior")
			c.PriorIdx = rapid.SampledFrom([]int{0, 0, 1, 2, 62, 63, 17}).Draw(t, "priorIdx")
			c.PriorCol = ops.RGBAv(gen.AnyRGBA(t, "priorCol"))
		}
		labels := append([]string{"expect=" + c.Expect, fmt.Sprintf("prior-decode=%d", c.Prior)}, exp.Labels...)
		nontrivial := len(b) > 5
		subMeta.See(c, nontrivial, harness.Hash(c.Bytes), labels...)
		subMeta.Run(t, c)
	})
}

// Mutated real metadata: the reference alone decides.
func TestMetadataMutations(t *testing.T) {
	files := corpus.Testdata()
	harness.Rapid(t, harness.N(10000, 16*200000), func(t *rapid.T) {
		var base []byte
		if rapid.Bool().Draw(t, "corpus") {
			base = files[rapid.IntRange(0, len(files)-1).Draw(t, "file")].Data
			if len(base) > 40 {
				base = base[:40]
			}
		} else {
			base, _ = gen.ValidMeta(t)
		}
		b := gen.Mutate(t, base, []byte{0x02, 0x0a, 0x00, 0x50, 0x50, 0xb0, 0xb0})
		c := Case{Bytes: b}
		p := spec.Parse(b)
		l := "mutated-meta-invalid"
		if p.MetaOK {
			l = "mutated-meta-valid"
		}
		subMeta.See(c, len(b) > 5, harness.Hash(b), l)
		subMeta.Run(t, c)
	})
}

// Defaults: no chunks at all.
func TestDefaults(t *testing.T) {
	harness.OnlyFirstShard(t)
	st := harness.Counter("defaults", "absent chunks give the documented defaults (-32,-32,32,32 and 64 opaque blacks); palette with N+1 entries is followed by opaque black")
	b := []byte{0x89, 'I', 'V', 'G', 0x00}
	pal := ops.DefaultPalette()
	c := Case{Bytes: b, Expect: "valid", ViewBox: [4]ops.F32{-32, -32, 32, 32}, Palette: &pal}
	subMeta.Run(t, c)
	n := int64(1)
	// every palette count 1..64 in every format, entries all 0x7e-ish valid bytes
	for form := 0; form < 4; form++ {
		for cnt := 1; cnt <= 64; cnt++ {
			body := []byte{0x02, byte(cnt-1) | byte(form)<<6}
			want := ops.DefaultPalette()
			for i := 0; i < cnt; i++ {
				raw := []byte{byte(i), byte(i * 3), byte(i * 5), 0xff}[:spec.ColorFormLen[form]]
				if form == 0 {
					raw = []byte{byte(i % 125)}
				}
				if form == 1 {
					raw = []byte{byte(i), 0x0f | byte(i)<<4}
				}
				cv, _ := spec.DecodeColor(form, raw)
				if cv.T == 0 && spec.Premultiplied(cv.RGBA()) {
					want[i] = cv.RGBA()
				}
				body = append(body, raw...)
			}
			s := append([]byte{0x89, 'I', 'V', 'G', 0x02}, spec.EncodeNaturalW(uint32(len(body)), spec.NaturalWidth(uint32(len(body))))...)
			s = append(s, body...)
			cc := Case{Bytes: s, Expect: "valid", ViewBox: [4]ops.F32{-32, -32, 32, 32}, Palette: &want}
			if err := subMeta.Eval(cc); err != nil {
				t.Fatal(err)
			}
			n++
		}
	}
	st.AddEnumerated(n, n)
	st.SetExhaustive()
}

// Every colour byte pattern as a suggested-palette entry: all 256 one-byte, all
// 65536 two-byte, strided three-byte and class-exhaustive four-byte patterns
// (24 representative channel values ^ 4, plus a stride), 64 entries per chunk.
func TestPaletteEntryPatterns(t *testing.T) {
	st := harness.Counter("palette-entry-patterns", "every 1-byte and 2-byte colour pattern, strided 3-byte and class-exhaustive 4-byte patterns (24 representative channel values ^4 + stride 4099) as suggested-palette entries, 64 per chunk: Reset receives the colour, or opaque black for indirect and non-premultiplied ones")
	rep := []byte{0x00, 0x01, 0x10, 0x11, 0x22, 0x3f, 0x40, 0x41, 0x55, 0x7f, 0x80, 0x81, 0x88, 0xaa, 0xbf, 0xc0, 0xc1, 0xcc, 0xee, 0xef, 0xf0, 0xfe, 0xff, 0x33}
	var n, nt int64
	flush := func(form int, pats [][]byte) {
		if len(pats) == 0 {
			return
		}
		body := []byte{0x02, byte(len(pats)-1) | byte(form)<<6}
		want := ops.DefaultPalette()
		for i, p := range pats {
			body = append(body, p...)
			cv, _ := spec.DecodeColor(form, p)
			if cv.T == 0 && spec.Premultiplied(cv.RGBA()) {
				want[i] = cv.RGBA()
			} else {
				nt++
			}
		}
		b := append([]byte{0x89, 'I', 'V', 'G', 0x02}, spec.EncodeNaturalW(uint32(len(body)), spec.NaturalWidth(uint32(len(body))))...)
		b = append(b, body...)
		c := Case{Bytes: b, Expect: "valid", ViewBox: [4]ops.F32{-32, -32, 32, 32}, Palette: &want}
		n += int64(len(pats))
		if err := subMeta.Eval(c); err != nil {
			t.Fatal(err)
		}
	}
	sweep := func(form int, count uint64, pat func(x uint64) []byte) {
		var pats [][]byte
		lo, hi := harness.Range(count)
		for x := lo; x < hi; x++ {
			pats = append(pats, pat(x))
			if len(pats) == 64 {
				flush(form, pats)
				pats = pats[:0]
			}
		}
		flush(form, pats)
	}
	sweep(0, 256, func(x uint64) []byte { return []byte{byte(x)} })
	sweep(1, 1<<16, func(x uint64) []byte { return []byte{byte(x), byte(x >> 8)} })
	sweep(2, 1<<24/251, func(x uint64) []byte { y := x * 251; return []byte{byte(y), byte(y >> 8), byte(y >> 16)} })
	k := uint64(len(rep))
	sweep(3, k*k*k*k, func(x uint64) []byte { return []byte{rep[x%k], rep[x/k%k], rep[x/k/k%k], rep[x/k/k/k%k]} })
	sweep(3, 1<<32/4099, func(x uint64) []byte {
		y := x * 4099
		return []byte{byte(y), byte(y >> 8), byte(y >> 16), byte(y >> 24)}
	})
	st.AddEnumerated(n, nt)
	st.SetExhaustive()
}
