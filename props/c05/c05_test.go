// C05 — path geometry reaches the rasteriser correctly mapped from viewBox to pixels.
package c05

import (
	"fmt"
	"image"
	"image/color"
	"math"
	"os"
	"testing"

	"github.com/reactivego/ivg"
	"github.com/reactivego/ivg/raster"
	"github.com/reactivego/ivg/render"
	"pgregory.net/rapid"

	"verif/internal/gen"
	"verif/internal/harness"
	"verif/internal/ops"
	"verif/internal/rast"
	"verif/internal/spec"
)

func TestMain(m *testing.M) {
	// raster.RasterizerLogger prints every call to os.Stdout: park it.
	if f, err := os.OpenFile(os.DevNull, os.O_WRONLY, 0); err == nil {
		os.Stdout = f
	}
	harness.Main(m, "C05")
}

type Case struct {
	ViewBox [4]ops.F32 `json:"viewbox"`
	Rect    [4]int     `json:"rect"` // x0, y0, w, h
	Ops     []ops.Op   `json:"ops"`  // one or more complete paths
	// PrevRect, when its size is non-zero: the Renderer was pointed at this
	// rectangle (and drew a path there) before being re-pointed to Rect.
	PrevRect [4]int `json:"prev_rect,omitempty"`
	// NoPixels: the target rectangle holds no pixel: Rect's width and/or height are zero or
	// negative (Min beyond Max, as clipping arithmetic written by hand produces; Rectangle.Empty
	// reports true). Nothing can be said about the map onto such a rectangle; what is checked is
	// that the calls are the same ones, that the rasteriser is never given a negative size and
	// that the path is drawn over a rectangle without pixels.
	NoPixels bool `json:"no_pixels,omitempty"`
	// PrevViewBox: the viewBox of that earlier use (zero size = the same viewBox).
	PrevViewBox [4]ops.F32 `json:"prev_viewbox,omitempty"`
	// PrevOpen: that earlier use stopped inside its path (a truncated graphic).
	PrevOpen bool `json:"prev_open,omitempty"`
	// Logged: the rasteriser is wrapped in the bundled raster.RasterizerLogger (a pass-through
	// that prints every call).
	Logged bool `json:"logged,omitempty"`
	// RectAfterReset: the caller gives the viewBox first (Reset) and aims the Renderer at its
	// rectangle afterwards (SetRasterizer); either order defines the same map.
	RectAfterReset bool `json:"rect_after_reset,omitempty"`
	// Fills, per path (missing = 0): 0 opaque black; 1 opaque black, and a path that is not drawn
	// (transparent paint) comes right before; 2 a two-stop gradient; 3 a gradient right after a path
	// that is not drawn; 4 a gradient right after a path outside the level-of-detail range.
	Fills []int `json:"fills,omitempty"`
	// LongGap: the last path has hundreds of operations between a curve and a smooth operation.
	LongGap bool `json:"long_gap,omitempty"`
}

// applyWithFills drives c.Ops into z; the styling that selects each path's paint, and the paths that
// are not drawn, are added here (they are no part of the geometry under test). Rasteriser calls made
// while such a hidden path is open are cut out of the log: whether a hidden path stays silent is
// property C04's business.
func applyWithFills(z *render.Renderer, rr *rast.Recorder, c Case) {
	path := 0
	hidden := func(lod bool) {
		n := len(rr.Calls)
		if lod {
			z.SetLOD(float32(c.Rect[3])+1, float32(c.Rect[3])+2)
		} else {
			z.SetCReg(0, false, ivg.RGBAColor(color.RGBA{}))
		}
		z.StartPath(0, 1, 2)
		z.AbsQuadTo(3, 4, 5, 6)
		z.RelSmoothCubeTo(1, 1, 2, 2)
		z.ClosePathEndPath()
		if lod {
			z.SetLOD(0, float32(math.Inf(1)))
		}
		rr.Calls = rr.Calls[:n]
	}
	for _, o := range c.Ops {
		if o.K == ops.StartPath {
			f := 0
			if path < len(c.Fills) {
				f = c.Fills[path]
			}
			path++
			switch f {
			case 1, 3:
				hidden(false)
			case 4:
				hidden(true)
			}
			if f >= 2 {
				z.SetNSel(10)
				for j, v := range []float32{1.0 / 64, 0, 0.5, 0, 1.0 / 64, 0.5} {
					z.SetNReg(uint8(6-j), false, v)
				}
				z.SetNReg(0, true, 0)
				z.SetNReg(0, true, 1)
				z.SetCSel(10)
				z.SetCReg(0, true, ivg.RGBAColor(color.RGBA{0xff, 0, 0, 0xff}))
				z.SetCReg(0, true, ivg.RGBAColor(color.RGBA{0, 0, 0x80, 0x80}))
				z.SetCSel(0)
				z.SetCReg(0, false, ivg.RGBAColor(ivg.EncodeGradient(10, 10, 0, 1, 2)))
			} else {
				z.SetCSel(0)
				z.SetCReg(0, false, ivg.RGBAColor(color.RGBA{0, 0, 0, 0xff}))
			}
		}
		ops.Apply(z, o)
	}
}

func fillOf(c Case, path int) int {
	if path >= 0 && path < len(c.Fills) {
		return c.Fills[path]
	}
	return 0
}

const eps32 = 1.0 / (1 << 23)

func vbOf(c Case) [4]float32 {
	return [4]float32{float32(c.ViewBox[0]), float32(c.ViewBox[1]), float32(c.ViewBox[2]), float32(c.ViewBox[3])}
}

func checkGeometry(c Case) error {
	vb := vbOf(c)
	rect := image.Rect(c.Rect[0], c.Rect[1], c.Rect[0]+c.Rect[2], c.Rect[1]+c.Rect[3])
	if c.NoPixels {
		rect = image.Rectangle{Min: image.Pt(c.Rect[0], c.Rect[1]), Max: image.Pt(c.Rect[0]+c.Rect[2], c.Rect[1]+c.Rect[3])} // not canonicalised
	}
	rr := &rast.Recorder{NoLattice: true}
	var z render.Renderer
	if c.PrevRect[2] > 0 && c.PrevRect[3] > 0 {
		// an earlier use of the same Renderer with another target
		// ... on the same rasteriser (tiles of one sheet), whose Bounds() then report the earlier size
		z.SetRasterizer(rr, image.Rect(c.PrevRect[0], c.PrevRect[1], c.PrevRect[0]+c.PrevRect[2], c.PrevRect[1]+c.PrevRect[3]))
		pvb := vb
		if c.PrevViewBox[2] > c.PrevViewBox[0] && c.PrevViewBox[3] > c.PrevViewBox[1] {
			pvb = [4]float32{float32(c.PrevViewBox[0]), float32(c.PrevViewBox[1]), float32(c.PrevViewBox[2]), float32(c.PrevViewBox[3])}
		}
		z.Reset(gen.VB(pvb), ivg.DefaultPalette)
		z.StartPath(0, 1, 1)
		z.AbsLineTo(2, 3)
		z.AbsQuadTo(4, 5, 6, 7)
		if !c.PrevOpen {
			z.ClosePathEndPath()
		}
	}
	mark := len(rr.Calls)
	var target raster.Rasterizer = rr
	if c.Logged {
		target = &raster.RasterizerLogger{Rasterizer: rr}
	}
	if c.RectAfterReset {
		z.Reset(gen.VB(vb), ivg.DefaultPalette)
		z.SetRasterizer(target, rect)
	} else {
		z.SetRasterizer(target, rect)
		z.Reset(gen.VB(vb), ivg.DefaultPalette)
	}
	applyWithFills(&z, rr, c)
	rr.Calls = rr.Calls[mark:]

	// reference
	type want struct {
		seg spec.Seg
		op  int // index in c.Ops
		k   int // op index within its path
	}
	var exp []want
	g := spec.NewGeom(vb, c.Rect[2], c.Rect[3])
	k := 0
	pathMax := map[int]float64{} // path index -> largest magnitude
	path := -1
	pathOf := []int{}
	for i, o := range c.Ops {
		if o.K == ops.StartPath {
			path++
			k = 0
			exp = append(exp, want{seg: spec.Seg{K: rast.Reset}, op: i})
			pathOf = append(pathOf, path)
		}
		for _, s := range g.Step(o) {
			exp = append(exp, want{seg: s, op: i, k: k})
			pathOf = append(pathOf, path)
			for _, v := range s.P {
				if a := math.Abs(v); a > pathMax[path] {
					pathMax[path] = a
				}
			}
		}
		if o.K == ops.ClosePathEndPath {
			exp = append(exp, want{seg: spec.Seg{K: rast.Draw}, op: i})
			pathOf = append(pathOf, path)
		}
		k++
	}
	if len(rr.Calls) != len(exp) {
		n := len(rr.Calls)
		if len(exp) < n {
			n = len(exp)
		}
		for i := 0; i < n; i++ {
			if rr.Calls[i].K != exp[i].seg.K {
				return harness.Violatef("c05/call-sequence", "rasteriser call %d is %v, expected %v for op %d %v", i, rr.Calls[i], exp[i].seg.K, exp[i].op, c.Ops[exp[i].op])
			}
		}
		return harness.Violatef("c05/call-count", "%d rasteriser calls, expected %d", len(rr.Calls), len(exp))
	}
	for i, call := range rr.Calls {
		e := exp[i]
		if call.K != e.seg.K {
			return harness.Violatef("c05/call-sequence", "rasteriser call %d is %v, expected %v for op %d %v", i, call, e.seg.K, e.op, c.Ops[e.op])
		}
		switch call.K {
		case rast.Reset:
			if c.NoPixels {
				if call.W < 0 || call.H < 0 {
					return harness.Violatef("c05/reset-size", "Reset(%d,%d) for the target rectangle %v, which holds no pixel: a negative size", call.W, call.H, rect)
				}
				continue
			}
			if call.W != c.Rect[2] || call.H != c.Rect[3] {
				return harness.Violatef("c05/reset-size", "Reset(%d,%d), target rectangle is %dx%d", call.W, call.H, c.Rect[2], c.Rect[3])
			}
		case rast.Draw:
			if c.NoPixels {
				if !call.R.Empty() {
					return harness.Violatef("c05/draw-rect", "Draw(%v) for the target rectangle %v, which holds no pixel", call.R, rect)
				}
				continue
			}
			if call.R != rect || call.SP != (image.Point{}) {
				return harness.Violatef("c05/draw-rect", "Draw(%v, sp=%v), expected the target rectangle %v at (0,0)", call.R, call.SP, rect)
			}
			if f := fillOf(c, pathOf[i]); f >= 2 {
				if call.P == nil || call.P.Kind != "gradient" {
					return harness.Violatef("c05/draw-paint", "Draw paint %v, expected the gradient", call.P)
				}
			} else if call.P == nil || call.P.Kind != "uniform" || call.P.Uniform != (color.RGBA{0, 0, 0, 0xff}) {
				return harness.Violatef("c05/draw-paint", "Draw paint %v, expected opaque black", call.P)
			}
		default:
			if c.NoPixels {
				continue
			}
			// x - Min is one float32 subtraction of two float32 values (error relative to the
			// difference, however large |x| and |Min| are), then one multiplication: the error is
			// relative to the pixel magnitudes of the path, and accumulates through the pen
			m := math.Max(pathMax[pathOf[i]], 1)
			tol := 16 * eps32 * m * float64(e.k+1)
			n := map[rast.CallKind]int{rast.MoveTo: 2, rast.LineTo: 2, rast.QuadTo: 4, rast.CubeTo: 6}[call.K]
			for j := 0; j < n; j++ {
				got := float64(call.F[j])
				if math.IsNaN(got) || math.Abs(got-e.seg.P[j]) > tol {
					return harness.Violatef("c05/coordinate", "rasteriser call %d %v (op %d %v): coordinate %d = %v, reference %v (tolerance %g)", i, call, e.op, c.Ops[e.op], j, got, e.seg.P[j], tol)
				}
			}
		}
	}
	return nil
}

var subGeom = harness.Define("geometry", "drawing-op sequences over the 18 non-arc path verbs (1-3 paths, runs 1-5) x viewBoxes (default, off-centre, non-square) x target rectangles (any origin, 1-600 px, mostly non-uniform scale), opaque flat fill: rasteriser call kinds/order equal a float64 reference of SVG path semantics and each coordinate is within 16*eps32*M*(k+1), M the largest pixel magnitude of the path (also for small viewBoxes up to 10^6 sizes away from the origin); non-trivial = >= 3 ops incl. a relative op, a smooth op and a close-and-move under a non-default viewBox or non-uniform scale", checkGeometry)

var verbs = append([]ops.Kind{ops.ClosePathEndPath}, gen.DrawVerbs[:16]...) // 17 verbs that can follow; StartPath is the 18th

var transitions = map[[2]ops.Kind]bool{}

func genCase(t *rapid.T) Case {
	var c Case
	vb := gen.ViewBox(t, "vb", false)
	if vb[2]-vb[0] > 5000 || vb[3]-vb[1] < 0.01 { // the extreme class belongs to other properties
		vb = [4]float32{-10, 0, 30, 100}
	}
	far := rapid.IntRange(0, 7).Draw(t, "far") == 0
	var farMin, farSize float32
	if far {
		// a small viewBox very far from the origin (|Min|/size up to 10^6), same offset on both axes
		farMin = float32(math.Ldexp(1, rapid.IntRange(8, 20).Draw(t, "far.k"))) + float32(rapid.IntRange(0, 15).Draw(t, "far.j"))
		if rapid.Bool().Draw(t, "far.neg") {
			farMin = -farMin
		}
		farSize = float32(rapid.SampledFrom([]int{1, 2, 8, 16, 48, 64}).Draw(t, "far.size"))
		vb = [4]float32{farMin, farMin, farMin + farSize, farMin + farSize*float32(rapid.SampledFrom([]int{1, 2}).Draw(t, "far.aspect"))}
	}
	for i, v := range vb {
		c.ViewBox[i] = ops.F32(v)
	}
	c.Rect = [4]int{rapid.IntRange(-50, 200).Draw(t, "rx"), rapid.IntRange(-50, 200).Draw(t, "ry"), rapid.IntRange(1, 600).Draw(t, "rw"), rapid.IntRange(1, 600).Draw(t, "rh")}
	natural := false
	if !far && rapid.IntRange(0, 7).Draw(t, "natural") == 0 {
		// the graphic at (about) its natural size: a viewBox of whole or fractional size drawn into
		// the whole number of pixels below or above it, times 1-3
		natural = true
		fr := []float32{0, 0, 0.25, 0.5, 0.75, 0.984375}
		w := float32(rapid.IntRange(1, 200).Draw(t, "nat.w")) + rapid.SampledFrom(fr).Draw(t, "nat.wf")
		h := float32(rapid.IntRange(1, 200).Draw(t, "nat.h")) + rapid.SampledFrom(fr).Draw(t, "nat.hf")
		x0, y0 := float32(rapid.IntRange(-64, 64).Draw(t, "nat.x"))/4, float32(rapid.IntRange(-64, 64).Draw(t, "nat.y"))/4
		c.ViewBox = [4]ops.F32{ops.F32(x0), ops.F32(y0), ops.F32(x0 + w), ops.F32(y0 + h)}
		k := rapid.IntRange(1, 3).Draw(t, "nat.k")
		up := rapid.Bool().Draw(t, "nat.up")
		px := func(v float32) int {
			n := int(v)
			if up && float32(n) != v {
				n++
			}
			return n * k
		}
		c.Rect[2], c.Rect[3] = px(w), px(h)
	}
	if !natural && rapid.IntRange(0, 11).Draw(t, "hugesize") == 0 {
		// a very long strip or a huge canvas: sides beyond 16 bits
		side := rapid.SampledFrom([]int{65535, 65536, 65537, 70000, 1 << 20, 1<<24 + 1}).Draw(t, "hugeside")
		if rapid.Bool().Draw(t, "hugew") {
			c.Rect[2] = side
		} else {
			c.Rect[3] = side
		}
	}
	switch rapid.IntRange(0, 9).Draw(t, "origin") {
	case 0, 1:
		c.Rect[0], c.Rect[1] = 0, 0
	case 2: // a tile of a huge virtual canvas: origins beyond what a float32 holds exactly
		c.Rect[0] = (1<<uint(rapid.IntRange(24, 30).Draw(t, "hugex")) + rapid.IntRange(-3, 3).Draw(t, "hugexd")) * rapid.SampledFrom([]int{1, -1}).Draw(t, "hugexs")
		if rapid.Bool().Draw(t, "hugeboth") {
			c.Rect[1] = 1<<uint(rapid.IntRange(24, 30).Draw(t, "hugey")) + rapid.IntRange(-3, 3).Draw(t, "hugeyd")
		}
	}
	if rapid.IntRange(0, 15).Draw(t, "nopixels") == 0 {
		// a target without pixels: a side of zero, or Min beyond Max (a cell clipped away by hand-written max/min)
		c.NoPixels = true
		side := func(l string, v int) int {
			switch rapid.IntRange(0, 2).Draw(t, l) {
			case 0:
				return 0
			case 1:
				return -rapid.IntRange(1, 600).Draw(t, l+".neg")
			}
			return v
		}
		c.Rect[2], c.Rect[3] = side("np.w", c.Rect[2]), side("np.h", c.Rect[3])
		if c.Rect[2] > 0 && c.Rect[3] > 0 {
			c.Rect[2] = -c.Rect[2]
		}
	}
	c.RectAfterReset = rapid.IntRange(0, 3).Draw(t, "rectafter") == 0
	c.Logged = rapid.IntRange(0, 9).Draw(t, "logged") == 0
	switch rapid.IntRange(0, 3).Draw(t, "prev") {
	case 0: // re-pointed to a rectangle of the same size elsewhere
		c.PrevRect = [4]int{c.Rect[0] + rapid.IntRange(-40, 40).Draw(t, "pdx"), c.Rect[1] + rapid.IntRange(-40, 40).Draw(t, "pdy"), c.Rect[2], c.Rect[3]}
	case 1: // re-pointed to any other rectangle
		c.PrevRect = [4]int{rapid.IntRange(-50, 200).Draw(t, "px"), rapid.IntRange(-50, 200).Draw(t, "py"), rapid.IntRange(1, 600).Draw(t, "pw"), rapid.IntRange(1, 600).Draw(t, "ph")}
	}
	if c.PrevRect[2] > 0 {
		c.PrevOpen = rapid.IntRange(0, 2).Draw(t, "prevopen") == 0
		switch rapid.IntRange(0, 3).Draw(t, "prevvb") {
		case 3: // the earlier graphic was authored in the pixels of the coming rectangle: (0,0)-(w,h)
			c.PrevViewBox = [4]ops.F32{0, 0, ops.F32(c.Rect[2]), ops.F32(c.Rect[3])}
		case 0: // same size, origin shifted by whole units: same scale, other bias
			dx, dy := float32(rapid.IntRange(-40, 40).Draw(t, "pvdx")), float32(rapid.IntRange(-40, 40).Draw(t, "pvdy"))
			c.PrevViewBox = [4]ops.F32{c.ViewBox[0] + ops.F32(dx), c.ViewBox[1] + ops.F32(dy), c.ViewBox[2] + ops.F32(dx), c.ViewBox[3] + ops.F32(dy)}
		case 1:
			pv := gen.ViewBox(t, "pvb", false)
			if pv[2]-pv[0] < 5000 && pv[3]-pv[1] > 0.01 {
				c.PrevViewBox = [4]ops.F32{ops.F32(pv[0]), ops.F32(pv[1]), ops.F32(pv[2]), ops.F32(pv[3])}
			}
		}
	}
	num := func(t *rapid.T, l string) float32 { return gen.Moderate(t, l, 200) }
	numRel := num
	if far {
		// absolute operands inside (or just around) the far box, relative ones of its size
		num = func(t *rapid.T, l string) float32 {
			return farMin + farSize*float32(rapid.IntRange(-16, 80).Draw(t, l))/64
		}
		numRel = func(t *rapid.T, l string) float32 { return farSize * float32(rapid.IntRange(-32, 32).Draw(t, l)) / 64 }
	}
	np := rapid.IntRange(1, 3).Draw(t, "paths")
	for p := 0; p < np; p++ {
		sp := ops.OpStartPath(0, num(t, "sx"), num(t, "sy"))
		c.Ops = append(c.Ops, sp)
		// pen and sub-path start in viewBox space, to build exact coincidences
		penX, penY := sp.Arg(0), sp.Arg(1)
		startX, startY := penX, penY
		n := rapid.IntRange(1, 40).Draw(t, "nops")
		for len(c.Ops) < 2000 && n > 0 {
			k := rapid.SampledFrom(gen.DrawVerbs[:16]).Draw(t, "verb")
			run := rapid.SampledFrom([]int{1, 1, 1, 2, 3, 5}).Draw(t, "run")
			for r := 0; r < run && n > 0; r++ {
				nf := num
				if k.IsRelative() {
					nf = numRel
				}
				o := gen.DrawOp(t, k, nf, "d")
				// sometimes a control point or target coincides exactly with the pen
				// or with the start of the sub-path (shared vertices, zero-length
				// relative offsets: ordinary in hand-written and exported paths)
				if na := k.NArgs(); na >= 2 && rapid.IntRange(0, 5).Draw(t, "coincide") == 0 {
					pair := 2 * rapid.IntRange(0, na/2-1).Draw(t, "pair")
					tx, ty := penX, penY
					if rapid.Bool().Draw(t, "tostart") {
						tx, ty = startX, startY
					}
					if k.IsRelative() {
						refX, refY := penX, penY
						if k == ops.ClosePathRelMoveTo {
							refX, refY = startX, startY
						}
						tx, ty = tx-refX, ty-refY
					}
					o.F[pair], o.F[pair+1] = ops.F32(tx), ops.F32(ty)
				}
				c.Ops = append(c.Ops, o)
				// track the pen (float32 arithmetic as a caller would do it)
				na := k.NArgs()
				switch {
				case k == ops.AbsHLineTo:
					penX = o.Arg(0)
				case k == ops.RelHLineTo:
					penX += o.Arg(0)
				case k == ops.AbsVLineTo:
					penY = o.Arg(0)
				case k == ops.RelVLineTo:
					penY += o.Arg(0)
				case k == ops.ClosePathAbsMoveTo:
					penX, penY = o.Arg(0), o.Arg(1)
					startX, startY = penX, penY
				case k == ops.ClosePathRelMoveTo:
					penX, penY = startX+o.Arg(0), startY+o.Arg(1)
					startX, startY = penX, penY
				case k.IsRelative():
					penX, penY = penX+o.Arg(na-2), penY+o.Arg(na-1)
				default:
					penX, penY = o.Arg(na-2), o.Arg(na-1)
				}
				n--
			}
		}
		c.Ops = append(c.Ops, ops.OpDraw(ops.ClosePathEndPath))
		c.Fills = append(c.Fills, rapid.SampledFrom([]int{0, 0, 0, 0, 1, 2, 3, 4}).Draw(t, "fill"))
	}
	if rapid.IntRange(0, 11).Draw(t, "longgap") == 0 {
		// one more path: a curve, then hundreds of operations that are no curves of that degree
		// (counts around 2^8, 2^9 and 2^10), then a smooth operation of the curve's degree: what the
		// smooth operation reflects depends on the operation right before it, however many there were
		cube := rapid.Bool().Draw(t, "lg.cube")
		n := rapid.SampledFrom([]int{255, 256, 257, 512, 1024}).Draw(t, "lg.n") - rapid.IntRange(0, 1).Draw(t, "lg.less")
		c.Ops = append(c.Ops, ops.OpStartPath(0, 1, 2))
		if cube {
			c.Ops = append(c.Ops, ops.OpDraw(ops.AbsCubeTo, 3, 9, 7, -4, 10, 5))
		} else {
			c.Ops = append(c.Ops, ops.OpDraw(ops.AbsQuadTo, 3, 9, 10, 5))
		}
		for i := 0; i < n; i++ {
			switch i % 3 {
			case 0:
				c.Ops = append(c.Ops, ops.OpDraw(ops.RelHLineTo, 0.25))
			case 1:
				c.Ops = append(c.Ops, ops.OpDraw(ops.RelLineTo, -0.25, 0.125))
			default:
				c.Ops = append(c.Ops, ops.OpDraw(ops.RelVLineTo, -0.125))
			}
		}
		if cube {
			c.Ops = append(c.Ops, ops.OpDraw(ops.RelSmoothCubeTo, 2, 3, 5, -1))
		} else {
			c.Ops = append(c.Ops, ops.OpDraw(ops.AbsSmoothQuadTo, 4, 4))
		}
		c.Ops = append(c.Ops, ops.OpDraw(ops.ClosePathEndPath))
		c.Fills = append(c.Fills, 0)
		c.LongGap = true
	}
	return c
}

func classify(c Case) (bool, []string) {
	rel, smooth, closeMove := false, false, false
	n := 0
	var prev ops.Kind = ops.Reset
	for _, o := range c.Ops {
		if o.K != ops.StartPath && o.K != ops.ClosePathEndPath {
			n++
		}
		if o.K.IsRelative() {
			rel = true
		}
		switch o.K {
		case ops.AbsSmoothQuadTo, ops.RelSmoothQuadTo, ops.AbsSmoothCubeTo, ops.RelSmoothCubeTo:
			smooth = true
		case ops.ClosePathAbsMoveTo, ops.ClosePathRelMoveTo:
			closeMove = true
		}
		if prev != ops.Reset {
			transitions[[2]ops.Kind{prev, o.K}] = true
		}
		prev = o.K
	}
	vb := vbOf(c)
	nonDefault := vb != [4]float32{-32, -32, 32, 32}
	sx := float64(c.Rect[2]) / float64(vb[2]-vb[0])
	sy := float64(c.Rect[3]) / float64(vb[3]-vb[1])
	nonUniform := math.Abs(sx/sy-1) > 0.1
	var labels []string
	if nonUniform {
		labels = append(labels, "non-uniform-scale")
	}
	if nonDefault {
		labels = append(labels, "non-default-viewbox")
		if m, w := math.Abs(float64(c.ViewBox[0])), float64(c.ViewBox[2])-float64(c.ViewBox[0]); m > 200*w {
			labels = append(labels, "viewbox-more-than-200-sizes-from-the-origin")
		}
	}
	if c.Rect[0] > 1<<23 || c.Rect[0] < -1<<23 || c.Rect[1] > 1<<23 {
		labels = append(labels, "rect-origin-beyond-2^24")
	}
	if c.Rect[2] > 65000 || c.Rect[3] > 65000 {
		labels = append(labels, "rect-side-beyond-16-bits")
	}
	if c.Rect[0] != 0 || c.Rect[1] != 0 {
		labels = append(labels, "rect-off-origin")
	}
	if c.NoPixels {
		labels = append(labels, "target-rectangle-without-pixels")
		if c.Rect[2] < 0 || c.Rect[3] < 0 {
			labels = append(labels, "target-rectangle-with-min-beyond-max")
		}
	}
	if vw, vh := float32(c.ViewBox[2])-float32(c.ViewBox[0]), float32(c.ViewBox[3])-float32(c.ViewBox[1]); !c.NoPixels && (vw != float32(int(vw)) || vh != float32(int(vh))) &&
		(c.Rect[2] == int(vw) || c.Rect[2] == int(vw)+1) && (c.Rect[3] == int(vh) || c.Rect[3] == int(vh)+1) {
		labels = append(labels, "fractional-viewbox-size-drawn-into-the-next-whole-number-of-pixels")
	}
	for _, f := range c.Fills {
		switch f {
		case 1:
			labels = append(labels, "path-right-after-one-that-is-not-drawn")
		case 2:
			labels = append(labels, "gradient-filled-path")
		case 3, 4:
			labels = append(labels, "gradient-filled-path-right-after-one-that-is-not-drawn")
		}
	}
	if c.LongGap {
		labels = append(labels, "hundreds-of-operations-between-a-curve-and-a-smooth-operation")
	}
	if c.RectAfterReset {
		labels = append(labels, "rectangle-given-after-the-viewbox")
	}
	if c.Logged {
		labels = append(labels, "through-RasterizerLogger")
	}
	if c.PrevRect[2] > 0 {
		labels = append(labels, "renderer-re-pointed")
		if c.PrevOpen {
			labels = append(labels, "earlier-use-stopped-inside-a-path")
		}
		if c.PrevViewBox[2] > c.PrevViewBox[0] {
			labels = append(labels, "earlier-use-had-another-viewbox")
		}
		if c.PrevRect[2] == c.Rect[2] && c.PrevRect[3] == c.Rect[3] && (c.PrevRect[0] != c.Rect[0] || c.PrevRect[1] != c.Rect[1]) {
			labels = append(labels, "re-pointed-same-size-other-origin")
		}
	}
	if smooth {
		labels = append(labels, "has-smooth-op")
	}
	if closeMove {
		labels = append(labels, "has-close-and-move")
	}
	return n >= 3 && rel && smooth && closeMove && (nonDefault || nonUniform), labels
}

func TestGeometry(t *testing.T) {
	harness.Rapid(t, harness.N(15000, 16*240000), func(t *rapid.T) {
		c := genCase(t)
		nt, labels := classify(c)
		subGeom.See(c, nt, harness.HashJSON(c), labels...)
		subGeom.Run(t, c)
	})
	subGeom.Label("verb-transition-cells-hit(of 306)", int64(len(transitions)))
}

// Every ordered pair of verbs, deterministically, after each possible
// predecessor kind (so smooth ops see quad, cubic and other predecessors).
func TestTransitionTable(t *testing.T) {
	harness.OnlyFirstShard(t)
	st := harness.Counter("transition-table", "every ordered pair of the 16 non-arc drawing verbs after every third verb (16^3 sequences) under two viewBox/rectangle maps, with fixed distinct arguments")
	n := int64(0)
	maps := []struct {
		vb   [4]ops.F32
		rect [4]int
	}{
		{[4]ops.F32{-32, -32, 32, 32}, [4]int{0, 0, 64, 64}},
		{[4]ops.F32{-10, 5, 30, 25}, [4]int{7, -3, 200, 50}},
	}
	mk := func(k ops.Kind, salt int) ops.Op {
		args := []float32{1.5, -2.25, 3, 4.5, -5.75, 6}
		for i := range args {
			args[i] += float32(salt) * 0.5
		}
		return ops.OpDraw(k, args[:k.NArgs()]...)
	}
	vs := gen.DrawVerbs[:16]
	for _, m := range maps {
		for _, a := range vs {
			for _, b := range vs {
				for _, d := range vs {
					c := Case{ViewBox: m.vb, Rect: m.rect, Ops: []ops.Op{ops.OpStartPath(0, -3, 2), mk(a, 1), mk(b, 2), mk(d, 3), ops.OpDraw(ops.ClosePathEndPath)}}
					n++
					if err := subGeom.Eval(c); err != nil {
						t.Fatalf("%v %v %v: %v", a, b, d, err)
					}
				}
			}
		}
	}
	st.AddEnumerated(n, n)
	st.SetExhaustive()
	st.AddSample(fmt.Sprintf("StartPath, %v, %v, %v, ClosePathEndPath", vs[9], vs[8], vs[1]))
}
