// C18 — independent decodes, renders and encodes are safe to run concurrently.
package c18

import (
	"bytes"
	"fmt"
	"hash/fnv"
	"image"
	"image/color"
	"image/draw"
	"os"
	"runtime"
	"sync"
	"testing"
	"time"

	"github.com/reactivego/ivg"
	"github.com/reactivego/ivg/decode"
	"github.com/reactivego/ivg/encode"
	"github.com/reactivego/ivg/generate"
	"github.com/reactivego/ivg/mdicons"
	"github.com/reactivego/ivg/raster"
	"github.com/reactivego/ivg/raster/vec"
	"github.com/reactivego/ivg/render"
	"golang.org/x/image/math/f32"
	"pgregory.net/rapid"

	"verif/internal/corpus"
	"verif/internal/gen"
	"verif/internal/harness"
	"verif/internal/ops"
	"verif/internal/rast"
)

func TestMain(m *testing.M) {
	// ivg.DestinationLogger and raster.RasterizerLogger print every call to os.Stdout: park it
	// (set once, before any goroutine starts).
	if f, err := os.OpenFile(os.DevNull, os.O_WRONLY, 0); err == nil {
		os.Stdout = f
	}
	harness.Main(m, "C18")
}

type Job struct {
	Kind  string `json:"kind"`
	Input int    `json:"input"` // index into the shared inputs
	Param int    `json:"param"`
}

type Case struct {
	Procs   int       `json:"gomaxprocs"`
	Lists   [][]Job   `json:"lists"`   // one list per goroutine
	Files   []string  `json:"files"`   // corpus graphics shared by all goroutines
	Streams []ops.Hex `json:"streams"` // generated graphics shared by all goroutines
}

var jobKinds = []string{"options", "arcs", "render", "transcode", "disassemble", "viewbox", "generate", "resolve", "aspect", "color1", "arcs", "pathdata", "recorder", "zeroenc", "validate", "keepmeta", "reuseenc", "reuseenc", "manystops", "nestedoption", "logged", "sharedramp", "zerorend", "hardstops"}

// shared state: one palette array read by everybody
var sharedPalette = func() [64]color.RGBA {
	p := ivg.DefaultPalette
	for i := range p {
		p[i] = color.RGBA{uint8(i * 3), uint8(i), uint8(i * 2), 0xff}
	}
	p[1] = color.RGBA{0x40, 0x20, 0x10, 0x80}
	// two entries that are not valid premultiplied colours (a caller may hold such a palette)
	p[5] = color.RGBA{0x80, 0x00, 0x00, 0x10}
	p[40] = color.RGBA{0x02, 0x4a, 0x8a, 0x00}
	return p
}()

// one transform list shared by every goroutine
var sharedTransforms = []generate.Aff3{generate.Scale(2)}

func hash(parts ...[]byte) uint64 {
	h := fnv.New64a()
	for _, p := range parts {
		h.Write(p)
		h.Write([]byte{0xff})
	}
	return h.Sum64()
}

// runJob performs one job on private destination objects over shared inputs
// and returns a digest of its result.
// worker: what one goroutine (one pipeline) keeps between its jobs. Reusing one's own objects
// sequentially is ordinary; they are never shared with another goroutine.
type worker struct {
	enc encode.Encoder
}

// sharedValidPalette: a premultiplied suggested palette that several Encoders are Reset with.
var sharedValidPalette = func() [64]color.RGBA {
	p := ivg.DefaultPalette
	for i := 0; i < 20; i++ {
		a := uint8(255 - 9*i)
		p[i] = color.RGBA{uint8(i * 3), uint8(int(a) * i / 20), a / 2, a}
	}
	return p
}()

// sharedOptions: decode options built once, from colours of several models.
var sharedOptions = newSharedOptions()

func newSharedOptions() []decode.DecodeOption {
	return []decode.DecodeOption{decode.WithColorAt(2, color.NRGBA{0x10, 0xff, 0x20, 0x90}), decode.WithColorAt(5, color.Gray16{0x8000}), decode.WithColorAt(63, color.RGBA{1, 2, 3, 0xff})}
}

// sharedStops: a caller-supplied stop list that several goroutines hand to the gradient helpers.
var sharedStops, sharedStopsCopy = func() ([]generate.GradientStop, []generate.GradientStop) {
	var a []generate.GradientStop
	for i := 0; i < 60; i++ {
		var c color.Color
		switch i % 4 {
		case 0:
			c = color.RGBA{uint8(i * 4), uint8(i), 0, 0xff}
		case 1:
			c = color.NRGBA{uint8(255 - i*3), 0x40, uint8(i * 2), uint8(0x80 + i)}
		case 2:
			c = color.Gray{uint8(i * 4)}
		default:
			c = color.RGBA64{uint16(i * 900), 0x1000, uint16(i * 300), 0xffff}
		}
		a = append(a, generate.GradientStop{Offset: float32(i) / 59, Color: c})
	}
	return a, append([]generate.GradientStop{}, a...)
}()

// sharedHardStops, sharedInitStops: stop lists with a hard colour step (two stops at the same
// offset) and with an offset out of order, shared by every goroutine; what a call makes of such
// a list is its business, the list is the caller's.
var sharedHardStops, sharedHardStopsCopy = func() ([]generate.GradientStop, []generate.GradientStop) {
	a := []generate.GradientStop{{Offset: 0, Color: color.RGBA{0xff, 0, 0, 0xff}}, {Offset: 0.5, Color: color.RGBA{0, 0xff, 0, 0xff}}, {Offset: 0.5, Color: color.RGBA{0, 0, 0xff, 0xff}},
		{Offset: 0.75, Color: color.Gray{0x80}}, {Offset: 0.625, Color: color.Gray{0x20}}, {Offset: 1, Color: color.RGBA{0xff, 0xff, 0xff, 0xff}}}
	return a, append([]generate.GradientStop{}, a...)
}()

var sharedInitStops, sharedInitStopsCopy = func() ([]render.Stop, []render.Stop) {
	st := func(o float64, r, g, b, a uint16) render.Stop {
		return render.Stop{Offset: o, RGBA64: color.RGBA64{R: r, G: g, B: b, A: a}}
	}
	a := []render.Stop{st(0, 0xffff, 0, 0, 0xffff), st(0.5, 0, 0xffff, 0, 0xffff), st(0.5, 0, 0, 0xffff, 0xffff), st(0.75, 0x8000, 0x8000, 0, 0x8000), st(0.625, 0, 0, 0, 0), st(1, 0xffff, 0xffff, 0xffff, 0xffff)}
	return a, append([]render.Stop{}, a...)
}()

// sharedRamp: colour ranges built once (hard steps included: stops that coincide, at the start
// and further in) and assigned to the Ranges field of a Gradient value per goroutine.
var sharedRamp, sharedRampCopy = func() ([]render.Range, []render.Range) {
	st := func(o float64, r, g, b, a uint16) render.Stop {
		return render.Stop{Offset: o, RGBA64: color.RGBA64{R: r, G: g, B: b, A: a}}
	}
	a := render.AppendRanges(nil, []render.Stop{st(0, 0xffff, 0, 0, 0xffff), st(0, 0, 0xffff, 0, 0xffff), st(0.25, 0, 0, 0xffff, 0xffff), st(0.5, 0x8000, 0x8000, 0, 0x8000), st(0.5, 0, 0, 0, 0), st(1, 0xffff, 0xffff, 0xffff, 0xffff)})
	return a, append([]render.Range{}, a...)
}()

func runJob(w *worker, j Job, inputs [][]byte) uint64 {
	in := inputs[j.Input%len(inputs)]
	switch j.Kind {
	case "nestedoption":
		// a caller-written option that decodes another graphic itself (to borrow its palette)
		other := inputs[(j.Input+1)%len(inputs)]
		var borrowed [64]color.RGBA
		var nestedErr error
		rec := &ops.Recorder{}
		err := decode.Decode(rec, in, func(m *ivg.Metadata) {
			nestedErr = decode.Decode(nil, other, decode.WithColorAt(j.Param%64, color.Gray{uint8(j.Param)}), func(n *ivg.Metadata) { borrowed = n.Palette })
			m.Palette[1] = borrowed[j.Param%64]
		})
		p := [64]color.RGBA{}
		if len(rec.Ops) > 0 {
			p = rec.Ops[0].Palette()
		}
		return hash([]byte(fmt.Sprint(p, len(rec.Ops), err, nestedErr)))
	case "keepmeta":
		// the caller keeps the metadata it was handed (the only way to learn the decoded palette
		// without a Destination) and reads it after Decode has returned
		var kept *ivg.Metadata
		err := decode.Decode(nil, in, func(m *ivg.Metadata) { kept = m })
		if kept == nil {
			return hash([]byte(fmt.Sprint(err)))
		}
		runtime.Gosched()
		return hash([]byte(fmt.Sprint(*kept, err)))
	case "reuseenc":
		// the goroutine's own Encoder, Reset for graphic after graphic: a large one with the default
		// metadata, small ones with a suggested palette that other goroutines' Encoders use too
		e := &w.enc
		n := 2
		switch j.Param % 3 {
		case 0:
			e.Reset(ivg.DefaultViewBox, sharedValidPalette)
		case 1:
			e.Reset(ivg.DefaultViewBox, ivg.DefaultPalette)
			n = 40 + j.Param%50
		default:
			e.Reset(ivg.ViewBox{MinX: -24, MinY: -24, MaxX: 24, MaxY: 24}, sharedValidPalette)
			n = 5
		}
		e.SetCReg(0, false, ivg.PaletteIndexColor(uint8(j.Param)))
		e.StartPath(0, float32(j.Param%20), 1)
		for i := 0; i < n; i++ {
			e.AbsLineTo(float32((i*7+j.Param)%50)-25, float32(i%13))
			e.RelSmoothQuadTo(1, float32(i%5))
		}
		e.ClosePathEndPath()
		b, err := e.Bytes()
		return hash(b, []byte(fmt.Sprint(err)))
	case "render":
		w := 16 + j.Param%48
		img := image.NewRGBA(image.Rect(0, 0, w+4, w+2))
		z := vec.NewRasterizer(img)
		var r render.Renderer
		r.SetRasterizer(z, image.Rect(2, 1, 2+w, 1+w))
		z.DrawOp = draw.Src
		err := decode.Decode(&r, in)
		return hash(img.Pix, []byte(fmt.Sprint(err)))
	case "transcode":
		var e encode.Encoder
		e.HighResolutionCoordinates = j.Param%2 == 0
		err := decode.Decode(&e, in)
		b, err2 := e.Bytes()
		return hash(b, []byte(fmt.Sprint(err, err2)))
	case "disassemble":
		b, err := decode.Disassemble(in)
		return hash(b, []byte(fmt.Sprint(err)))
	case "viewbox":
		vb, err := decode.DecodeViewBox(in)
		return hash([]byte(fmt.Sprint(vb, err)))
	case "logged":
		// the logging wrappers are destination objects like any other (their output is parked)
		rec := &ops.Recorder{}
		err := decode.Decode(&ivg.DestinationLogger{Destination: rec, Alt: j.Param%2 == 0}, in)
		rr := &rast.Recorder{}
		var r render.Renderer
		r.SetRasterizer(&raster.RasterizerLogger{Rasterizer: rr}, image.Rect(0, 0, 16+j.Param%48, 24))
		err2 := decode.Decode(&r, in)
		return hash([]byte(fmt.Sprint(rec.Ops)), []byte(fmt.Sprint(err, err2, len(rr.Calls))))
	case "sharedramp":
		// Gradient values of one's own over a ramp every goroutine shares: At is a reader
		var px []byte
		for k := 0; k < 8; k++ {
			g := render.Gradient{Shape: render.Shape(k / 4), Spread: render.Spread(k % 4), Pix2Grad: render.Aff3{1.0 / 16, 0, -0.25 - float64(j.Param%4)/8, 0, 1.0 / 16, -0.5}, Ranges: sharedRamp, First: color.RGBA64{R: 0xffff, A: 0xffff}, Last: color.RGBA64{R: 0xffff, G: 0xffff, B: 0xffff, A: 0xffff}}
			for y := 0; y < 12; y++ {
				for x := 0; x < 32; x++ {
					r, gg, b, a := g.At(x, y).RGBA()
					px = append(px, byte(r>>8), byte(gg>>8), byte(b>>8), byte(a>>8))
				}
			}
		}
		return hash(px)
	case "arcs":
		// the goroutine's own Renderer drawing arcs of many rotations, radii and flags
		rr := &rast.Recorder{NoLattice: true}
		var r render.Renderer
		r.SetRasterizer(rr, image.Rect(0, 0, 48+j.Param%16, 40))
		r.Reset(ivg.DefaultViewBox, ivg.DefaultPalette)
		r.StartPath(0, -20, -20)
		for i := 0; i < 40; i++ {
			rot := float32((i*7+j.Param)%120) / 120
			if i%2 == 0 {
				r.AbsArcTo(float32(3+i%9), float32(2+(i+j.Param)%11), rot, i%3 == 0, i%4 < 2, float32((i*5+j.Param)%50)-25, float32((i*11)%40)-20)
			} else {
				r.RelArcTo(float32(2+(i+j.Param)%7), float32(4+i%5), rot, i%5 == 0, i%4 >= 2, float32(i%9)-4, float32((i+j.Param)%7)-3)
			}
		}
		r.ClosePathEndPath()
		var acc []byte
		for _, cl := range rr.Calls {
			acc = append(acc, []byte(fmt.Sprint(cl.K, cl.F))...)
		}
		return hash(acc)
	case "hardstops":
		// the shared lists with a hard step and an offset out of order: through the Generator into
		// an Encoder and a Renderer (first 3, 4 or all 6 stops), and straight into Gradient.Init
		n := []int{3, 4, 6}[j.Param%3]
		var e encode.Encoder
		var g generate.Generator
		g.SetDestination(&e)
		g.Reset(ivg.DefaultViewBox, ivg.DefaultPalette)
		g.SetCSel(0)
		err1 := g.SetLinearGradient(-10, 0, 10, float32(j.Param%7), generate.GradientSpread(j.Param%4), sharedHardStops[:n])
		g.StartPath(0, -20, -20)
		g.AbsLineTo(20, 0)
		g.AbsLineTo(0, 20)
		g.ClosePathEndPath()
		b, err2 := e.Bytes()
		var gr render.Gradient
		ok := gr.Init(render.Shape(j.Param%2), render.Spread(j.Param%4), render.Aff3{0.05, 0, 0.1, 0, 0.05, 0}, sharedInitStops[:n])
		var px []byte
		for x := -5; x < 40; x++ {
			r, gg, bb, a := gr.At(x, j.Param%9).RGBA()
			px = append(px, byte(r>>8), byte(gg>>8), byte(bb>>8), byte(a>>8))
		}
		return hash(b, px, []byte(fmt.Sprint(err1, err2, ok)))
	case "manystops":
		// a gradient of 17-58 stops written by a Generator straight into a Renderer, from a stop
		// list (colours of several models) that every goroutine shares
		n := 17 + j.Param%42
		img := image.NewRGBA(image.Rect(0, 0, 24, 20))
		var z raster.Rasterizer = vec.NewRasterizer(img)
		rr := &rast.Recorder{}
		if j.Param%3 == 0 {
			z = rr // a rasteriser that reads the paint's configuration (stops, spread, transform) instead of its pixels
		}
		var r render.Renderer
		r.SetRasterizer(z, img.Bounds())
		var g generate.Generator
		g.SetDestination(&r)
		g.Reset(ivg.DefaultViewBox, ivg.DefaultPalette)
		err := g.SetLinearGradient(-30, float32(j.Param%9)-4, 30, 3, generate.GradientSpread(j.Param%4), sharedStops[:n])
		g.StartPath(0, -32, -32)
		g.AbsHLineTo(32)
		g.AbsVLineTo(32)
		g.AbsHLineTo(-32)
		g.ClosePathEndPath()
		cfg := ""
		for _, cl := range rr.Calls {
			if cl.P != nil {
				cfg += fmt.Sprint(cl.P.Offsets, cl.P.Colors, cl.P.Transform)
			}
		}
		return hash(img.Pix, []byte(fmt.Sprint(err)), []byte(cfg))
	case "generate":
		var e encode.Encoder
		var g generate.Generator
		g.SetDestination(&e)
		g.Reset(ivg.DefaultViewBox, ivg.DefaultPalette)
		stops := []generate.GradientStop{{Offset: 0, Color: color.RGBA{0xff, 0, 0, 0xff}}, {Offset: 0.5, Color: color.NRGBA{0, 0xff, 0, 0x80}}, {Offset: 1, Color: color.Gray{uint8(j.Param)}}}
		g.SetLinearGradient(-10, float32(j.Param%7), 10, 3, generate.GradientSpread(j.Param%4), stops)
		g.SetTransform(sharedTransforms...)
		err0 := g.SetPathData("M1 1h5v5H1z", 0)
		g.SetTransform(generate.Scale(2), generate.Translate(-32, -32))
		err := g.SetPathData("M4 4h20v20H4zm3 3l5,5-5 0z", uint8(j.Param%3))
		g.SetTransform()
		if err == nil {
			err = err0
		}
		g.SetCircularGradient(0, 0, 5, float32(j.Param%5)+1, generate.GradientSpreadPad, stops[:2])
		g.StartPath(0, -5, -5)
		g.AbsArcTo(5, 5, 0, true, false, 5, 5)
		g.ClosePathEndPath()
		b, err2 := e.Bytes()
		return hash(b, []byte(fmt.Sprint(err, err2)))
	case "validate":
		// validate-only decoding (nil Destination) with an option that looks at the metadata it is given
		var seen ivg.Metadata
		err := decode.Decode(nil, in, func(m *ivg.Metadata) { seen = *m }, decode.WithColorAt(j.Param%64, color.Gray{uint8(j.Param)}))
		return hash([]byte(fmt.Sprint(seen, err)))
	case "zerorend":
		// a Renderer whose first calls come before any Reset (the default palette is implied, as
		// for a zero-value Encoder), then Reset with a custom palette for a second graphic
		img := image.NewRGBA(image.Rect(0, 0, 24, 20))
		z := vec.NewRasterizer(img)
		var r render.Renderer
		r.SetRasterizer(z, img.Bounds())
		r.SetCReg(0, false, ivg.PaletteIndexColor(uint8(j.Param)))
		r.SetCReg(1, false, ivg.BlendColor(uint8(j.Param), 0x80|uint8(j.Param%64), 0x64))
		r.StartPath(1, -20, -20)
		r.AbsLineTo(20, float32(j.Param%30))
		r.AbsLineTo(-5, 25)
		r.ClosePathEndPath()
		first := append([]byte{}, img.Pix...)
		r.Reset(ivg.ViewBox{MinX: -24, MinY: -24, MaxX: 24, MaxY: 24}, sharedValidPalette)
		r.SetCReg(0, false, ivg.PaletteIndexColor(uint8(j.Param+1)))
		r.StartPath(0, -20, -20)
		r.AbsLineTo(20, float32(j.Param%30))
		r.AbsLineTo(-5, 25)
		r.ClosePathEndPath()
		return hash(first, img.Pix)
	case "zeroenc":
		// a zero-value Encoder, never Reset (the default metadata is implied)
		var e encode.Encoder
		e.StartPath(uint8(j.Param%7), float32(j.Param%50), float32(j.Param%31)-20)
		e.AbsLineTo(float32(j.Param%13), 5)
		e.RelHLineTo(float32(j.Param % 9))
		e.ClosePathEndPath()
		b, err := e.Bytes()
		return hash(b, []byte(fmt.Sprint(err)))
	case "resolve":
		creg := sharedPalette
		var acc []byte
		for t := 0; t < 64; t++ {
			c := ivg.BlendColor(uint8(t*4+j.Param), uint8(0x80+t), uint8(0xc0+(t+j.Param)%64)).Resolve(&sharedPalette, &creg)
			acc = append(acc, c.R, c.G, c.B, c.A)
			// ... and of two direct one-byte colours
			c = ivg.BlendColor(uint8(t*3+j.Param), uint8((t+j.Param)%128), uint8((t*7+j.Param)%128)).Resolve(&sharedPalette, &creg)
			acc = append(acc, c.R, c.G, c.B, c.A)
			c = ivg.PaletteIndexColor(uint8(t)).Resolve(&sharedPalette, &creg)
			acc = append(acc, c.R, c.G, c.B, c.A)
		}
		return hash(acc)
	case "aspect":
		a, b, c, d := ivg.DefaultViewBox.AspectMeet(float32(100+j.Param), 50, ivg.Mid, ivg.Max)
		e, f, g, h := ivg.DefaultMetadata.ViewBox.AspectSlice(30, float32(10+j.Param), ivg.Min, ivg.Mid)
		sx, sy := ivg.DefaultViewBox.Size()
		return hash([]byte(fmt.Sprint(a, b, c, d, e, f, g, h, sx, sy)))
	case "color1":
		var acc []byte
		for x := 0; x < 256; x++ {
			c := ivg.DecodeColor1(byte(x))
			acc = append(acc, []byte(c.String())...)
			if e, ok := c.Encode1(); ok {
				acc = append(acc, e)
			}
		}
		return hash(acc)
	case "options":
		rec := &ops.Recorder{}
		opts := []decode.DecodeOption{decode.WithPalette(sharedPalette), decode.WithColorAt(j.Param%64, color.NRGBA{0xff, 0, 0, 0x80})}
		if j.Param%2 == 0 {
			opts = sharedOptions // option values built once (a theme) and used by every goroutine
			if j.Param%4 == 2 {
				opts = sharedOptions[:2] // ... or only its first entries (a sub-slice with spare capacity)
			}
		}
		err := decode.Decode(rec, in, opts...)
		p := [64]color.RGBA{}
		if len(rec.Ops) > 0 {
			p = rec.Ops[0].Palette()
		}
		return hash([]byte(fmt.Sprint(p, len(rec.Ops), err)))
	case "pathdata":
		rec := &ops.Recorder{}
		err := mdicons.ParsePathData(rec, "M12 2C6.48 2 2 6.48 2 12s4.48 10 10 10 10-4.48 10-10S17.52 2 12 2zm1 15h-2v-6h2v6z", uint8(j.Param%7), 24, f32.Vec2{0, 0}, 48)
		return hash([]byte(fmt.Sprint(rec.Ops, err)))
	default: // recorder
		rec := &ops.Recorder{}
		err := decode.Decode(rec, in)
		return hash([]byte(fmt.Sprint(len(rec.Ops), err)), []byte(fmt.Sprint(rec.Ops)))
	}
}

var raceLog = os.Getenv("VERIF_RACE_LOG")

func raceLogSize() int64 {
	if raceLog == "" {
		return 0
	}
	fi, err := os.Stat(fmt.Sprintf("%s.%d", raceLog, os.Getpid()))
	if err != nil {
		return 0
	}
	return fi.Size()
}

func raceLogTail(from int64) string {
	b, err := os.ReadFile(fmt.Sprintf("%s.%d", raceLog, os.Getpid()))
	if err != nil || int64(len(b)) <= from {
		return ""
	}
	b = b[from:]
	if len(b) > 3000 {
		b = b[:3000]
	}
	return string(b)
}

// wedged: a concurrent phase never finished (pipelines waiting for each other). Nothing that
// decodes can be trusted to return in this process any more.
var wedged error

func checkConcurrent(c Case) error {
	if wedged != nil {
		return wedged
	}
	// shared inputs
	var inputs [][]byte
	byName := map[string][]byte{}
	for _, f := range corpus.All() {
		byName[f.Name] = f.Data
	}
	for _, n := range c.Files {
		if d, ok := byName[n]; ok {
			inputs = append(inputs, d)
		}
	}
	for _, s := range c.Streams {
		inputs = append(inputs, []byte(s))
	}
	if len(inputs) == 0 {
		inputs = append(inputs, []byte{0x89, 'I', 'V', 'G', 0x00})
	}
	copies := make([][]byte, len(inputs))
	for i, in := range inputs {
		copies[i] = append([]byte{}, in...)
	}
	palCopy := sharedPalette
	defPal, defVB, defMeta, magic := ivg.DefaultPalette, ivg.DefaultViewBox, ivg.DefaultMetadata, append([]byte{}, ivg.MagicBytes...)

	// the theme every goroutine of this case shares is built anew for the case: whatever an option
	// value sets up on first use, it sets up while several goroutines use it
	sharedOptions = newSharedOptions()
	before := raceLogSize()
	old := runtime.GOMAXPROCS(c.Procs)
	got := make([][]uint64, len(c.Lists))
	var wg sync.WaitGroup
	start := make(chan struct{})
	for g, list := range c.Lists {
		got[g] = make([]uint64, len(list))
		wg.Add(1)
		go func(g int, list []Job) {
			defer wg.Done()
			<-start
			var w worker
			for i, j := range list {
				got[g][i] = runJob(&w, j, inputs)
			}
		}(g, list)
	}
	close(start)
	finished := make(chan struct{})
	go func() { wg.Wait(); close(finished) }()
	select {
	case <-finished:
	case <-time.After(3 * time.Minute): // the phase takes a second or two
		runtime.GOMAXPROCS(old)
		wedged = harness.Violatef("c18/deadlock", "%d goroutines running independent pipelines did not finish within three minutes: pipelines wait for each other", len(c.Lists))
		return wedged
	}
	runtime.GOMAXPROCS(old)

	// serial results, computed after the concurrent phase so that the first case of a process
	// meets the packages cold (state built lazily on first use is then built under concurrency)
	want := make([][]uint64, len(c.Lists))
	for g, list := range c.Lists {
		want[g] = make([]uint64, len(list))
		var w worker
		for i, j := range list {
			want[g][i] = runJob(&w, j, inputs)
		}
	}
	if raceLogSize() > before {
		return harness.Violatef("c18/data-race", "the race detector reported a data race while %d goroutines ran independent pipelines over shared inputs:\n%s", len(c.Lists), raceLogTail(before))
	}
	for g := range want {
		for i := range want[g] {
			if got[g][i] != want[g][i] {
				return harness.Violatef("c18/result-differs", "goroutine %d job %d (%+v) gives a different result when run concurrently than when run alone", g, i, c.Lists[g][i])
			}
		}
	}
	for i := range inputs {
		if !bytes.Equal(inputs[i], copies[i]) {
			return harness.Violatef("c18/input-modified", "shared input %d was modified", i)
		}
	}
	if len(sharedTransforms) != 1 || sharedTransforms[0] != generate.Scale(2) {
		return harness.Violatef("c18/transforms-modified", "the shared caller-supplied transform list was modified: %v", sharedTransforms)
	}
	for i := range sharedStops {
		if sharedStops[i] != sharedStopsCopy[i] {
			return harness.Violatef("c18/stops-modified", "the shared caller-supplied gradient stop list was modified: stop %d is now %#v", i, sharedStops[i])
		}
	}
	for i := range sharedHardStops {
		if sharedHardStops[i] != sharedHardStopsCopy[i] {
			return harness.Violatef("c18/stops-modified", "the shared caller-supplied gradient stop list (hard step, offset out of order) was modified: stop %d is now %#v", i, sharedHardStops[i])
		}
	}
	for i := range sharedInitStops {
		if sharedInitStops[i] != sharedInitStopsCopy[i] {
			return harness.Violatef("c18/stops-modified", "the shared stop list given to Gradient.Init was modified: stop %d is now %+v", i, sharedInitStops[i])
		}
	}
	for i := range sharedRamp {
		if sharedRamp[i] != sharedRampCopy[i] {
			return harness.Violatef("c18/ranges-modified", "the colour ranges shared by several Gradient values were modified: range %d is now %+v", i, sharedRamp[i])
		}
	}
	if sharedPalette != palCopy {
		return harness.Violatef("c18/palette-modified", "the shared caller-supplied palette was modified")
	}
	if ivg.DefaultPalette != defPal || ivg.DefaultViewBox != defVB || ivg.DefaultMetadata != defMeta || !bytes.Equal(ivg.MagicBytes, magic) {
		return harness.Violatef("c18/package-variable-modified", "a package-level default (DefaultPalette/DefaultViewBox/DefaultMetadata/MagicBytes) was modified")
	}
	return nil
}

var subConc = harness.Define("concurrent", "N in {2,4,8,16,32} goroutines x GOMAXPROCS in {2,4,16}, each running a generated list of independent jobs (Decode->Renderer->raster/vec, Decode->Encoder, Disassemble, DecodeViewBox, Generator->Encoder, Color.Resolve, AspectMeet/Slice, DecodeColor1, Decode with palette options, Decode without a Destination and an option that looks at the metadata, ParsePathData, Decode->recorder, zero-value Encoder, the goroutine's own Encoder Reset for graphic after graphic with metadata other goroutines use too, a caller keeping the metadata handed to its option, 17-58-stop gradients from one shared stop list of several colour models through Generator->Renderer, Decode through DestinationLogger and RasterizerLogger with stdout parked, Gradient values over one shared list of colour ranges with hard steps); the concurrent phase runs before the serial reference, so the first case of every process meets the packages cold over shared corpus graphics, generated streams, graphics cut off in the middle, one shared palette and the package-level defaults, built with -race: no race report, every result equals the serial result, shared inputs and package variables unchanged; non-trivial = at least two goroutines share an input", checkConcurrent)

func TestConcurrent(t *testing.T) {
	all := corpus.All()
	cases := harness.N(20, 4*150)
	if !harness.Thorough() {
		cases = 20/harness.Shards() + 1 // the quick tier spreads its cases over several cold processes
	}
	harness.Rapid(t, cases, func(t *rapid.T) {
		var c Case
		c.Procs = rapid.SampledFrom([]int{2, 4, 16}).Draw(t, "procs")
		n := rapid.SampledFrom([]int{2, 4, 8, 16, 32}).Draw(t, "goroutines")
		nf := rapid.IntRange(1, 6).Draw(t, "files")
		for i := 0; i < nf; i++ {
			c.Files = append(c.Files, all[rapid.IntRange(0, len(all)-1).Draw(t, "file")].Name)
		}
		ns := rapid.IntRange(0, 3).Draw(t, "streams")
		for i := 0; i < ns; i++ {
			b, _, _ := gen.Stream(t, gen.StreamCfg{AllowOpen: true, MaxRun: 10})
			// keep generated inputs renderable by x/image/vector in reasonable time: grid coordinates only
			c.Streams = append(c.Streams, b)
		}
		// graphics cut off in the middle (an operation that fails half-way leaves nothing behind
		// for the next one, in whatever goroutine that runs)
		for i := 0; i < 2; i++ {
			d := all[rapid.IntRange(0, len(all)-1).Draw(t, "cutfile")].Data
			c.Streams = append(c.Streams, append([]byte{}, d[:len(d)*rapid.IntRange(3, 7).Draw(t, "cutat")/8]...))
			ns++
		}
		jobs := harness.N(24, 60)
		for g := 0; g < n; g++ {
			var list []Job
			// every goroutine starts with one job of each kind, in the same order right after the
			// start signal: whatever is built on first use is first used from several goroutines
			// at once (every second goroutine starts the round at another kind)
			seen := map[string]bool{}
			for i := range jobKinds {
				k := jobKinds[(i+(g%2)*(g/2))%len(jobKinds)]
				if seen[k] {
					continue
				}
				seen[k] = true
				list = append(list, Job{Kind: k, Input: (i + g) % (nf + ns), Param: 6 * (i % 7)})
				if k == "render" && list[len(list)-1].Input >= nf {
					list[len(list)-1].Input %= nf
				}
			}
			for i := 0; i < jobs; i++ {
				k := rapid.SampledFrom(jobKinds).Draw(t, "kind")
				j := Job{Kind: k, Input: rapid.IntRange(0, nf+ns-1).Draw(t, "input"), Param: rapid.IntRange(0, 255).Draw(t, "param")}
				if k == "render" && j.Input >= nf {
					j.Input = j.Input % nf // generated streams carry hostile coordinates: render corpus graphics only
				}
				list = append(list, j)
			}
			c.Lists = append(c.Lists, list)
		}
		subConc.See(c, true, harness.HashJSON(c), fmt.Sprintf("goroutines=%d", n), fmt.Sprintf("gomaxprocs=%d", c.Procs))
		subConc.Run(t, c)
	})
}
