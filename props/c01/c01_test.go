// C01 — encode then decode reproduces the drawing program (and back again).
package c01

import (
	"bytes"
	"fmt"
	"image/color"
	"math"
	"testing"

	"github.com/reactivego/ivg"
	"github.com/reactivego/ivg/decode"
	"github.com/reactivego/ivg/encode"
	"pgregory.net/rapid"

	"verif/internal/corpus"
	"verif/internal/gen"
	"verif/internal/harness"
	"verif/internal/ops"
	"verif/internal/spec"
)

func TestMain(m *testing.M) { harness.Main(m, "C01") }

const keyD10 = "c01/zero-to-one-grid-stored-long"

// ---------------------------------------------------------------- numeric rules

type numClass int

const (
	numCoord numClass = iota // path coordinate / arc radius (quantised in low resolution)
	numReal                  // LOD
	numNReg                  // shortest of real / coordinate / zero-to-one
	numAngle                 // arc rotation, modulo one turn
	numVBox                  // viewBox member: coordinate form, never quantised
)

var excludedD10, byteStable, byteUnstable int64

// z2oGridStoredLong: the original is exactly a short zero-to-one value, came
// back different but within 3 ulp: finding D10.
func z2oGridStoredLong(orig, got float32) bool {
	w, _ := spec.ExactWidth(spec.ZeroToOne, orig)
	return w < 4 && orig != got && spec.ThirtyBitRule(orig, got, 3)
}

// numOK applies the per-kind rule of DESIGN §C01. lowRes says whether the
// encoder quantises coordinates for this path.
func numOK(class numClass, lowRes bool, orig, got float32) (bool, string) {
	exactOrThirty := func(kinds ...spec.NumKind) (bool, string) {
		for _, k := range kinds {
			if w, _ := spec.ExactWidth(k, orig); w < 4 {
				if got == orig {
					return true, ""
				}
				if k == spec.ZeroToOne && z2oGridStoredLong(orig, got) {
					return false, keyD10
				}
				return false, fmt.Sprintf("exactly representable as a short %v number but came back as %v", k, ops.F32(got))
			}
		}
		// A value with its two low mantissa bits clear is exact in the 4-byte
		// form. Where the encoder may pick a zero-to-one form it can still
		// choose a 2-byte spelling that is a fraction of an ulp off (its
		// exactness test is a rounded float32 product): inside "30-bit
		// floats", so only the forms without that choice are held to exactness.
		z2oChoice := false
		for _, k := range kinds {
			z2oChoice = z2oChoice || k == spec.ZeroToOne
		}
		if math.Float32bits(orig)&3 == 0 && orig == orig && !z2oChoice {
			if ops.SameF32(orig, got) {
				return true, ""
			}
			return false, fmt.Sprintf("has no low mantissa bits set but came back as %v", ops.F32(got))
		}
		if spec.ThirtyBitRule(orig, got, 3) {
			return true, ""
		}
		return false, fmt.Sprintf("came back as %v: outside the 30-bit float rule (same sign, <= 3 ulp, Inf kept, NaN non-finite)", ops.F32(got))
	}
	switch class {
	case numCoord:
		if lowRes && orig >= -128 && orig < 128 {
			y := 64 * float64(orig)
			g := 64 * float64(got)
			if g != math.Trunc(g) {
				return false, fmt.Sprintf("low-resolution coordinate came back as %v, not a multiple of 1/64", ops.F32(got))
			}
			slack := math.Ldexp(1, math.Ilogb(math.Abs(y)+0.5)-23)
			if math.Abs(y)+0.5 < 1 {
				slack = math.Ldexp(1, -24)
			}
			if math.Abs(g-y) > 0.5+slack {
				return false, fmt.Sprintf("low-resolution coordinate came back as %v, not the nearest multiple of 1/64", ops.F32(got))
			}
			return true, ""
		}
		return exactOrThirty(spec.Coordinate)
	case numVBox:
		return exactOrThirty(spec.Coordinate)
	case numReal:
		return exactOrThirty(spec.Real)
	case numNReg:
		return exactOrThirty(spec.Real, spec.Coordinate, spec.ZeroToOne)
	case numAngle:
		o := float64(orig)
		if math.IsNaN(o) || math.IsInf(o, 0) {
			g := float64(got)
			if math.IsNaN(g) || math.IsInf(g, 0) {
				return true, ""
			}
			return false, fmt.Sprintf("non-finite rotation came back finite (%v)", ops.F32(got))
		}
		fo := o - math.Floor(o)
		g := float64(got)
		if math.IsNaN(g) || math.IsInf(g, 0) {
			return false, "finite rotation came back non-finite"
		}
		fg := g - math.Floor(g)
		d := math.Abs(fo - fg)
		if d > 0.5 {
			d = 1 - d
		}
		if d > 1e-6 {
			return false, fmt.Sprintf("rotation came back as %v: differs by %g of a turn", ops.F32(got), d)
		}
		// exactly representable short values survive unchanged
		if orig >= 0 && orig < 1 {
			if w, _ := spec.ExactWidth(spec.ZeroToOne, orig); w < 4 && got != orig {
				if z2oGridStoredLong(orig, got) {
					return false, keyD10
				}
				return false, fmt.Sprintf("rotation exactly representable in a short form came back as %v", ops.F32(got))
			}
		}
		return true, ""
	}
	return false, "?"
}

func classOf(k ops.Kind, i int) numClass {
	switch k {
	case ops.SetLOD:
		return numReal
	case ops.SetNReg:
		return numNReg
	case ops.AbsArcTo, ops.RelArcTo:
		if i == 2 {
			return numAngle
		}
	}
	return numCoord
}

// compareOps checks got (decoded) against want (original) under the rules.
// lowRes(i) tells whether op i belongs to a low-resolution path.
func compareOps(got, want []ops.Op, lowRes func(i int) bool) error {
	if len(got) != len(want) {
		n := len(got)
		if len(want) < n {
			n = len(want)
		}
		for i := 0; i < n; i++ {
			if got[i].K != want[i].K {
				return harness.Violatef("c01/ops", "op %d: decoded %v, original %v (and counts differ: %d vs %d)", i, got[i], want[i], len(got), len(want))
			}
		}
		return harness.Violatef("c01/op-count", "decoded %d operations, original has %d", len(got), len(want))
	}
	for i := range want {
		g, w := got[i], want[i]
		if g.K != w.K || g.Adj != w.Adj || g.Incr != w.Incr || g.LargeArc != w.LargeArc || g.Sweep != w.Sweep || len(g.F) != len(w.F) {
			return harness.Violatef("c01/ops", "op %d: decoded %v, original %v", i, g, w)
		}
		if (w.K == ops.SetCSel || w.K == ops.SetNSel) && g.Sel != w.Sel&0x3f {
			return harness.Violatef("c01/ops", "op %d: decoded %v, original %v", i, g, w)
		}
		if w.C != nil && (g.C == nil || *g.C != *w.C) {
			return harness.Violatef("c01/colour", "op %d: decoded %v, original %v", i, g, w)
		}
		if w.K == ops.Reset {
			gv, wv := g.VB, w.VB
			for j := 0; j < 4; j++ {
				if ok, why := numOK(numVBox, false, float32(wv[j]), float32(gv[j])); !ok {
					return harness.Violatef("c01/viewbox", "viewBox member %d = %v %s", j, wv[j], why)
				}
			}
			if g.Palette() != w.Palette() {
				gp, wp := g.Palette(), w.Palette()
				for j := range gp {
					if gp[j] != wp[j] {
						return harness.Violatef("c01/palette", "suggested palette entry %d: decoded %v, original %v", j, gp[j], wp[j])
					}
				}
			}
			continue
		}
		for j := range w.F {
			ok, why := numOK(classOf(w.K, j), lowRes(i), float32(w.F[j]), float32(g.F[j]))
			if ok {
				continue
			}
			if why == keyD10 {
				if harness.IsKnown(keyD10) {
					excludedD10++
					continue
				}
				return harness.Violatef(keyD10, "op %d (%v) operand %d = %v is exactly a short zero-to-one value but is stored in 4 bytes and came back as %v", i, w.K, j, w.F[j], g.F[j])
			}
			return harness.Violatef("c01/number", "op %d (%v) operand %d = %v %s", i, w.K, j, w.F[j], why)
		}
	}
	return nil
}

// ---------------------------------------------------------------- (a) program -> bytes -> program

type ProgCase struct {
	ViewBox [4]ops.F32  `json:"viewbox"`
	Palette ops.Palette `json:"palette"`
	Ops     []ops.Op    `json:"ops"`
	HiRes   []bool      `json:"hires"` // per path
	// MidPathToggle: op indices (inside paths) after which the public
	// HighResolutionCoordinates field is flipped; the resolution is latched at
	// StartPath, so this must not change anything.
	MidPathToggle []int `json:"mid_path_toggle,omitempty"`
	// ZeroValue: use a zero-value Encoder instead of Reset (default metadata only).
	ZeroValue bool `json:"zero_value,omitempty"`
	// Reads: op indices after which the three read-only Destination methods
	// (CSel, NSel, LOD) are called, inside paths too; reading changes nothing.
	Reads []int `json:"reads,omitempty"`
}

func encodeProgram(c ProgCase, zeroValue bool) ([]byte, []bool, error) {
	var enc encode.Encoder
	vb := ivg.ViewBox{MinX: float32(c.ViewBox[0]), MinY: float32(c.ViewBox[1]), MaxX: float32(c.ViewBox[2]), MaxY: float32(c.ViewBox[3])}
	if !zeroValue {
		enc.Reset(vb, [64]color.RGBA(c.Palette))
	}
	lowRes := make([]bool, len(c.Ops)+1)
	path := -1
	cur := true
	toggle := map[int]bool{}
	for _, k := range c.MidPathToggle {
		toggle[k] = true
	}
	reads := map[int]bool{}
	for _, k := range c.Reads {
		reads[k] = true
	}
	inPath := false
	for i, o := range c.Ops {
		if o.K == ops.StartPath {
			path++
			hi := path < len(c.HiRes) && c.HiRes[path]
			enc.HighResolutionCoordinates = hi
			cur = !hi
			inPath = true
		}
		lowRes[i+1] = cur
		ops.Apply(&enc, o)
		if o.K == ops.ClosePathEndPath {
			inPath = false
		}
		if inPath && toggle[i] {
			enc.HighResolutionCoordinates = !enc.HighResolutionCoordinates
		}
		if reads[i] {
			enc.CSel()
			enc.NSel()
			enc.LOD()
		}
	}
	b, err := enc.Bytes()
	return append([]byte{}, b...), lowRes, err
}

func checkRoundTrip(c ProgCase) error {
	b, lowRes, err := encodeProgram(c, c.ZeroValue)
	if err != nil {
		return harness.Violatef("c01/bytes-error", "Bytes() failed for a well-formed program: %v", err)
	}
	rec := &ops.Recorder{}
	if err := decode.Decode(rec, b); err != nil {
		return harness.Violatef("c01/decode-error", "decoder rejects the encoder's output (%v): %x", err, b)
	}
	vb := ivg.ViewBox{MinX: float32(c.ViewBox[0]), MinY: float32(c.ViewBox[1]), MaxX: float32(c.ViewBox[2]), MaxY: float32(c.ViewBox[3])}
	want := append([]ops.Op{ops.OpReset(vb, [64]color.RGBA(c.Palette))}, c.Ops...)
	if err := compareOps(rec.Ops, want, func(i int) bool { return lowRes[i] }); err != nil {
		return err
	}
	// and the independent reference reads the same thing out of the bytes
	if p := spec.Parse(b); !p.OK {
		return harness.Violatef("c01/ill-formed-output", "encoder output is not well formed: %s at %d", p.Err, p.ErrPos)
	} else if d := ops.DiffOps(rec.Ops, p.Ops); d != "" {
		return harness.Violatef("c01/reference-disagrees", "%s", d)
	}
	return nil
}

var subRound = harness.Define("roundtrip", "generated protocol-respecting programs (all 30 methods, ADJ 0-6 and increment forms, runs 1-80, every colour kind, numbers of every float class) x per-path {low,high} resolution x {default,custom} viewBox and premultiplied suggested palette -> Encoder -> Decode -> per-kind numeric rule; non-trivial = has a path and one of: run beyond the opcode limit, arc, non-finite/out-of-short-range number, increment form, indirect colour, custom metadata", checkRoundTrip)

func genProgCase(t *rapid.T) (ProgCase, []string) {
	var c ProgCase
	labels := []string{}
	if rapid.Bool().Draw(t, "customvb") {
		vb := gen.ViewBox(t, "vb", true)
		for i, v := range vb {
			c.ViewBox[i] = ops.F32(v)
		}
		labels = append(labels, "custom-viewbox")
	} else {
		c.ViewBox = [4]ops.F32{-32, -32, 32, 32}
	}
	if rapid.Bool().Draw(t, "custompal") {
		c.Palette = gen.Palette(t, "pal", true)
		labels = append(labels, "custom-palette")
	} else {
		c.Palette = ops.DefaultPalette()
	}
	num := gen.Float32Any
	switch rapid.IntRange(0, 3).Draw(t, "numclass") {
	case 0:
		num = func(t *rapid.T, l string) float32 { return gen.Moderate(t, l, 150) }
	case 1:
		num = func(t *rapid.T, l string) float32 { return gen.Grid(t, l, 127) }
	}
	c.Ops = gen.Program(t, gen.ProgCfg{Num: num})
	inPath := false
	for i, o := range c.Ops {
		if o.K == ops.StartPath {
			c.HiRes = append(c.HiRes, rapid.Bool().Draw(t, "hires"))
			inPath = true
		}
		if o.K == ops.ClosePathEndPath {
			inPath = false
		}
		if inPath && rapid.IntRange(0, 15).Draw(t, "toggle") == 0 {
			c.MidPathToggle = append(c.MidPathToggle, i)
		}
	}
	if len(c.MidPathToggle) > 0 {
		labels = append(labels, "resolution-flag-flipped-mid-path")
	}
	if rapid.IntRange(0, 2).Draw(t, "hasReads") == 0 && len(c.Ops) > 0 {
		n := rapid.IntRange(1, 4).Draw(t, "nreads")
		inside := false
		for j := 0; j < n; j++ {
			k := rapid.IntRange(0, len(c.Ops)-1).Draw(t, "readAt")
			c.Reads = append(c.Reads, k)
			if c.Ops[k].K.IsDrawing() && c.Ops[k].K != ops.ClosePathEndPath || c.Ops[k].K == ops.StartPath {
				inside = true
			}
		}
		if inside {
			labels = append(labels, "selector-read-inside-path")
		} else {
			labels = append(labels, "selector-read-between-paths")
		}
	}
	if len(labels) == 0 || (len(labels) == 1 && labels[0] == "resolution-flag-flipped-mid-path") {
		if c.ViewBox == [4]ops.F32{-32, -32, 32, 32} && c.Palette == ops.DefaultPalette() && rapid.Bool().Draw(t, "zerovalue") {
			c.ZeroValue = true
			labels = append(labels, "zero-value-encoder")
		}
	}
	return c, labels
}

func classifyProg(c ProgCase, labels []string) (bool, []string) {
	paths, interesting := 0, len(labels) > 0
	run, prev := 0, ops.Kind(255)
	add := func(l string) {
		for _, x := range labels {
			if x == l {
				return
			}
		}
		labels = append(labels, l)
		interesting = true
	}
	for _, o := range c.Ops {
		if o.K == ops.StartPath {
			paths++
		}
		if o.K == prev {
			run++
		} else {
			run, prev = 1, o.K
		}
		if _, max := spec.DrawOpcode(o.K); max > 1 && run > max {
			add("run-beyond-opcode-limit")
		}
		if o.K == ops.AbsArcTo || o.K == ops.RelArcTo {
			add("arc")
		}
		if o.Incr {
			add("increment-form")
		}
		if o.C != nil && o.C.T != 0 {
			add("indirect-colour")
		}
		for _, f := range o.F {
			v := float32(f)
			if v != v || v-v != 0 {
				add("non-finite-number")
			} else if v < -128 || v >= 128 {
				add("out-of-short-range-number")
			}
		}
	}
	for _, h := range c.HiRes {
		if h {
			add("high-resolution-path")
			break
		}
	}
	return paths > 0 && interesting, labels
}

func TestRoundTrip(t *testing.T) {
	harness.Rapid(t, harness.N(8000, 16*80000), func(t *rapid.T) {
		c, labels := genProgCase(t)
		nt, labels := classifyProg(c, labels)
		subRound.See(c, nt, harness.HashJSON(c), labels...)
		subRound.Run(t, c)
	})
}

// ---------------------------------------------------------------- (b) bytes -> Encoder -> bytes

type StreamCase struct {
	Bytes ops.Hex `json:"bytes"`
}

type keepRes struct{ encode.Encoder }

func (e *keepRes) Reset(vb ivg.ViewBox, pal [64]color.RGBA) {
	orig := e.HighResolutionCoordinates
	e.Encoder.Reset(vb, pal)
	e.HighResolutionCoordinates = orig
}

func transcode(b []byte, hi bool) ([]byte, error, error) { return transcodeUsed(b, hi, 0) }

// transcodeUsed hands Decode an Encoder that was used before: used = 1 after a
// history that ended in an error, 2 after one abandoned inside a path with a
// run pending, 3 after a complete graphic whose bytes were taken. Decode
// starts with Reset, so none of it may show.
func transcodeUsed(b []byte, hi bool, used int) ([]byte, error, error) {
	var out []byte
	var derr, berr error
	dirty := func(e *encode.Encoder) {
		switch used {
		case 1:
			e.AbsLineTo(1, 1) // drawing outside a path
			e.SetCSel(3)
		case 2:
			e.SetNSel(5)
			e.SetLOD(1, 2)
			e.StartPath(0, 1, 2)
			e.AbsLineTo(3, 4)
			e.AbsLineTo(5, 6)
		case 3:
			e.Reset(ivg.ViewBox{MinX: 0, MinY: 0, MaxX: 8, MaxY: 9}, [64]color.RGBA{{1, 1, 1, 1}})
			e.StartPath(0, 1, 2)
			e.ClosePathEndPath()
			e.Bytes()
		}
	}
	if hi {
		var e keepRes
		dirty(&e.Encoder)
		e.HighResolutionCoordinates = true
		derr = decode.Decode(&e, b)
		out, berr = e.Bytes()
	} else {
		var e encode.Encoder
		dirty(&e)
		derr = decode.Decode(&e, b)
		out, berr = e.Bytes()
	}
	return append([]byte{}, out...), derr, berr
}

func checkTranscode(c StreamCase) error {
	src := []byte(c.Bytes)
	rec := &ops.Recorder{}
	if err := decode.Decode(rec, src); err != nil {
		return nil // the converse quantifies over accepted streams only
	}
	for _, hi := range []bool{false, true} {
		name := map[bool]string{false: "low-resolution", true: "resolution-preserving"}[hi]
		t1, derr, berr := transcode(src, hi)
		if derr != nil {
			return harness.Violatef("c01/transcode-decode-error", "%s: Decode into an Encoder failed: %v", name, derr)
		}
		if berr != nil {
			return harness.Violatef("c01/transcode-bytes-error", "%s: Encoder.Bytes failed on an accepted stream: %v", name, berr)
		}
		for used := 1; used <= 3; used++ {
			tu, derr, berr := transcodeUsed(src, hi, used)
			if derr != nil || berr != nil {
				return harness.Violatef("c01/transcode-used-encoder", "%s: transcoding into an Encoder that was used before (kind %d) failed: %v %v", name, used, derr, berr)
			}
			if !bytes.Equal(tu, t1) {
				return harness.Violatef("c01/transcode-used-encoder", "%s: transcoding into an Encoder that was used before (kind %d) gives other bytes than into a new one", name, used)
			}
		}
		rec1 := &ops.Recorder{}
		if err := decode.Decode(rec1, t1); err != nil {
			return harness.Violatef("c01/transcode-rejected", "%s: re-encoded stream is rejected: %v (%x)", name, err, t1)
		}
		if len(rec1.Ops) < len(rec.Ops) {
			if p := spec.Parse(src); p.EndsInDrawing {
				return harness.Violatef("c01/unterminated-final-path", "%s: the stream ends inside a path; re-encoding delivers %d of its %d operations (pending run dropped)", name, len(rec1.Ops), len(rec.Ops))
			}
		}
		if err := compareOps(rec1.Ops, rec.Ops, func(int) bool { return !hi }); err != nil {
			if v, ok := err.(*harness.Violation); ok {
				v.Msg = name + " transcoding: " + v.Msg
			}
			return err
		}
		// Transcoding again: the second generation must decode to the same
		// operations as the first one and as the original, under the same rule
		// (so quantisation is applied once, not compounded). Byte equality of
		// the two generations is not demanded: an angle that rounds to exactly
		// one turn is written as 1 and then as 0, the same angle modulo a turn.
		t2, derr, berr := transcode(t1, hi)
		if derr != nil || berr != nil {
			return harness.Violatef("c01/transcode-twice-error", "%s: second transcoding failed: %v %v", name, derr, berr)
		}
		rec2 := &ops.Recorder{}
		if err := decode.Decode(rec2, t2); err != nil {
			return harness.Violatef("c01/transcode-rejected", "%s: second-generation stream is rejected: %v", name, err)
		}
		for _, ref := range []struct {
			name string
			ops  []ops.Op
		}{{"first generation", rec1.Ops}, {"original", rec.Ops}} {
			if err := compareOps(rec2.Ops, ref.ops, func(int) bool { return !hi }); err != nil {
				if v, ok := err.(*harness.Violation); ok {
					if v.Key != keyD10 {
						v.Key = "c01/transcode-drift"
					}
					v.Msg = name + ": second generation vs " + ref.name + ": " + v.Msg
				}
				return err
			}
		}
		if bytes.Equal(t1, t2) {
			byteStable++
		} else {
			byteUnstable++
		}
	}
	return nil
}

var subTrans = harness.Define("transcode", "decoder-accepted streams (generated in arbitrary spellings, possibly ending inside a path; mutated corpus files; corpus) decoded into an Encoder (plain = low resolution, and resolution-preserving): Bytes succeeds, re-encoding decodes to the same operations under the rule, and a second transcoding is byte-identical; non-trivial = accepted, at least one path, not a verbatim corpus file", checkTranscode)

func TestTranscodeGenerated(t *testing.T) {
	harness.Rapid(t, harness.N(8000, 16*80000), func(t *rapid.T) {
		b, want, open := gen.Stream(t, gen.StreamCfg{AllowOpen: true, MaxRun: 50})
		c := StreamCase{Bytes: b}
		labels := []string{"accepted"}
		if open {
			labels = append(labels, "ends-inside-a-path")
		}
		paths := 0
		for _, o := range want {
			if o.K == ops.StartPath {
				paths++
			}
		}
		subTrans.See(c, paths > 0, harness.Hash(b), labels...)
		subTrans.Run(t, c)
	})
}

func TestTranscodeMutated(t *testing.T) {
	all := corpus.All()
	harness.Rapid(t, harness.N(6000, 16*40000), func(t *rapid.T) {
		f := all[rapid.IntRange(0, len(all)-1).Draw(t, "file")].Data
		g := all[rapid.IntRange(0, len(all)-1).Draw(t, "file2")].Data
		b := gen.Mutate(t, f, g)
		c := StreamCase{Bytes: b}
		p := spec.Parse(b)
		l := "rejected"
		if p.OK {
			l = "accepted"
		}
		subTrans.See(c, p.OK && len(p.Ops) > 2, harness.Hash(b), l, "mutated-corpus")
		subTrans.Run(t, c)
	})
}

func TestTranscodeCorpus(t *testing.T) {
	files := corpus.All()
	if !harness.Thorough() {
		files = corpus.Sample(4)
	}
	lo, hi := harness.Range(uint64(len(files)))
	for _, f := range files[lo:hi] {
		c := StreamCase{Bytes: f.Data}
		subTrans.See(c, false, harness.Hash(f.Data), "corpus-verbatim")
		if err := subTrans.Eval(c); err != nil {
			t.Fatalf("%s: %v", f.Name, err)
		}
	}
	// every truncation of the testdata graphics that still decodes (ends inside a path or between instructions)
	if harness.Shard() != 0 {
		return
	}
	for _, f := range corpus.Testdata() {
		for k := 5; k < len(f.Data); k++ {
			c := StreamCase{Bytes: f.Data[:k]}
			p := spec.Parse(c.Bytes)
			if !p.OK {
				continue
			}
			l := "truncated-between-instructions"
			if p.EndsInDrawing {
				l = "truncated-inside-a-path"
			}
			subTrans.See(c, true, harness.Hash(c.Bytes), l)
			if err := subTrans.Eval(c); err != nil {
				t.Fatalf("%s[:%d]: %v", f.Name, k, err)
			}
		}
	}
}

// ---------------------------------------------------------------- boundary tables and the D10 witness

func TestNumberTable(t *testing.T) {
	harness.OnlyFirstShard(t)
	st := harness.Counter("number-table", "every boundary value of the float table as LOD, NREG, low- and high-resolution coordinate, arc radius and rotation, one value per program")
	vals := append(append([]float32{}, gen.Boundary...), gen.NonFinite...)
	for k := -128 * 64; k <= 128*64; k += 257 {
		v := (float32(k) + 0.5) / 64
		vals = append(vals, v, math.Float32frombits(math.Float32bits(v)+1), math.Float32frombits(math.Float32bits(v)-1))
	}
	n := int64(0)
	for _, v := range vals {
		for _, hi := range []bool{false, true} {
			c := ProgCase{ViewBox: [4]ops.F32{-32, -32, 32, 32}, Palette: ops.DefaultPalette(), HiRes: []bool{hi}}
			c.Ops = []ops.Op{
				ops.OpSetLOD(v, v), ops.OpSetNReg(0, false, v), ops.OpSetNReg(3, false, -v),
				ops.OpStartPath(0, v, -v), ops.OpDraw(ops.AbsLineTo, v, 1), ops.OpDraw(ops.RelHLineTo, v),
				ops.OpArc(ops.AbsArcTo, v, 2, v, true, false, 3, v), ops.OpArc(ops.RelArcTo, 1, v, -v, false, true, v, 4),
				ops.OpDraw(ops.ClosePathEndPath),
			}
			n++
			if err := subRound.Eval(c); err != nil {
				t.Fatalf("value %v hires=%v: %v", ops.F32(v), hi, err)
			}
		}
	}
	st.AddEnumerated(n, n)
	st.SetExhaustive()
}

// All 120 one-byte and 15120 two-byte zero-to-one grid values through NREG and
// arc rotation: exact survival, except the listed D10 class.
func TestZeroToOneGrid(t *testing.T) {
	harness.OnlyFirstShard(t)
	st := harness.Counter("zero-to-one-grid", "all u/120 (u<120) and u/15120 (u<15120) as NREG value and arc rotation: must survive unchanged")
	var bad []string
	n := int64(0)
	check := func(v float32) {
		n++
		var enc encode.Encoder
		enc.SetNReg(0, false, v)
		enc.StartPath(0, 0, 0)
		enc.AbsArcTo(1, 1, v, false, false, 1, 1)
		enc.ClosePathEndPath()
		b, err := enc.Bytes()
		if err != nil {
			t.Fatal(err)
		}
		rec := &ops.Recorder{}
		if err := decode.Decode(rec, b); err != nil || len(rec.Ops) != 5 {
			t.Fatalf("decode: %v", err)
		}
		g1, g2 := rec.Ops[1].Arg(0), rec.Ops[3].Arg(2)
		if g1 != v || g2 != v {
			if !spec.ThirtyBitRule(v, g1, 3) || !spec.ThirtyBitRule(v, g2, 3) {
				subRound.Run(t, ProgCase{ViewBox: [4]ops.F32{-32, -32, 32, 32}, Palette: ops.DefaultPalette(), Ops: []ops.Op{ops.OpSetNReg(0, false, v)}})
				t.Fatalf("zero-to-one grid value %v came back as %v / %v: beyond 3 ulp", v, g1, g2)
			}
			bad = append(bad, ops.F32(v).String())
		}
	}
	for u := 0; u < 120; u++ {
		check(float32(u) / 120)
	}
	for u := 0; u < 15120; u++ {
		check(float32(u) / 15120)
	}
	st.AddEnumerated(n, n)
	st.SetExhaustive()
	st.Label("grid-values-stored-long", int64(len(bad)))
	if len(bad) > 0 {
		what := fmt.Sprintf("%d of 15240 exact zero-to-one grid values (e.g. SetNReg(0,false,%s)) are stored in 4 bytes and come back 1-3 ulp off", len(bad), bad[0])
		if harness.IsKnown(keyD10) {
			harness.KnownFinding(keyD10, what)
			st.AddExcluded(int64(len(bad)))
		} else {
			c := ProgCase{ViewBox: [4]ops.F32{-32, -32, 32, 32}, Palette: ops.DefaultPalette(), Ops: []ops.Op{ops.OpSetNReg(0, false, float32(4)/120)}}
			subRound.Run(t, c)
			t.Fatal(what)
		}
	}
}

func TestZZExcluded(t *testing.T) {
	if excludedD10 > 0 {
		subRound.AddExcluded(excludedD10)
	}
	subTrans.Label("second-generation-byte-identical", byteStable)
	subTrans.Label("second-generation-bytes-differ-but-same-operations", byteUnstable)
}

func FuzzTranscode(f *testing.F) {
	var seeds [][]byte
	for _, c := range corpus.Sample(16) {
		seeds = append(seeds, c.Data)
	}
	seeds = append(seeds, gen.Hostile...)
	fz := harness.Counter("fuzz-transcode", "native coverage-guided fuzzing (go test -fuzz) of the transcoding oracle, seeded with corpus graphics (thorough tier only)")
	harness.FuzzBytes(f, seeds, func(b []byte) error {
		if len(b) > 4096 {
			return nil
		}
		return subTrans.Eval(StreamCase{Bytes: b})
	}, func(b []byte) {
		p := spec.Parse(b)
		fz.Observe(p.OK && len(p.Ops) > 2, harness.Hash(b), nil)
	})
}
