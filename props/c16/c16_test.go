// C16 — pixels are invariant under re-expression of the same picture.
package c16

import (
	"bytes"
	"fmt"
	"image"
	"image/color"
	"image/draw"
	"math"
	"testing"

	"github.com/reactivego/ivg"
	"github.com/reactivego/ivg/raster"
	"github.com/reactivego/ivg/raster/vec"
	"github.com/reactivego/ivg/render"
	"pgregory.net/rapid"

	"verif/internal/gen"
	"verif/internal/harness"
	"verif/internal/ops"
	"verif/internal/spec"
)

func TestMain(m *testing.M) { harness.Main(m, "C16") }

// Fill is how a path is coloured.
type Fill struct {
	// flat: a colour expression resolved against Palette and the registers
	// written so far; gradient: a register block.
	Gradient bool        `json:"gradient,omitempty"`
	Color    *ops.ColorV `json:"color,omitempty"`
	// for blends / register references: registers to load first
	Load []ops.Op `json:"load,omitempty"`
	// gradient block (styling ops that leave the gradient value in CREG[CSEL])
	Block []ops.Op `json:"block,omitempty"`
	// Copy (gradients): after the block the gradient value is copied into another register
	// through a blend of weight 0 or 255 with a transparent partner, and that register is selected.
	Copy []ops.Op `json:"copy,omitempty"`
	// Twice: the fill is a blend of the register it is written to, written two times in a row.
	Twice bool `json:"twice,omitempty"`
	// Clear: a gradient whose stops are all fully transparent (a path that is drawn, and under
	// the Src operator clears what it covers).
	Clear bool `json:"clear,omitempty"`
	// Edge: constructed so that the gradient's 0 edge runs exactly through pixel centres.
	Edge bool `json:"edge,omitempty"`
}

type Path struct {
	Fill Fill     `json:"fill"`
	Ops  []ops.Op `json:"ops"` // StartPath(0,...) ... ClosePathEndPath
	// LOD: a level-of-detail range set just before the path (bounds at or next to the height of
	// the target rectangle, which is what the range is tested against).
	LOD *[2]ops.F32 `json:"lod,omitempty"`
}

func (p Path) lod() []ops.Op {
	if p.LOD == nil {
		return nil
	}
	return []ops.Op{ops.OpSetLOD(float32(p.LOD[0]), float32(p.LOD[1]))}
}

type Case struct {
	Relation string `json:"relation"` // offset scale indirection operator
	// SheetSameSize, SheetNewRenderer (with Sheet): the earlier tile has the size of the target
	// rectangle; the second tile is drawn by a new Renderer holding the same rasteriser.
	SheetOtherImage  bool `json:"sheet_other_image,omitempty"`
	SheetSameSize    bool `json:"sheet_same_size,omitempty"`
	SheetNewRenderer bool `json:"sheet_new_renderer,omitempty"`
	// SheetSameGraphic (with Sheet): the earlier tile is this very graphic (one icon twice on a sheet).
	SheetSameGraphic bool `json:"sheet_same_graphic,omitempty"`
	// Window (offset relation): 0 the destination is the whole larger image; 1 a sub-image of it
	// around the rectangle; 2 a sub-image exactly as wide as the rectangle.
	Window int `json:"window,omitempty"`
	// Literal: the compared rasteriser is made with a struct literal (&vec.Rasterizer{Dst: img}),
	// as the repository's own tests and example do, not with NewRasterizer.
	Literal bool        `json:"literal,omitempty"`
	ViewBox [4]ops.F32  `json:"viewbox"`
	Palette ops.Palette `json:"palette"`
	Paths   []Path      `json:"paths"`
	W, H    int
	OX, OY  int    `json:"-"`
	Off     [2]int `json:"offset"`
	// Origin: Bounds().Min of the larger image (sub-image windows and images
	// with a negative origin are ordinary draw.Images).
	Origin [2]int `json:"image_origin,omitempty"`
	// Sheet: the same Renderer and rasteriser first render a tile elsewhere in the larger image.
	Sheet bool `json:"sheet,omitempty"`
	// BlendAgain: the first two paths are filled with the same blend before and after its operand
	// register changes.
	BlendAgain bool `json:"blend_again,omitempty"`
	K          int  `json:"scale_exponent"`
	Alpha bool `json:"alpha_image"`
	Src   bool `json:"draw_op_src"`
}

func program(c Case) []ops.Op {
	var out []ops.Op
	for _, p := range c.Paths {
		out = append(out, p.lod()...)
		out = append(out, p.Fill.Load...)
		if p.Fill.Gradient {
			out = append(out, p.Fill.Block...)
			out = append(out, p.Fill.Copy...)
		} else {
			out = append(out, ops.OpSetCReg(0, false, *p.Fill.Color))
		}
		out = append(out, p.Ops...)
	}
	return out
}

func newImage(alpha bool, r image.Rectangle, fill color.RGBA) draw.Image {
	var img draw.Image
	if alpha {
		img = image.NewAlpha(r)
	} else {
		img = image.NewRGBA(r)
	}
	draw.Draw(img, r, image.NewUniform(fill), image.Point{}, draw.Src)
	return img
}

func pix(img draw.Image) []byte {
	switch i := img.(type) {
	case *image.RGBA:
		return i.Pix
	case *image.Alpha:
		return i.Pix
	}
	return nil
}

func renderTo(z raster.Rasterizer, rect image.Rectangle, vb [4]float32, pal [64]color.RGBA, prog []ops.Op) {
	var r render.Renderer
	r.SetRasterizer(z, rect)
	r.Reset(gen.VB(vb), pal)
	ops.ApplyAll(&r, prog)
}

// drawFilter forwards to a vec.Rasterizer but performs only some Draw calls.
type drawFilter struct {
	*vec.Rasterizer
	n         int
	onlyFirst bool // perform the first Draw only (else: all but the first)
}

func (f *drawFilter) Draw(r image.Rectangle, src image.Image, sp image.Point) {
	f.n++
	if f.onlyFirst == (f.n == 1) {
		f.Rasterizer.Draw(r, src, sp)
	}
}

var prefill = color.RGBA{0x30, 0x50, 0x10, 0x90}

func scaleOps(list []ops.Op, k int, isBlock bool) []ops.Op {
	out := make([]ops.Op, len(list))
	s := float32(math.Ldexp(1, k))
	inv := float32(math.Ldexp(1, -k))
	matrixSeen := 0
	for i, o := range list {
		n := o
		n.F = append([]ops.F32{}, o.F...)
		switch {
		case o.K == ops.SetNReg && isBlock:
			// the block writes the six matrix entries first (a b c d e f), then offsets
			if matrixSeen < 6 {
				if matrixSeen%3 != 2 {
					n.F[0] = ops.F32(float32(o.F[0]) * inv)
				}
				matrixSeen++
			}
		case o.K.IsDrawing() || o.K == ops.StartPath:
			for j := range n.F {
				if (o.K == ops.AbsArcTo || o.K == ops.RelArcTo) && j == 2 {
					continue // rotation is an angle
				}
				n.F[j] = ops.F32(float32(o.F[j]) * s)
			}
		}
		out[i] = n
	}
	return out
}

func newRast(c Case, img draw.Image) *vec.Rasterizer {
	if c.Literal {
		return &vec.Rasterizer{Dst: img}
	}
	return vec.NewRasterizer(img)
}

func checkPixels(c Case) error {
	vb := [4]float32{float32(c.ViewBox[0]), float32(c.ViewBox[1]), float32(c.ViewBox[2]), float32(c.ViewBox[3])}
	pal := [64]color.RGBA(c.Palette)
	prog := program(c)
	own := image.Rect(0, 0, c.W, c.H)
	op := draw.Over
	if c.Src {
		op = draw.Src
	}
	base := newImage(c.Alpha, own, prefill)
	zb := vec.NewRasterizer(base)
	zb.DrawOp = op
	renderTo(zb, own, vb, pal, prog)

	switch c.Relation {
	case "offset":
		big := image.Rect(0, 0, c.W+c.Off[0]+7, c.H+c.Off[1]+5).Add(image.Pt(c.Origin[0], c.Origin[1]))
		target := own.Add(image.Pt(c.Off[0]+c.Origin[0], c.Off[1]+c.Origin[1]))
		img := newImage(c.Alpha, big, prefill)
		parent := img
		switch c.Window {
		case 1: // the destination is a window into the sheet (Stride wider than the window)
			img = img.(interface {
				SubImage(image.Rectangle) image.Image
			}).SubImage(image.Rect(target.Min.X-1, big.Min.Y, big.Max.X-2, big.Max.Y)).(draw.Image)
		case 2: // ... as wide as the rectangle exactly: a band
			img = img.(interface {
				SubImage(image.Rectangle) image.Image
			}).SubImage(image.Rect(target.Min.X, big.Min.Y, target.Max.X, big.Max.Y)).(draw.Image)
		}
		z := newRast(c, img)
		if c.Sheet && c.Window == 0 && c.SheetOtherImage {
			// the rasteriser drew into another image first and is then pointed at this one
			// through its Dst field
			other := newImage(c.Alpha, image.Rect(500, 400, 500+c.W, 400+c.H), prefill)
			z = newRast(c, other)
			var r0 render.Renderer
			r0.SetRasterizer(z, other.Bounds())
			r0.Reset(gen.VB(vb), pal)
			r0.StartPath(0, vb[0], vb[1])
			r0.AbsLineTo(vb[2], vb[1])
			r0.AbsLineTo(vb[2], vb[3])
			r0.ClosePathEndPath()
			z.Dst = img
		}
		if c.Sheet && c.Window == 0 {
			// an earlier tile with the same Renderer and rasteriser, then the sheet is wiped again
			var r render.Renderer
			tile := image.Rect(big.Min.X, big.Min.Y, big.Min.X+5, big.Min.Y+4)
			if c.SheetSameSize {
				tile = image.Rect(big.Min.X, big.Min.Y, big.Min.X+c.W, big.Min.Y+c.H) // equal cells
			}
			r.SetRasterizer(z, tile)
			r.Reset(gen.VB(vb), pal)
			if c.SheetSameGraphic {
				ops.ApplyAll(&r, prog)
			} else {
				r.StartPath(0, vb[0], vb[1])
				r.AbsLineTo(vb[2], vb[1])
				r.AbsLineTo(vb[2], vb[3])
				r.ClosePathEndPath()
			}
			draw.Draw(img, big, image.NewUniform(prefill), image.Point{}, draw.Src)
			z.DrawOp = op
			rp := &r
			if c.SheetNewRenderer {
				rp = &render.Renderer{} // a Renderer per icon, one rasteriser for the sheet
			}
			rp.SetRasterizer(z, target)
			rp.Reset(gen.VB(vb), pal)
			ops.ApplyAll(rp, prog)
		} else {
			z.DrawOp = op
			renderTo(z, target, vb, pal, prog)
		}
		for y := big.Min.Y; y < big.Max.Y; y++ {
			for x := big.Min.X; x < big.Max.X; x++ {
				got := parent.At(x, y)
				if image.Pt(x, y).In(target) {
					if want := base.At(x-c.Off[0]-c.Origin[0], y-c.Off[1]-c.Origin[1]); got != want {
						return harness.Violatef("c16/offset", "pixel (%d,%d) of the rectangle placed at offset %v in an image with origin %v is %v, drawn into its own image it is %v", x-c.Off[0]-c.Origin[0], y-c.Off[1]-c.Origin[1], c.Off, c.Origin, got, want)
					}
				} else if r, g, b, a := got.RGBA(); !samePrefill(c.Alpha, r, g, b, a) {
					return harness.Violatef("c16/outside-modified", "pixel (%d,%d) outside the target rectangle %v was modified: %v", x, y, target, got)
				}
			}
		}
	case "scale":
		svb := vb
		s := float32(math.Ldexp(1, c.K))
		for i := range svb {
			svb[i] *= s
		}
		var sprog []ops.Op
		for _, p := range c.Paths {
			sprog = append(sprog, p.lod()...)
			sprog = append(sprog, p.Fill.Load...)
			if p.Fill.Gradient {
				sprog = append(sprog, scaleOps(p.Fill.Block, c.K, true)...)
				sprog = append(sprog, p.Fill.Copy...)
			} else {
				sprog = append(sprog, ops.OpSetCReg(0, false, *p.Fill.Color))
			}
			sprog = append(sprog, scaleOps(p.Ops, c.K, false)...)
		}
		img := newImage(c.Alpha, own, prefill)
		z := newRast(c, img)
		z.DrawOp = op
		renderTo(z, own, svb, pal, sprog)
		if !bytes.Equal(pix(img), pix(base)) {
			return harness.Violatef("c16/scale", "scaling viewBox, coordinates and gradient matrices by 2^%d changes pixels (first difference at %s)", c.K, firstDiff(img, base))
		}
	case "indirection":
		// the same picture with every fill resolved to a direct colour
		var vm spec.VM
		vm.Reset(pal)
		var direct []ops.Op
		for _, p := range c.Paths {
			direct = append(direct, p.lod()...)
			for _, o := range p.Fill.Load {
				vm.Step(o, c.H)
			}
			if p.Fill.Gradient {
				for _, o := range p.Fill.Block {
					vm.Step(o, c.H)
				}
				direct = append(direct, p.Fill.Block...)
				for _, o := range p.Fill.Copy {
					if o.K == ops.SetCReg {
						direct = append(direct, ops.OpSetCReg(o.Adj, o.Incr, ops.RGBAv(spec.Resolve(*o.C, &vm.Pal, &vm.CReg))))
					} else {
						direct = append(direct, o)
					}
					vm.Step(o, c.H)
				}
			} else {
				resolved := spec.Resolve(*p.Fill.Color, &vm.Pal, &vm.CReg)
				vm.Step(ops.OpSetCReg(0, false, *p.Fill.Color), c.H)
				direct = append(direct, ops.OpSetCReg(0, false, ops.RGBAv(resolved)))
			}
			direct = append(direct, p.Ops...)
		}
		img := newImage(c.Alpha, own, prefill)
		z := newRast(c, img)
		z.DrawOp = op
		renderTo(z, own, vb, ivg.DefaultPalette, direct)
		if !bytes.Equal(pix(img), pix(base)) {
			return harness.Violatef("c16/indirection", "colouring through palette indices, registers and blends gives different pixels than the equivalent direct colours (first difference at %s)", firstDiff(img, base))
		}
	case "operator":
		// the configured operator applies to the first drawn path only
		img := newImage(c.Alpha, own, prefill)
		z1 := &drawFilter{Rasterizer: vec.NewRasterizer(img), onlyFirst: true}
		z1.Rasterizer.DrawOp = op
		renderTo(z1, own, vb, pal, prog)
		z2 := &drawFilter{Rasterizer: vec.NewRasterizer(img)}
		renderTo(z2, own, vb, pal, prog)
		if !bytes.Equal(pix(img), pix(base)) {
			return harness.Violatef("c16/operator", "DrawOp=%v: rendering in one go differs from 'first path with the operator, the rest source-over' (first difference at %s)", op, firstDiff(img, base))
		}
		// Independent of the decomposition above: with draw.Src the first drawn
		// path replaces the whole target rectangle, so what was in the
		// destination before cannot show through anywhere in it.
		// (whether a path is drawn at all is the format's rule, not the Renderer's word: a flat
		// colour that is not fully transparent, or a gradient of two or more valid stops, inside
		// the level-of-detail range)
		mustDraw := 0
		var vm spec.VM
		vm.Reset(pal)
		for _, o := range prog {
			if pp := vm.Step(o, c.H); pp != nil && (pp.Kind == spec.PaintFlat || pp.Kind == spec.PaintGradient) && vm.LOD0 <= float32(c.H) && float32(c.H) < vm.LOD1 {
				mustDraw++
			}
		}
		if c.Src && (z2.n > 0 || mustDraw > 0) {
			other := newImage(c.Alpha, own, color.RGBA{0x70, 0x05, 0x60, 0xd0})
			zo := vec.NewRasterizer(other)
			zo.DrawOp = draw.Src
			renderTo(zo, own, vb, pal, prog)
			if !bytes.Equal(pix(other), pix(base)) {
				return harness.Violatef("c16/operator-src-ignored", "DrawOp=Src: the result depends on what the destination held before (first difference at %s); the first drawn path must replace the rectangle", firstDiff(other, base))
			}
		}
	}
	return nil
}

func samePrefill(alpha bool, r, g, b, a uint32) bool {
	pr, pg, pb, pa := prefill.RGBA()
	if alpha {
		return a == pa
	}
	return r == pr && g == pg && b == pb && a == pa
}

func firstDiff(a, b draw.Image) string {
	r := a.Bounds()
	for y := r.Min.Y; y < r.Max.Y; y++ {
		for x := r.Min.X; x < r.Max.X; x++ {
			if a.At(x, y) != b.At(x, y) {
				return fmt.Sprintf("(%d,%d): %v vs %v", x, y, a.At(x, y), b.At(x, y))
			}
		}
	}
	return "none"
}

var subPix = harness.Define("pixels", "graphics with moderate coordinates (1-4 paths, all verbs incl. arcs, flat and gradient fills) rendered with raster/vec into image.RGBA or image.Alpha, rectangles 1-600 px (crossing the 512 px fixed/floating switch): (offset) rectangle inside a larger pre-filled image == own image and outside pixels untouched; (scale) viewBox, coordinates, radii and gradient matrices scaled by 2^k, k in -10..10 == unscaled; (indirection) palette/CREG/blend fills == resolved direct colours; (operator) DrawOp applies to the first drawn path only; exact pixel equality; non-trivial = at least one pixel differs from the pre-fill", checkPixels)

func coord(t *rapid.T, l string) float32 { return gen.Moderate(t, l, 40) }

func genFill(t *rapid.T, indirect bool) Fill {
	if rapid.IntRange(0, 11).Draw(t, "nostops") == 0 {
		// a gradient value naming no or one stop: never drawn, and without effect on what follows
		bits := spec.GradientBits{NStops: uint8(rapid.IntRange(0, 1).Draw(t, "nostops.n")), CBase: 8, NBase: 8, Spread: uint8(rapid.IntRange(0, 3).Draw(t, "nostops.spread")), Radial: rapid.Bool().Draw(t, "nostops.radial")}
		return Fill{Gradient: true, Block: []ops.Op{ops.OpSetCSel(5), ops.OpSetCReg(0, false, ops.RGBAv(spec.EncodeGradientBits(bits)))}}
	}
	if rapid.IntRange(0, 3).Draw(t, "grad") == 0 {
		blk, g := gen.GradientBlock(t, func(t *rapid.T, l string) [6]float32 {
			m := gen.SimpleMatrix(t, l)
			for i := range m {
				m[i] = float32(math.Round(float64(m[i])*256)) / 256 / 16
			}
			if m[0] == 0 && m[1] == 0 {
				m[0] = 1.0 / 64
			}
			m[2], m[5] = float32(rapid.IntRange(-64, 64).Draw(t, l+".c"))/64, float32(rapid.IntRange(-64, 64).Draw(t, l+".f"))/64
			return m
		}, false)
		// normalise: matrix first, leave the gradient in CREG[CSEL] with ADJ 0
		var mat, rest []ops.Op
		for _, o := range blk {
			rest = append(rest, o)
		}
		_ = mat
		// rebuild deterministically: matrix via SetNSel(NBASE)+ADJ 6..1, then stops, then value
		var out []ops.Op
		out = append(out, ops.OpSetNSel(g.Bits.NBase))
		for j := 0; j < 6; j++ {
			out = append(out, ops.OpSetNReg(uint8(6-j), false, g.Matrix[j]))
		}
		out = append(out, ops.OpSetCSel(g.Bits.CBase))
		clear := rapid.IntRange(0, 5).Draw(t, "clear") == 0
		for i := range g.Offsets {
			if clear {
				g.Colors[i] = color.RGBA{}
			}
			out = append(out, ops.OpSetCReg(0, true, ops.RGBAv(g.Colors[i])), ops.OpSetNReg(0, true, g.Offsets[i]))
		}
		out = append(out, ops.OpSetCSel(g.Reg), ops.OpSetCReg(0, false, ops.RGBAv(spec.EncodeGradientBits(g.Bits))))
		f := Fill{Gradient: true, Block: out, Clear: clear}
		if other, ok := freeReg(g); ok && rapid.IntRange(0, 3).Draw(t, "gradcopy") == 0 {
			b := ops.ColorV{T: 3, R: 0, G: 0xc0 | g.Reg, B: 0x7f} // all of CREG[g.Reg], none of transparent black
			if rapid.Bool().Draw(t, "gradcopy.swap") {
				b = ops.ColorV{T: 3, R: 255, G: 0x7f, B: 0xc0 | g.Reg}
			}
			f.Copy = []ops.Op{ops.OpSetCSel(other), ops.OpSetCReg(0, false, b)}
		}
		return f
	}
	if !indirect {
		c := ops.RGBAv(gen.PremulColor(t, "flat"))
		if c.A == 0 {
			c = ops.ColorV{T: 0, R: 0x40, G: 0x10, B: 0x20, A: 0x80}
		}
		return Fill{Color: &c}
	}
	var f Fill
	// load two registers, then refer to them and to the palette
	r1, r2 := gen.Sel(t, "r1"), gen.Sel(t, "r2")
	f.Load = []ops.Op{
		ops.OpSetCSel(r1), ops.OpSetCReg(0, false, ops.RGBAv(gen.PremulColor(t, "l1"))),
		ops.OpSetCSel(r2), ops.OpSetCReg(0, false, ops.ColorV{T: 1, R: gen.Sel(t, "pi")}),
		ops.OpSetCSel(gen.Sel(t, "target")),
	}
	var c ops.ColorV
	switch rapid.IntRange(0, 3).Draw(t, "indkind") {
	case 0:
		c = ops.ColorV{T: 1, R: gen.Sel(t, "pal")}
	case 1:
		c = ops.ColorV{T: 2, R: r1}
	default:
		c = ops.ColorV{T: 3, R: gen.BlendT(t, "t"), G: rapid.SampledFrom([]byte{0x80 | gen.Sel(t, "b0"), 0xc0 | r1, 0xc0 | r2, 0x7f, 0x30}).Draw(t, "c0"), B: rapid.SampledFrom([]byte{0x80 | gen.Sel(t, "b1"), 0xc0 | r2, 0xc0 | r1, 0x7e, 0x64}).Draw(t, "c1")}
		if rapid.IntRange(0, 2).Draw(t, "twice") == 0 {
			// an opacity applied twice: the blend reads the register it writes, and the identical
			// write is made two times in a row
			c.G = 0xc0 | r1
			f.Load[4] = ops.OpSetCSel(r1)
			f.Load = append(f.Load, ops.OpSetCReg(0, false, c))
			f.Twice = true
		}
	}
	f.Color = &c
	return f
}

// freeReg: a colour register that holds neither the gradient value nor one of its stops.
func freeReg(g gen.GradSetup) (uint8, bool) {
	for r := uint8(0); r < 64; r++ {
		if r == g.Reg {
			continue
		}
		if d := (r - g.Bits.CBase) & 63; d >= g.Bits.NStops {
			return r, true
		}
	}
	return 0, false
}

func genPath(t *rapid.T, indirect bool) Path {
	p := Path{Fill: genFill(t, indirect)}
	p.Ops = append(p.Ops, ops.OpStartPath(0, coord(t, "sx"), coord(t, "sy")))
	n := rapid.IntRange(2, 8).Draw(t, "n")
	for i := 0; i < n; i++ {
		k := rapid.SampledFrom(gen.DrawVerbs).Draw(t, "verb")
		o := gen.DrawOp(t, k, coord, "d")
		if k == ops.AbsArcTo || k == ops.RelArcTo {
			// radii of sensible size, rotation on a grid
			o.F[0] = ops.F32(float32(rapid.IntRange(2*64, 40*64).Draw(t, "rx")) / 64)
			o.F[1] = ops.F32(float32(rapid.IntRange(2*64, 40*64).Draw(t, "ry")) / 64)
			o.F[2] = ops.F32(float32(rapid.IntRange(0, 119).Draw(t, "rot")) / 120)
		}
		p.Ops = append(p.Ops, o)
	}
	p.Ops = append(p.Ops, ops.OpDraw(ops.ClosePathEndPath))
	return p
}

func genCase(t *rapid.T) Case {
	var c Case
	c.Relation = rapid.SampledFrom([]string{"offset", "scale", "indirection", "operator"}).Draw(t, "relation")
	c.ViewBox = [4]ops.F32{-32, -32, 32, 32}
	switch rapid.IntRange(0, 2).Draw(t, "vb") {
	case 1:
		c.ViewBox = [4]ops.F32{-24, -40, 40, 24}
	case 2:
		c.ViewBox = [4]ops.F32{0, 0, 48, 20}
	}
	c.Palette = ops.DefaultPalette()
	if c.Relation == "indirection" || rapid.Bool().Draw(t, "pal") {
		c.Palette = gen.Palette(t, "pal", true)
	}
	np := rapid.IntRange(1, 4).Draw(t, "paths")
	for i := 0; i < np; i++ {
		c.Paths = append(c.Paths, genPath(t, c.Relation == "indirection" || rapid.IntRange(0, 3).Draw(t, "ind") == 0))
	}
	size := func(l string) int {
		switch rapid.IntRange(0, 5).Draw(t, l+".class") {
		case 0:
			return rapid.IntRange(1, 8).Draw(t, l)
		case 1:
			return rapid.SampledFrom([]int{511, 512, 513, 600}).Draw(t, l)
		default:
			return rapid.IntRange(9, 160).Draw(t, l)
		}
	}
	c.W, c.H = size("w"), size("h")
	if rapid.IntRange(0, 5).Draw(t, "native") == 0 {
		// the graphic at its native size: one viewBox unit per pixel on both axes
		c.W, c.H = int(c.ViewBox[2]-c.ViewBox[0]), int(c.ViewBox[3]-c.ViewBox[1])
	}
	for i := range c.Paths {
		if rapid.IntRange(0, 3).Draw(t, "lod") != 0 {
			continue
		}
		h, inf := ops.F32(float32(c.H)), ops.F32(float32(math.Inf(1)))
		lod := rapid.SampledFrom([][2]ops.F32{{0, h + 1}, {h, inf}, {0, h}, {h + 1, inf}, {0, inf}, {h - 3, h + 40}}).Draw(t, "lodrange")
		c.Paths[i].LOD = &lod
	}
	if c.Relation == "offset" && rapid.IntRange(0, 3).Draw(t, "edge") == 0 {
		// a colour discontinuity (the 0 edge of a gradient with spread none or repeat) that runs
		// exactly through pixel centres, under a pixel scale whose reciprocal is not exact (3/8..3):
		// which side a centre falls on is a matter of rounding, and must not depend on where the
		// rectangle lies
		c.ViewBox = [4]ops.F32{-32, -32, 32, 32}
		c.W = rapid.SampledFrom([]int{24, 48, 96, 192}).Draw(t, "edge.w")
		c.H = c.W
		k := 3*rapid.IntRange(0, c.W/3-1).Draw(t, "edge.k") + 1 // centres (k+0.5)*64/W - 32 that are dyadic
		x0 := (float32(k)+0.5)*64/float32(c.W) - 32
		a := float32(math.Ldexp(1, -rapid.IntRange(1, 3).Draw(t, "edge.a")))
		bits := spec.GradientBits{NStops: 2, CBase: 10, NBase: 10, Spread: rapid.SampledFrom([]uint8{0, 3}).Draw(t, "edge.spread")}
		m := [6]float32{a, 0, -a * x0, 0, a, 0.5}
		if rapid.Bool().Draw(t, "edge.vertical") {
			m = [6]float32{0, a, -a * x0, a, 0, 0.5}
		}
		blk := []ops.Op{ops.OpSetNSel(10)}
		for j := 0; j < 6; j++ {
			blk = append(blk, ops.OpSetNReg(uint8(6-j), false, m[j]))
		}
		blk = append(blk, ops.OpSetCSel(10),
			ops.OpSetCReg(0, true, ops.RGBAv(color.RGBA{0xff, 0, 0, 0xff})), ops.OpSetNReg(0, true, 0),
			ops.OpSetCReg(0, true, ops.RGBAv(color.RGBA{0, 0, 0xff, 0xff})), ops.OpSetNReg(0, true, 1),
			ops.OpSetCSel(0), ops.OpSetCReg(0, false, ops.RGBAv(spec.EncodeGradientBits(bits))))
		c.Paths = append([]Path{{Fill: Fill{Gradient: true, Block: blk, Edge: true}, Ops: []ops.Op{ops.OpStartPath(0, -32, -32), ops.OpDraw(ops.AbsHLineTo, 32), ops.OpDraw(ops.AbsVLineTo, 32), ops.OpDraw(ops.AbsHLineTo, -32), ops.OpDraw(ops.ClosePathEndPath)}}}, c.Paths...)
	}
	c.Off = [2]int{rapid.IntRange(0, 40).Draw(t, "ox"), rapid.IntRange(0, 40).Draw(t, "oy")}
	switch rapid.IntRange(0, 7).Draw(t, "corner") {
	case 0, 1: // the rectangle starts exactly at the image's own corner
		c.Off = [2]int{0, 0}
	case 2:
		c.Off[0] = 0
	case 3:
		c.Off[1] = 0
	}
	if rapid.IntRange(0, 2).Draw(t, "imgorigin") == 0 {
		c.Origin = [2]int{rapid.IntRange(-30, 30).Draw(t, "iox"), rapid.IntRange(-30, 30).Draw(t, "ioy")}
	}
	c.Sheet = rapid.IntRange(0, 2).Draw(t, "sheet") == 0
	c.SheetSameGraphic = rapid.Bool().Draw(t, "sheetsamegraphic")
	if rapid.IntRange(0, 5).Draw(t, "blendagain") == 0 {
		// two leading paths filled with the byte-identical blend, which reads a register that is
		// unwritten (palette value) the first time and was given another colour the second time
		r1 := uint8(rapid.IntRange(1, 63).Draw(t, "ba.r1"))
		b := ops.ColorV{T: 3, R: rapid.SampledFrom([]uint8{0x40, 0x80, 0xc0, 0xff}).Draw(t, "ba.t"), G: 0xc0 | r1, B: rapid.SampledFrom([]uint8{0x7f, 0x30, 0x80}).Draw(t, "ba.c1")}
		if rapid.Bool().Draw(t, "ba.swap") {
			b.G, b.B = b.B, b.G
		}
		if c.Palette == ops.DefaultPalette() {
			c.Palette[r1] = color.RGBA{0x20, 0x60, 0x10, 0xc0}
		}
		p1, p2 := genPath(t, false), genPath(t, false)
		p1.Fill = Fill{Color: &b, Load: []ops.Op{ops.OpSetCSel(0)}}
		p2.Fill = Fill{Color: &b, Load: []ops.Op{ops.OpSetCSel(r1), ops.OpSetCReg(0, false, ops.RGBAv(color.RGBA{0xe0, 0x20, 0x90, 0xff})), ops.OpSetCSel(0)}}
		c.Paths = append([]Path{p1, p2}, c.Paths...)
		c.BlendAgain = true
	}
	c.SheetSameSize = rapid.Bool().Draw(t, "sheetsame")
	c.SheetOtherImage = rapid.IntRange(0, 2).Draw(t, "sheetother") == 0
	c.SheetNewRenderer = rapid.Bool().Draw(t, "sheetnewr")
	c.K = rapid.IntRange(-10, 10).Draw(t, "k")
	if c.K == 0 {
		c.K = 3
	}
	c.Alpha = rapid.IntRange(0, 3).Draw(t, "alpha") == 0
	c.Literal = rapid.IntRange(0, 2).Draw(t, "literal") == 0
	c.Window = rapid.SampledFrom([]int{0, 0, 0, 1, 2}).Draw(t, "window")
	c.Src = rapid.Bool().Draw(t, "src")
	if c.BlendAgain && rapid.Bool().Draw(t, "ba.sheet") {
		// ... as the second of two equal tiles drawn by one Renderer
		c.Relation, c.Sheet, c.Window, c.SheetSameGraphic, c.SheetNewRenderer, c.SheetOtherImage = "offset", true, 0, true, false, false
	}
	if c.Relation == "operator" {
		c.Src = rapid.IntRange(0, 3).Draw(t, "srcop") != 0
	}
	return c
}

func TestPixelRelations(t *testing.T) {
	harness.Rapid(t, harness.N(1500, 16*15000), func(t *rapid.T) {
		c := genCase(t)
		labels := []string{"relation=" + c.Relation}
		if c.Alpha {
			labels = append(labels, "image.Alpha")
		} else {
			labels = append(labels, "image.RGBA")
		}
		if c.W == int(c.ViewBox[2]-c.ViewBox[0]) && c.H == int(c.ViewBox[3]-c.ViewBox[1]) {
			labels = append(labels, "target-of-the-viewbox's-own-size(scale-1)")
		}
		if c.W > 512 || c.H > 512 {
			labels = append(labels, "beyond-512px")
		}
		if c.Src {
			labels = append(labels, "DrawOp=Src")
		}
		if c.Relation == "offset" && (c.Origin[0] != 0 || c.Origin[1] != 0) {
			labels = append(labels, "image-with-non-zero-origin")
		}
		if c.Window != 0 && c.Relation == "offset" {
			labels = append(labels, "destination-is-a-sub-image")
		}
		if c.Literal {
			labels = append(labels, "rasteriser-made-with-a-struct-literal")
		}
		if c.Off == [2]int{0, 0} {
			labels = append(labels, "rectangle-at-the-corner-of-the-larger-image")
		}
		if c.Relation == "offset" && c.Sheet {
			labels = append(labels, "renderer-and-rasteriser-reused-for-a-second-tile")
			if c.SheetSameGraphic {
				labels = append(labels, "the-same-graphic-in-both-tiles")
			}
		}
		if c.BlendAgain {
			labels = append(labels, "same-blend-before-and-after-its-operand-register-changes")
		}
		for _, p := range c.Paths {
			if p.Fill.Gradient {
				labels = append(labels, "gradient-fill")
			}
			if p.LOD != nil {
				labels = append(labels, "level-of-detail-range-around-the-target-height")
			}
			if p.Fill.Edge {
				labels = append(labels, "gradient-edge-exactly-through-pixel-centres,inexact-reciprocal-scale")
			}
			if p.Fill.Clear {
				labels = append(labels, "gradient-of-fully-transparent-stops")
				if len(c.Paths) == 1 && c.Src {
					labels = append(labels, "only-path-is-a-fully-transparent-gradient,DrawOp=Src")
				}
			}
			if p.Fill.Twice {
				labels = append(labels, "self-referential-blend-written-twice-in-a-row")
				break
			}
		}
		for _, p := range c.Paths {
			for _, o := range p.Ops {
				if o.K == ops.AbsArcTo || o.K == ops.RelArcTo {
					labels = append(labels, "arc")
				}
			}
		}
		labels = dedupe(labels)
		// non-trivial: something was actually drawn
		own := image.Rect(0, 0, c.W, c.H)
		img := newImage(c.Alpha, own, prefill)
		z := newRast(c, img)
		renderTo(z, own, [4]float32{float32(c.ViewBox[0]), float32(c.ViewBox[1]), float32(c.ViewBox[2]), float32(c.ViewBox[3])}, [64]color.RGBA(c.Palette), program(c))
		blank := newImage(c.Alpha, own, prefill)
		drawn := !bytes.Equal(pix(img), pix(blank))
		if drawn {
			labels = append(labels, "something-drawn")
		}
		subPix.See(c, drawn, harness.HashJSON(c), labels...)
		subPix.Run(t, c)
	})
}

func dedupe(in []string) []string {
	seen := map[string]bool{}
	var out []string
	for _, s := range in {
		if !seen[s] {
			seen[s] = true
			out = append(out, s)
		}
	}
	return out
}
