// C07 — rendering directly equals rendering via encode+decode; selectors agree.
package c07

import (
	"bytes"
	"fmt"
	"image"
	"image/color"
	"math"
	"os"
	"testing"

	"github.com/reactivego/ivg"
	"github.com/reactivego/ivg/decode"
	"github.com/reactivego/ivg/encode"
	"github.com/reactivego/ivg/generate"
	"github.com/reactivego/ivg/render"
	"pgregory.net/rapid"

	"verif/internal/gen"
	"verif/internal/harness"
	"verif/internal/ops"
	"verif/internal/rast"
	"verif/internal/spec"
)

func TestMain(m *testing.M) {
	// DestinationLogger prints every call to os.Stdout: park it.
	if f, err := os.OpenFile(os.DevNull, os.O_WRONLY, 0); err == nil {
		os.Stdout = f
	}
	harness.Main(m, "C07")
}

type StopSpec struct {
	Offset ops.F32 `json:"offset"`
	Color  string  `json:"color"` // rrggbbaa
	NRGBA  bool    `json:"nrgba,omitempty"`
}

type Action struct {
	K      string      `json:"k"` // csel nsel creg nreg lod read path linear circular elliptical gradient
	Sel    uint8       `json:"sel,omitempty"`
	Adj    uint8       `json:"adj,omitempty"`
	Incr   bool        `json:"incr,omitempty"`
	C      *ops.ColorV `json:"c,omitempty"`
	F      []ops.F32   `json:"f,omitempty"`
	Spread uint8       `json:"spread,omitempty"`
	Radial bool        `json:"radial,omitempty"`
	Stops  []StopSpec  `json:"stops,omitempty"`
	// Draw: the drawing ops of a "path" action (all 18 verbs, grid coordinates)
	Draw []ops.Op `json:"draw,omitempty"`
	// Empty: the path is started and ended at once (no segment at all).
	Empty bool `json:"empty,omitempty"`
}

type Case struct {
	// ZeroValueEncoders (default viewBox and palette only): the Encoders of the byte pipelines are
	// never Reset before the first call.
	ZeroValueEncoders bool        `json:"zero_value_encoders,omitempty"`
	ViewBox           [4]ops.F32  `json:"viewbox"`
	Palette           ops.Palette `json:"palette"`
	Rect              [4]int      `json:"rect"`
	Actions           []Action    `json:"actions"`
}

func (s StopSpec) stop() generate.GradientStop {
	var r, g, b, a uint8
	fmt.Sscanf(s.Color, "%02x%02x%02x%02x", &r, &g, &b, &a)
	if s.NRGBA {
		return generate.GradientStop{Offset: float32(s.Offset), Color: color.NRGBA{r, g, b, a}}
	}
	return generate.GradientStop{Offset: float32(s.Offset), Color: color.RGBA{r, g, b, a}}
}

type pipeline struct {
	name string
	g    generate.Generator
	dst  ivg.Destination // innermost Renderer or Encoder, for selector reads
	enc  *encode.Encoder
	rr   *rast.Recorder
}

func newPipelines(c Case) []*pipeline {
	rect := image.Rect(c.Rect[0], c.Rect[1], c.Rect[0]+c.Rect[2], c.Rect[1]+c.Rect[3])
	mkRen := func() (*render.Renderer, *rast.Recorder) {
		rr := &rast.Recorder{}
		z := &render.Renderer{}
		z.SetRasterizer(rr, rect)
		return z, rr
	}
	var ps []*pipeline
	z1, r1 := mkRen()
	p1 := &pipeline{name: "Generator->Renderer", dst: z1, rr: r1}
	p1.g.SetDestination(z1)
	e2 := &encode.Encoder{}
	p2 := &pipeline{name: "Generator->Encoder", dst: e2, enc: e2}
	p2.g.SetDestination(e2)
	z3, r3 := mkRen()
	p3 := &pipeline{name: "Generator->Logger->Renderer", dst: z3, rr: r3}
	p3.g.SetDestination(&ivg.DestinationLogger{Destination: z3})
	e4 := &encode.Encoder{}
	p4 := &pipeline{name: "Generator->Logger->Encoder", dst: e4, enc: e4}
	p4.g.SetDestination(&ivg.DestinationLogger{Destination: e4, Alt: true})
	ps = append(ps, p1, p2, p3, p4)
	return ps
}

func f(a Action, i int) float32 {
	if i < len(a.F) {
		return float32(a.F[i])
	}
	return 0
}

// apply performs one action on a Generator and returns the helper's error.
func apply(g *generate.Generator, a Action) error {
	stops := make([]generate.GradientStop, len(a.Stops))
	for i, s := range a.Stops {
		stops[i] = s.stop()
	}
	switch a.K {
	case "csel":
		g.SetCSel(a.Sel)
	case "nsel":
		g.SetNSel(a.Sel)
	case "creg":
		g.SetCReg(a.Adj, a.Incr, a.C.Color())
	case "nreg":
		g.SetNReg(a.Adj, a.Incr, f(a, 0))
	case "lod":
		g.SetLOD(f(a, 0), f(a, 1))
	case "read":
		g.CSel()
		g.NSel()
	case "path":
		g.StartPath(a.Adj, f(a, 0), f(a, 1))
		if len(a.Draw) == 0 && !a.Empty {
			g.AbsLineTo(f(a, 2), f(a, 3))
			g.RelLineTo(f(a, 4), f(a, 5))
			g.AbsQuadTo(f(a, 0), f(a, 3), f(a, 2), f(a, 1))
		}
		for _, o := range a.Draw {
			ops.Apply(g, o)
		}
		g.ClosePathEndPath()
	case "linear":
		return g.SetLinearGradient(f(a, 0), f(a, 1), f(a, 2), f(a, 3), generate.GradientSpread(a.Spread), stops)
	case "circular":
		return g.SetCircularGradient(f(a, 0), f(a, 1), f(a, 2), f(a, 3), generate.GradientSpread(a.Spread), stops)
	case "elliptical":
		return g.SetEllipticalGradient(f(a, 0), f(a, 1), f(a, 2), f(a, 3), f(a, 4), f(a, 5), generate.GradientSpread(a.Spread), stops)
	case "gradient":
		shape := generate.GradientShapeLinear
		if a.Radial {
			shape = generate.GradientShapeRadial
		}
		return g.SetGradient(shape, generate.GradientSpread(a.Spread), stops, generate.Aff3{f(a, 0), f(a, 1), f(a, 2), f(a, 3), f(a, 4), f(a, 5)})
	}
	return nil
}

func ulpClose(a, b float64, ulps float64) bool {
	if a == b {
		return true
	}
	return math.Abs(a-b) <= ulps*math.Max(math.Abs(a), math.Abs(b))/(1<<23)
}

// comparePaint: flat exact; gradient shape/spread/colours exact, offsets to the
// 30-bit number form, transform to 1e-5 relative (its entries pass through the
// 30-bit form).
func comparePaint(a, b *rast.Paint) string {
	if a.Kind != b.Kind {
		return fmt.Sprintf("paint kinds differ: %s vs %s", a.Kind, b.Kind)
	}
	if a.Kind == "uniform" {
		if a.Uniform != b.Uniform {
			return fmt.Sprintf("flat colours differ: %v vs %v", a.Uniform, b.Uniform)
		}
		return ""
	}
	if a.Shape != b.Shape || a.Spread != b.Spread || len(a.Offsets) != len(b.Offsets) {
		return fmt.Sprintf("gradient shape/spread/stop count differ: %d/%d/%d vs %d/%d/%d", a.Shape, a.Spread, len(a.Offsets), b.Shape, b.Spread, len(b.Offsets))
	}
	for i := range a.Offsets {
		if !ulpClose(a.Offsets[i], b.Offsets[i], 4) {
			return fmt.Sprintf("stop %d offsets differ: %v vs %v", i, a.Offsets[i], b.Offsets[i])
		}
		if a.Colors[i] != b.Colors[i] {
			return fmt.Sprintf("stop %d colours differ: %v vs %v", i, a.Colors[i], b.Colors[i])
		}
	}
	for i := range a.Transform {
		x, y := a.Transform[i], b.Transform[i]
		scale := math.Max(math.Abs(x), math.Abs(y))
		if i == 2 || i == 5 {
			// translations are sums of products with the viewBox origin
			scale = math.Max(scale, 64*math.Max(math.Abs(a.Transform[i-2]), math.Abs(a.Transform[i-1])))
		}
		// 1e-35: the 4-byte number form drops the two low mantissa bits, which for a denormal
		// float32 is an absolute step (2^-147) and not a relative one
		if math.Abs(x-y) > 1e-5*scale+1e-35 && !(x != x && y != y) {
			return fmt.Sprintf("gradient transform entry %d differs: %v vs %v", i, x, y)
		}
	}
	return ""
}

func compareLogs(a, b []rast.Call) string {
	if len(a) != len(b) {
		return fmt.Sprintf("%d vs %d rasteriser calls", len(a), len(b))
	}
	for i := range a {
		x, y := a[i], b[i]
		if x.K != y.K || x.W != y.W || x.H != y.H || x.R != y.R || x.SP != y.SP || x.F != y.F {
			return fmt.Sprintf("call %d: %v vs %v", i, x, y)
		}
		if x.K == rast.Draw {
			if d := comparePaint(x.P, y.P); d != "" {
				return fmt.Sprintf("call %d (Draw): %s", i, d)
			}
		}
	}
	return ""
}

func checkPipelines(c Case) error {
	ps := newPipelines(c)
	vb := gen.VB([4]float32{float32(c.ViewBox[0]), float32(c.ViewBox[1]), float32(c.ViewBox[2]), float32(c.ViewBox[3])})
	model := &ops.Recorder{} // the specification's selectors
	var mg generate.Generator
	mg.SetDestination(model)
	for _, p := range ps {
		if c.ZeroValueEncoders && p.enc != nil {
			continue // a zero-value Encoder is as good as one Reset with the default metadata
		}
		p.g.Reset(vb, [64]color.RGBA(c.Palette))
	}
	mg.Reset(vb, [64]color.RGBA(c.Palette))
	marks := make([]int, len(ps))
	for i, a := range c.Actions {
		if a.K == "reset" {
			// the same objects are reused for another graphic
			mg.Reset(vb, [64]color.RGBA(c.Palette))
			for k, p := range ps {
				p.g.Reset(vb, [64]color.RGBA(c.Palette))
				if p.rr != nil {
					marks[k] = len(p.rr.Calls)
				}
			}
		}
		wantErr := apply(&mg, a)
		for _, p := range ps {
			err := apply(&p.g, a)
			if (err == nil) != (wantErr == nil) || (err != nil && err.Error() != wantErr.Error()) {
				return harness.Violatef("c07/helper-error", "step %d (%s): %s returns %v, a destination tracking the selectors as the decoding machine does returns %v", i, a.K, p.name, err, wantErr)
			}
			cs, ns := p.dst.CSel()&63, p.dst.NSel()&63
			if cs != model.ModelCSel() || ns != model.ModelNSel() {
				key := "c07/selectors"
				if p.enc != nil {
					key = "c07/encoder-selectors"
				}
				return harness.Violatef(key, "after step %d (%s): %s reports CSEL=%d NSEL=%d, the decoding machine holds CSEL=%d NSEL=%d", i, a.K, p.name, cs, ns, model.ModelCSel(), model.ModelNSel())
			}
		}
	}
	b2, err2 := ps[1].enc.Bytes()
	b4, err4 := ps[3].enc.Bytes()
	if err2 != nil || err4 != nil {
		return harness.Violatef("c07/bytes-error", "Bytes: %v / %v", err2, err4)
	}
	if !bytes.Equal(b2, b4) {
		return harness.Violatef("c07/logger-changes-bytes", "encoding through DestinationLogger gives different bytes")
	}
	if d := rast.DiffCalls(ps[2].rr.Calls[marks[2]:], ps[0].rr.Calls[marks[0]:]); d != "" {
		return harness.Violatef("c07/logger-changes-rendering", "rendering through DestinationLogger differs: %s", d)
	}
	// via bytes
	rect := image.Rect(c.Rect[0], c.Rect[1], c.Rect[0]+c.Rect[2], c.Rect[1]+c.Rect[3])
	rr := &rast.Recorder{}
	var z render.Renderer
	z.SetRasterizer(rr, rect)
	if err := decode.Decode(&z, append([]byte{}, b2...), decode.WithPalette([64]color.RGBA(c.Palette))); err != nil {
		return harness.Violatef("c07/decode-error", "Decode: %v", err)
	}
	if d := compareLogs(rr.Calls, ps[0].rr.Calls[marks[0]:]); d != "" {
		return harness.Violatef("c07/direct-vs-bytes", "rendering via Encoder+Decode differs from direct rendering: %s", d)
	}
	// ... and without any option: the palette given to Reset travels in the bytes as the
	// suggested palette (every entry of the generated palettes is a valid premultiplied colour)
	allValid := true
	for _, e := range c.Palette {
		allValid = allValid && spec.Premultiplied(e)
	}
	if allValid {
		rr2 := &rast.Recorder{}
		var z2 render.Renderer
		z2.SetRasterizer(rr2, rect)
		if err := decode.Decode(&z2, append([]byte{}, b2...)); err != nil {
			return harness.Violatef("c07/decode-error", "Decode: %v", err)
		}
		if d := compareLogs(rr2.Calls, ps[0].rr.Calls[marks[0]:]); d != "" {
			return harness.Violatef("c07/direct-vs-bytes", "rendering via Encoder+Decode (palette from the bytes) differs from direct rendering: %s", d)
		}
	}
	return nil
}

var subPipe = harness.Define("pipelines", "sequences of 20-60 actions (selector writes, plain and incrementing register writes of every colour kind, LOD, selector read-backs, flat paths, the Generator's four gradient helpers each followed by a path) driven through Generator->Renderer, Generator->Encoder, and both through DestinationLogger: after every step CSEL/NSEL (mod 64) of every destination equal the decoding machine's, helpers return the same error everywhere, the Encoders' bytes are equal, and decoding them gives the same rasteriser log and paints as direct rendering; non-trivial = an incrementing write precedes a selector read-back or helper call, or a selector wraps", checkPipelines)

func genStopsSpec(t *rapid.T) []StopSpec {
	n := rapid.IntRange(2, 8).Draw(t, "nstops")
	offs := map[int]bool{}
	for len(offs) < n {
		offs[rapid.IntRange(0, 120).Draw(t, "off")] = true
	}
	var out []StopSpec
	for k := 0; k <= 120; k++ {
		if offs[k] {
			c := gen.PremulColor(t, "stopcol")
			s := StopSpec{Offset: ops.F32(float32(k) / 120), Color: fmt.Sprintf("%02x%02x%02x%02x", c.R, c.G, c.B, c.A)}
			if rapid.IntRange(0, 4).Draw(t, "nrgba") == 0 {
				s.NRGBA = true
			}
			out = append(out, s)
		}
	}
	return out
}

func grid(t *rapid.T, l string) ops.F32 { return ops.F32(gen.Grid(t, l, 30)) }

func genAction(t *rapid.T) Action {
	switch rapid.IntRange(0, 14).Draw(t, "action") {
	case 14:
		if rapid.IntRange(0, 3).Draw(t, "reallyreset") == 0 {
			return Action{K: "reset"}
		}
		return Action{K: "read"}
	case 0:
		return Action{K: "csel", Sel: gen.SelArg(t, "sel")}
	case 1:
		return Action{K: "nsel", Sel: gen.SelArg(t, "sel")}
	case 2, 3, 4:
		incr := rapid.Bool().Draw(t, "incr")
		adj := uint8(0)
		if !incr {
			adj = gen.Adj(t, "adj")
		}
		c := gen.Color(t, "c")
		if c.T == 0 && !spec.Premultiplied(c.RGBA()) {
			c = ops.RGBAv(gen.PremulColor(t, "pc")) // gradient values come from the helpers here
		}
		return Action{K: "creg", Adj: adj, Incr: incr, C: &c}
	case 5, 6:
		incr := rapid.Bool().Draw(t, "incr")
		adj := uint8(0)
		if !incr {
			adj = gen.Adj(t, "adj")
		}
		return Action{K: "nreg", Adj: adj, Incr: incr, F: []ops.F32{ops.F32(float32(rapid.IntRange(-64, 192).Draw(t, "f")) / 64)}}
	case 7:
		a := Action{K: "lod", F: []ops.F32{ops.F32(rapid.SampledFrom([]int{0, 0, 0, 16, 64}).Draw(t, "lod0")), ops.F32(rapid.SampledFrom([]int{1000, 1000, 64, 65, 1 << 14}).Draw(t, "lod1"))}}
		if rapid.IntRange(0, 2).Draw(t, "lodfrac") == 0 {
			// bounds that are not whole numbers, a fraction of a pixel below or above the heights
			// the cases render at (16, 64, 77)
			a.F[0] = ops.F32(rapid.SampledFrom([]float32{0, 0.5, 15.5, 16.25, 63.75, 64.5, 76.25}).Draw(t, "lod0f"))
			a.F[1] = ops.F32(rapid.SampledFrom([]float32{1000.5, 16.25, 15.75, 64.25, 63.5, 64.75, 77.25, 76.5}).Draw(t, "lod1f"))
		}
		if rapid.IntRange(0, 4).Draw(t, "lodinf") == 0 {
			a.F[1] = ops.F32(float32(math.Inf(1))) // the default upper bound: how a graphic goes back to "always"
		}
		return a
	case 8:
		return Action{K: "read"}
	case 9:
		a := Action{K: "path", Adj: gen.Adj(t, "adj"), F: []ops.F32{grid(t, "x0"), grid(t, "y0"), grid(t, "x1"), grid(t, "y1"), grid(t, "dx"), grid(t, "dy")}}
		if rapid.Bool().Draw(t, "allverbs") {
			n := rapid.IntRange(0, 6).Draw(t, "ndraw") // 0: a path that is started and ended at once
			a.Empty = n == 0
			for i := 0; i < n; i++ {
				k := rapid.SampledFrom(gen.DrawVerbs).Draw(t, "verb")
				num := func(t *rapid.T, l string) float32 { return gen.Grid(t, l, 30) }
				o := gen.DrawOp(t, k, num, "d")
				if k == ops.AbsArcTo || k == ops.RelArcTo {
					o.F[0] = ops.F32(float32(rapid.IntRange(1*4, 30*4).Draw(t, "rx")) / 4)
					o.F[1] = ops.F32(float32(rapid.IntRange(1*4, 30*4).Draw(t, "ry")) / 4)
					o.F[2] = ops.F32(float32(rapid.IntRange(0, 7).Draw(t, "rot")) / 8)
					if q := rapid.IntRange(0, 7).Draw(t, "negr"); q < 2 {
						o.F[q] = -o.F[q] // the sign of a radius is ignored (a mirrored path has negative ones)
					}
				}
				a.Draw = append(a.Draw, o)
			}
			if rapid.IntRange(0, 5).Draw(t, "longrun") == 0 {
				// a run of one verb across the 16/32 repeat limits
				k := rapid.SampledFrom(gen.DrawVerbs[2:16]).Draw(t, "runverb")
				n := rapid.SampledFrom([]int{17, 18, 33, 40}).Draw(t, "runlen")
				for i := 0; i < n; i++ {
					a.Draw = append(a.Draw, gen.DrawOp(t, k, func(t *rapid.T, l string) float32 { return gen.Grid(t, l, 8) }, "r"))
				}
			}
			if len(a.Draw) > 0 && rapid.IntRange(0, 3).Draw(t, "closed") == 0 {
				// a polygon closed by hand: the last segment goes back to the exact start point,
				// also after a relative close-and-move has opened another sub-path in between
				if rapid.Bool().Draw(t, "closed.relmove") {
					a.Draw = append(a.Draw, ops.OpDraw(ops.ClosePathRelMoveTo, 3, 4), ops.OpDraw(ops.RelLineTo, 5, -2))
				}
				a.Draw = append(a.Draw, ops.OpDraw(ops.AbsLineTo, float32(a.F[0]), float32(a.F[1])))
			}
		}
		return a
	}
	return genHelper(t)
}

func genHelper(t *rapid.T) Action {
	a := Action{Spread: uint8(rapid.IntRange(0, 3).Draw(t, "spread")), Stops: genStopsSpec(t)}
	nz := func(l string) ops.F32 {
		v := grid(t, l)
		if v == 0 {
			v = 3
		}
		return v
	}
	switch rapid.IntRange(0, 3).Draw(t, "helper") {
	case 0:
		a.K = "linear"
		a.F = []ops.F32{grid(t, "x1"), grid(t, "y1"), 0, 0}
		a.F[2], a.F[3] = a.F[0]+nz("dx"), a.F[1]+grid(t, "dy")
	case 1:
		a.K = "circular"
		a.F = []ops.F32{grid(t, "cx"), grid(t, "cy"), nz("rx"), grid(t, "ry")}
	case 2:
		a.K = "elliptical"
		rx, sy := nz("rx"), nz("sy")
		a.F = []ops.F32{grid(t, "cx"), grid(t, "cy"), rx, 0, 0, sy}
	default:
		a.K = "gradient"
		a.Radial = rapid.Bool().Draw(t, "radial")
		m := gen.SimpleMatrix(t, "m")
		for _, v := range m {
			a.F = append(a.F, ops.F32(v))
		}
	}
	return a
}

func TestPipelines(t *testing.T) {
	harness.Rapid(t, harness.N(4000, 16*48000), func(t *rapid.T) {
		var c Case
		c.ViewBox = [4]ops.F32{-32, -32, 32, 32}
		switch rapid.IntRange(0, 3).Draw(t, "vb") {
		case 1:
			c.ViewBox = [4]ops.F32{-24, -20, 40, 44}
		case 2: // the default size at another origin (along one axis only, often)
			dx, dy := float32(rapid.IntRange(-20, 20).Draw(t, "vbdx")), float32(rapid.IntRange(-20, 20).Draw(t, "vbdy"))
			if rapid.Bool().Draw(t, "vbx") {
				dy = 0
			} else if rapid.Bool().Draw(t, "vby") {
				dx = 0
			}
			c.ViewBox = [4]ops.F32{ops.F32(-32 + dx), ops.F32(-32 + dy), ops.F32(32 + dx), ops.F32(32 + dy)}
		case 3: // the default box with one member changed
			c.ViewBox = [4]ops.F32{-32, -32, 32, 32}
			i := rapid.IntRange(0, 3).Draw(t, "vbmember")
			c.ViewBox[i] += ops.F32(float32(rapid.IntRange(1, 20).Draw(t, "vbby")) * float32(2*(i/2)-1))
		}
		c.Palette = ops.DefaultPalette()
		if rapid.Bool().Draw(t, "pal") {
			c.Palette = gen.Palette(t, "pal", true)
		}
		c.Rect = [4]int{rapid.IntRange(0, 9).Draw(t, "x0"), rapid.IntRange(0, 9).Draw(t, "y0"), rapid.SampledFrom([]int{16, 64, 100}).Draw(t, "w"), rapid.SampledFrom([]int{16, 64, 77}).Draw(t, "h")}
		n := rapid.IntRange(20, 60).Draw(t, "steps")
		labels := map[string]bool{}
		if c.ViewBox == [4]ops.F32{-32, -32, 32, 32} && c.Palette == ops.DefaultPalette() && rapid.Bool().Draw(t, "zeroenc") {
			c.ZeroValueEncoders = true
			labels["encoders-never-reset-before-the-first-call"] = true
		}
		model := &ops.Recorder{}
		sinceIncr := false
		for i := 0; i < n; i++ {
			a := genAction(t)
			if a.K == "creg" && rapid.IntRange(0, 3).Draw(t, "neighbour") == 0 {
				// a register is given the value of one close to the selector (itself, or up to
				// seven below or one above it), in the plain or the incrementing form
				d := rapid.IntRange(-1, 7).Draw(t, "neighbour.d")
				col := ops.ColorV{T: 2, R: uint8(int(model.ModelCSel())-d) & 63}
				a.C = &col
				labels["register-copied-from-one-next-to-the-selector"] = true
			}
			if m := len(c.Actions); m > 0 && rapid.IntRange(0, 7).Draw(t, "again") == 0 {
				// the value just written, written again: identical call, or through the other
				// addressing form so that it lands on the register that already holds it
				if p := c.Actions[m-1]; p.K == "csel" || p.K == "nsel" || p.K == "creg" || p.K == "nreg" || p.K == "lod" {
					a = p
					if (p.K == "creg" || p.K == "nreg") && rapid.Bool().Draw(t, "otherform") {
						if !p.Incr && p.Adj == 0 {
							a.Incr = true
						} else if p.Incr {
							a.Incr, a.Adj = false, 1
						}
					}
					labels["same-value-written-again"] = true
				}
			}
			if rapid.IntRange(0, 19).Draw(t, "spelledlike") == 0 {
				// two number-register writes of which the second is spelled exactly like the operand
				// bytes of the first: k/15120 in the two-byte zero-to-one form is (4k+1, k>>6), and
				// bytes a8+adj, 2v are "NREG[NSEL-adj] = v"
				adj := rapid.IntRange(1, 6).Draw(t, "sl.adj")
				v := rapid.IntRange(0, 60).Draw(t, "sl.v")
				k := (2*v)<<6 | (0xa8+adj)>>2
				first := Action{K: "nreg", Adj: uint8(rapid.IntRange(0, 6).Draw(t, "sl.adj0")), F: []ops.F32{ops.F32(float32(k) / 15120)}}
				c.Actions = append(c.Actions, first)
				a = Action{K: "nreg", Adj: uint8(adj), F: []ops.F32{ops.F32(float32(v))}}
				labels["instruction-spelled-like-the-previous-operand"] = true
			}
			todo := []Action{a}
			if rapid.IntRange(0, 14).Draw(t, "rewrite") == 0 {
				// a register is given a colour, given another one through the incrementing form, and
				// given the first colour again exactly as before; then a path is filled from it
				cs := model.ModelCSel()
				adj := gen.Adj(t, "rw.adj")
				r := (cs - adj) & 63
				x, y := ops.RGBAv(gen.RGBAOfClass(t, "rw.x", gen.RGBAOpaque)), ops.RGBAv(gen.RGBAOfClass(t, "rw.y", gen.RGBAOpaque))
				todo = []Action{{K: "creg", Adj: adj, C: &x}, {K: "csel", Sel: r}, {K: "creg", Incr: true, C: &y}, {K: "csel", Sel: cs}, {K: "creg", Adj: adj, C: &x},
					{K: "csel", Sel: r}, {K: "path", F: []ops.F32{-20, -20, 20, -20, 0, 40}}}
				i += len(todo) - 1
				labels["same-colour-to-the-same-register-again-after-an-incrementing-write-to-it"] = true
			}
			if i+30 < n && rapid.IntRange(0, 29).Draw(t, "walk") == 0 {
				// incrementing colour writes walk CSEL past 63 and on into the registers the gradient
				// helpers use for their stops (10...), then a helper is called: it must refuse
				// everywhere, or nowhere
				h := genHelper(t)
				from := rapid.IntRange(50, 63).Draw(t, "walk.from")
				land := 10 + rapid.IntRange(0, len(h.Stops)).Draw(t, "walk.land") // one past the stop range too
				todo = []Action{{K: "csel", Sel: uint8(from)}}
				if rapid.IntRange(0, 2).Draw(t, "walk.direct") == 0 {
					// ... or a selector argument of 64 or more that names such a register
					todo = []Action{{K: "csel", Sel: uint8(land + 64*rapid.IntRange(1, 3).Draw(t, "walk.turns"))}}
					labels["selector-argument>=64-naming-a-stop-register-then-helper"] = true
				} else {
					for k := 0; k < 64-from+land; k++ {
						col := ops.RGBAv(gen.PremulColor(t, "walk.c"))
						todo = append(todo, Action{K: "creg", Incr: true, C: &col})
					}
				}
				todo = append(todo, h, Action{K: "path", F: []ops.F32{-20, -20, 20, -20, 0, 40}})
				i += len(todo) - 1
				labels["incrementing-writes-walk-CSEL-past-63-into-the-stop-registers-then-helper"] = true
			}
			for _, a := range todo {
				c.Actions = append(c.Actions, a)
				switch a.K {
				case "csel", "nsel":
					if a.Sel >= 64 {
						labels["selector-argument>=64"] = true
					}
				case "creg", "nreg":
					if a.Incr {
						sinceIncr = true
						if a.K == "creg" && model.ModelCSel() == 63 || a.K == "nreg" && model.ModelNSel() == 63 {
							labels["selector-wraps"] = true
						}
					}
				case "read":
					if sinceIncr {
						labels["read-back-after-increment"] = true
					}
				case "linear", "circular", "elliptical", "gradient":
					labels["helper:"+a.K] = true
					if sinceIncr {
						labels["helper-after-increment"] = true
					}
					cs := model.ModelCSel()
					if cs >= 10 && int(cs) < 10+len(a.Stops) {
						labels["helper-error-path:CSEL-in-stop-range"] = true
					}
				case "path":
					if len(a.Draw) > 16 {
						labels["run-across-the-repeat-limit"] = true
					}
					for _, o := range a.Draw {
						if (o.K == ops.AbsArcTo || o.K == ops.RelArcTo) && o.LargeArc != o.Sweep {
							labels["arc-with-asymmetric-flags"] = true
						}
					}
				case "reset":
					labels["reset-mid-sequence"] = true
					model.Reset(ivg.DefaultViewBox, ivg.DefaultPalette)
					sinceIncr = false
				}
				var mg generate.Generator
				mg.SetDestination(model)
				apply(&mg, a)
			}
		}
		nt := labels["read-back-after-increment"] || labels["helper-after-increment"] || labels["selector-wraps"] || labels["reset-mid-sequence"]
		var ls []string
		for l := range labels {
			ls = append(ls, l)
		}
		subPipe.See(c, nt, harness.HashJSON(c), ls...)
		subPipe.Run(t, c)
	})
}

// The witness found by reading (D2): an incrementing write followed by a helper.
func TestIncrementThenHelper(t *testing.T) {
	harness.OnlyFirstShard(t)
	red := ops.ColorV{T: 0, R: 0xff, A: 0xff}
	c := Case{ViewBox: [4]ops.F32{-32, -32, 32, 32}, Palette: ops.DefaultPalette(), Rect: [4]int{0, 0, 64, 64}}
	c.Actions = []Action{
		{K: "creg", Incr: true, C: &red},
		{K: "read"},
		{K: "linear", F: []ops.F32{-10, 0, 10, 0}, Spread: 1, Stops: []StopSpec{{0, "ff0000ff", false}, {1, "0000ffff", false}}},
		{K: "path", F: []ops.F32{-20, -20, 20, -20, 0, 40}},
	}
	subPipe.See(c, true, harness.HashJSON(c), "table")
	subPipe.Run(t, c)
}
