// C14 — palette options override exactly what they say, and are sanitised.
package c14

import (
	"bytes"
	"fmt"
	"image"
	"image/color"
	"testing"

	"github.com/reactivego/ivg"
	"github.com/reactivego/ivg/decode"
	"github.com/reactivego/ivg/encode"
	"github.com/reactivego/ivg/render"
	"pgregory.net/rapid"

	"verif/internal/gen"
	"verif/internal/harness"
	"verif/internal/ops"
	"verif/internal/rast"
	"verif/internal/spec"
)

func TestMain(m *testing.M) { harness.Main(m, "C14") }

// ColorSpec is a color.Color of some model, serialisable.
type ColorSpec struct {
	Model string    `json:"model"` // RGBA NRGBA RGBA64 NRGBA64 Gray Gray16 Alpha Alpha16 CMYK Custom
	V     [4]uint16 `json:"v"`
}

type custom [4]uint16

func (c custom) RGBA() (r, g, b, a uint32) {
	return uint32(c[0]), uint32(c[1]), uint32(c[2]), uint32(c[3])
}

func (s ColorSpec) Color() color.Color {
	v := s.V
	switch s.Model {
	case "RGBA":
		return color.RGBA{uint8(v[0]), uint8(v[1]), uint8(v[2]), uint8(v[3])}
	case "NRGBA":
		return color.NRGBA{uint8(v[0]), uint8(v[1]), uint8(v[2]), uint8(v[3])}
	case "RGBA64":
		return color.RGBA64{v[0], v[1], v[2], v[3]}
	case "NRGBA64":
		return color.NRGBA64{v[0], v[1], v[2], v[3]}
	case "Gray":
		return color.Gray{uint8(v[0])}
	case "Gray16":
		return color.Gray16{v[0]}
	case "Alpha":
		return color.Alpha{uint8(v[0])}
	case "Alpha16":
		return color.Alpha16{v[0]}
	case "CMYK":
		return color.CMYK{uint8(v[0]), uint8(v[1]), uint8(v[2]), uint8(v[3])}
	}
	if s.Model == "Unhashable" {
		return sliceColor{v: []uint16{v[0], v[1], v[2], v[3]}}
	}
	return custom(v)
}

// sliceColor: a caller's colour type that cannot be a map key (it holds a slice).
type sliceColor struct{ v []uint16 }

func (c sliceColor) RGBA() (r, g, b, a uint32) {
	return uint32(c.v[0]), uint32(c.v[1]), uint32(c.v[2]), uint32(c.v[3])
}

type Option struct {
	Kind    string       `json:"kind"` // "palette", "at", or "custom" (a caller-written option storing Color's RGBA at Index)
	Index   int          `json:"index,omitempty"`
	Color   *ColorSpec   `json:"color,omitempty"`
	Palette *ops.Palette `json:"palette,omitempty"`
}

type Case struct {
	Suggested *ops.Palette `json:"suggested,omitempty"` // nil: the graphic has no palette chunk
	Options   []Option     `json:"options"`
	Uses      []int        `json:"uses"` // palette indices the graphic paints with
	Height    int          `json:"height"`
	// Prefix > 0: the caller first decodes with the first Prefix options only,
	// passed as a sub-slice of the same list (theme[:k]...), then with all.
	Prefix int `json:"prefix,omitempty"`
	// Observe > 0: a caller-written option placed after the first Observe-1 options looks at the
	// metadata it is handed, in a decode with a Destination and in one without.
	Observe int `json:"observe,omitempty"`
	// ReadFirst: the graphic's first instructions read colour registers (a copy of a register, a
	// blend with one) before any path has been started.
	ReadFirst bool `json:"read_first,omitempty"`
	// Padding: that many single-entry overrides (valid colours, index j%64) come before Options in
	// the list, so the list is long (65-200 options) and the options that decide come last.
	Padding int `json:"padding,omitempty"`
	// EarlierTheme: the Renderer first decodes the same bytes under another full palette.
	EarlierTheme bool `json:"earlier_theme,omitempty"`
	// PalGradient: the graphic begins with a two-stop gradient whose stop colours it never
	// writes: registers Uses[0] and Uses[0]+1 as the final palette seeded them.
	PalGradient bool `json:"pal_gradient,omitempty"`
	// Copied: the Renderer that is decoded into is a copy (plain assignment) made after SetRasterizer.
	Copied bool `json:"copied,omitempty"`
}

func paddingColour(j int) color.RGBA { return color.RGBA{uint8(j*7 + 1), uint8(j*3 + 2), uint8(255 - j), 0xff} }

// rawRGBA: the four values stored as they are (what a caller-written option may put in the palette).
func rawRGBA(cs ColorSpec) color.RGBA {
	return color.RGBA{uint8(cs.V[0]), uint8(cs.V[1]), uint8(cs.V[2]), uint8(cs.V[3])}
}

// modelAfter: the suggested (or default) palette with the first k options applied in order.
func modelAfter(c Case, k int) [64]color.RGBA {
	pm := [64]color.RGBA(ops.DefaultPalette())
	if c.Suggested != nil {
		pm = [64]color.RGBA(*c.Suggested)
	}
	for _, o := range c.Options[:k] {
		switch o.Kind {
		case "palette":
			pm = [64]color.RGBA(*o.Palette)
		case "custom":
			pm[o.Index] = rawRGBA(*o.Color)
		default:
			pm[o.Index] = modelConvert(o.Color.Color())
		}
	}
	return pm
}

// modelConvert is the documented conversion: any colour model to 8-bit
// premultiplied RGBA (what color.RGBAModel does).
func modelConvert(c color.Color) color.RGBA {
	if v, ok := c.(color.RGBA); ok {
		return v
	}
	r, g, b, a := c.RGBA()
	return color.RGBA{uint8(r >> 8), uint8(g >> 8), uint8(b >> 8), uint8(a >> 8)}
}

// buildGraphic encodes a graphic that uses palette index i in four ways:
// directly in a register, in a blend, through a CREG reference, and as the
// untouched initial content of CREG[i].
func buildGraphic(c Case) ([]byte, error) {
	var enc encode.Encoder
	if c.Suggested != nil {
		enc.Reset(ivg.DefaultViewBox, [64]color.RGBA(*c.Suggested))
	}
	square := func(adj uint8, k int) {
		x := float32(-30 + 3*(k%16))
		enc.StartPath(adj, x, -30)
		enc.AbsHLineTo(x + 2)
		enc.AbsVLineTo(-28)
		enc.AbsHLineTo(x)
		enc.ClosePathEndPath()
	}
	k := 0
	if c.PalGradient && len(c.Uses) > 0 {
		u := uint8(c.Uses[0])
		enc.SetNSel(20)
		for j, v := range []float32{1.0 / 64, 0, 0.5, 0, 1.0 / 64, 0.5} {
			enc.SetNReg(uint8(6-j), false, v)
		}
		enc.SetNReg(0, true, 0)
		enc.SetNReg(0, true, 1)
		enc.SetCSel((u + 40) & 63)
		enc.SetCReg(0, false, ivg.RGBAColor(ivg.EncodeGradient(u, 20, 0, 1, 2)))
		square(0, 15)
	}
	if c.ReadFirst && len(c.Uses) > 0 {
		u := uint8(c.Uses[0])
		enc.SetCSel((u + 33) & 63)
		enc.SetCReg(0, false, ivg.CRegColor(u))
		enc.SetCReg(1, false, ivg.BlendColor(0x80, 0xc0|u, 0x7f))
		square(0, k)
		square(1, k+1)
		k += 2
	}
	for _, i := range c.Uses {
		u := uint8(i)
		// untouched initial register contents
		enc.SetCSel(u)
		square(0, k)
		k++
		// palette index stored in another register
		enc.SetCSel((u + 20) & 63)
		enc.SetCReg(0, false, ivg.PaletteIndexColor(u))
		square(0, k)
		k++
		// blend of the palette colour with transparent, and with a register
		enc.SetCReg(1, false, ivg.BlendColor(0x60, 0x7f, 0x80|u))
		square(1, k)
		k++
		enc.SetCReg(2, false, ivg.BlendColor(0xff, 0x00, 0xc0|((u+20)&63)))
		square(2, k)
		k++
		// CREG reference to the untouched register
		enc.SetCReg(3, false, ivg.CRegColor(u))
		square(3, k)
		k++
	}
	// some number registers, so that a gradient-looking palette entry would
	// find plausible stops
	enc.SetNSel(10)
	enc.SetNReg(0, true, 0)
	enc.SetNReg(0, true, 1)
	enc.SetNReg(6, false, 1.0/64)
	for _, i := range c.Uses {
		enc.SetCSel(uint8(i))
		square(0, k)
		k++
	}
	// a register overwritten (incrementing form): the palette entry of the same number is still
	// what a palette index means, alone and as first or second operand of a blend
	for _, i := range c.Uses {
		u := uint8(i)
		enc.SetCSel(u)
		enc.SetCReg(0, true, ivg.RGBAColor(color.RGBA{0x10, 0x20, 0x30, 0xff}))
		enc.SetCSel((u + 21) & 63)
		enc.SetCReg(0, false, ivg.PaletteIndexColor(u))
		square(0, k)
		k++
		enc.SetCReg(0, false, ivg.BlendColor(0x40, 0x80|u, 0x7f))
		square(0, k)
		k++
		enc.SetCReg(0, false, ivg.BlendColor(0xc0, 0x7f, 0x80|u))
		square(0, k)
		k++
		// the palette entry blended with the (different) register of the same number, both ways
		enc.SetCReg(0, false, ivg.BlendColor(0x55, 0x80|u, 0xc0|u))
		square(0, k)
		k++
		enc.SetCReg(0, false, ivg.BlendColor(0x99, 0xc0|u, 0x80|u))
		square(0, k)
		k++
		enc.SetCSel(u)
		square(0, k)
		k++
		// ... and another register overwritten and then set back to the palette entry of its own
		// number (register u itself keeps what the incrementing write left in it: a second decode
		// into the same Renderer must seed it afresh)
		v := (u + 27) & 63
		enc.SetCSel(v)
		enc.SetCReg(0, false, ivg.RGBAColor(color.RGBA{0x30, 0x20, 0x10, 0xff}))
		enc.SetCReg(0, false, ivg.PaletteIndexColor(v))
		square(0, k)
		k++
	}
	b, err := enc.Bytes()
	return append([]byte{}, b...), err
}

func checkOptions(c Case) error {
	src, err := buildGraphic(c)
	if err != nil {
		return harness.Violatef("c14/harness", "encode: %v", err)
	}
	srcCopy := append([]byte{}, src...)

	// model
	model := [64]color.RGBA(ops.DefaultPalette())
	if c.Suggested != nil {
		model = [64]color.RGBA(*c.Suggested)
	}
	var opts []decode.DecodeOption
	var callerPalettes []*[64]color.RGBA
	var callerCopies [][64]color.RGBA
	for j := 0; j < c.Padding; j++ {
		opts = append(opts, decode.WithColorAt(j%64, paddingColour(j)))
		model[j%64] = paddingColour(j)
	}
	for _, o := range c.Options {
		switch o.Kind {
		case "palette":
			p := [64]color.RGBA(*o.Palette)
			callerPalettes = append(callerPalettes, &p)
			callerCopies = append(callerCopies, p)
			opts = append(opts, decode.WithPalette(p))
			model = p
		case "at":
			opts = append(opts, decode.WithColorAt(o.Index, o.Color.Color()))
			model[o.Index] = modelConvert(o.Color.Color())
		case "custom":
			idx, v := o.Index, rawRGBA(*o.Color)
			opts = append(opts, func(m *ivg.Metadata) { m.Palette[idx] = v })
			model[o.Index] = v
		}
	}
	if c.Prefix > 0 && c.Prefix < len(opts) {
		// an earlier decode with a prefix of the very same option list must not disturb the list
		pm := modelAfter(c, c.Prefix)
		prec := &ops.Recorder{}
		if err := decode.Decode(prec, src, opts[:c.Prefix]...); err != nil {
			return harness.Violatef("c14/decode-error", "Decode with a prefix of the options: %v", err)
		}
		gp := prec.Ops[0].Palette()
		for i := range gp {
			if spec.Premultiplied(pm[i]) && gp[i] != pm[i] {
				return harness.Violatef("c14/reset-palette", "with the first %d options: palette entry %d passed to Reset is %v, expected %v", c.Prefix, i, gp[i], pm[i])
			}
		}
	}
	sanitised := model
	for i, e := range sanitised {
		if !spec.Premultiplied(e) {
			sanitised[i] = spec.Black
		}
	}

	// (i) the palette argument of Reset
	rec := &ops.Recorder{}
	if err := decode.Decode(rec, src, opts...); err != nil {
		return harness.Violatef("c14/decode-error", "Decode: %v", err)
	}
	got := rec.Ops[0].Palette()
	for i := range got {
		if got[i] == sanitised[i] {
			continue
		}
		if !spec.Premultiplied(model[i]) && got[i] == model[i] {
			continue // sanitising may happen further down; observed at the paint below
		}
		return harness.Violatef("c14/reset-palette", "palette entry %d passed to Reset is %v; options applied in order on the suggested palette give %v", i, got[i], model[i])
	}

	// (i') what a caller-written option sees at its place in the list
	if c.Observe > 0 {
		k := c.Observe - 1
		if k > len(opts) {
			k = len(opts)
		}
		pm := modelAfter(c, k)
		for _, withDst := range []bool{true, false} {
			var seen ivg.Metadata
			calls := 0
			obs := func(m *ivg.Metadata) { seen = *m; calls++ }
			list := append(append(append([]decode.DecodeOption{}, opts[:k]...), obs), opts[k:]...)
			var err error
			if withDst {
				err = decode.Decode(&ops.Recorder{}, src, list...)
			} else {
				err = decode.Decode(nil, src, list...)
			}
			if err != nil {
				return harness.Violatef("c14/decode-error", "Decode (destination: %v) with an observing option: %v", withDst, err)
			}
			if calls == 0 {
				return harness.Violatef("c14/option-not-applied", "a caller-written option at position %d was never called (destination: %v)", k, withDst)
			}
			if vb := rec.Ops[0].ViewBox(); seen.ViewBox != vb {
				return harness.Violatef("c14/option-sees-metadata", "the option at position %d sees viewBox %v, the graphic has %v (destination: %v)", k, seen.ViewBox, vb, withDst)
			}
			for i := range pm {
				if seen.Palette[i] == pm[i] || !spec.Premultiplied(pm[i]) && seen.Palette[i] == spec.Black {
					continue
				}
				return harness.Violatef("c14/option-sees-metadata", "the option at position %d sees palette entry %d = %v; the suggested palette with the %d options before it gives %v (destination: %v)", k, i, seen.Palette[i], k, pm[i], withDst)
			}
		}
	}

	// (ii) the paint of every path, through a Renderer; then once more into the same Renderer
	// (the options seed the registers again at every decode)
	rr := &rast.Recorder{}
	var z render.Renderer
	z.SetRasterizer(rr, image.Rect(0, 0, 64, c.Height))
	if c.Copied {
		z2 := z // a Renderer is a plain struct: a copy is as good as the original
		z = render.Renderer{}
		return paintPart(c, &z2, rr, src, opts, sanitised, rec, srcCopy, callerPalettes, callerCopies)
	}
	return paintPart(c, &z, rr, src, opts, sanitised, rec, srcCopy, callerPalettes, callerCopies)
}

func paintPart(c Case, zp *render.Renderer, rr *rast.Recorder, src []byte, opts []decode.DecodeOption, sanitised [64]color.RGBA, rec *ops.Recorder, srcCopy []byte, callerPalettes []*[64]color.RGBA, callerCopies [][64]color.RGBA) error {
	if c.EarlierTheme {
		var other [64]color.RGBA
		for i := range other {
			other[i] = color.RGBA{uint8(0x90 + i), uint8(3 * i), uint8(0xf0 - 2*i), 0xff}
		}
		if err := decode.Decode(zp, src, decode.WithPalette(other)); err != nil {
			return harness.Violatef("c14/decode-error", "Decode into a Renderer under another palette: %v", err)
		}
		// ... and then another graphic under that palette: the same colour-register writes
		// in the opposite order, so that its last one is this graphic's first one
		var e2 encode.Encoder
		for i := len(rec.Ops) - 1; i > 0; i-- {
			if o := rec.Ops[i]; o.K == ops.SetCReg {
				o.Adj, o.Incr = 0, false
				ops.Apply(&e2, o)
			}
		}
		e2.StartPath(0, 1, 1)
		e2.AbsLineTo(9, 9)
		e2.ClosePathEndPath()
		if b2, err := e2.Bytes(); err == nil {
			decode.Decode(zp, append([]byte{}, b2...), decode.WithPalette(other))
		}
	}
	for pass := 0; pass < 2; pass++ {
		rr.Calls = rr.Calls[:0]
		hook := &ops.Recorder{Inner: zp}
		if err := decode.Decode(hook, src, opts...); err != nil {
			return harness.Violatef("c14/decode-error", "Decode into a Renderer: %v", err)
		}
		var vm spec.VM
		vm.Reset(sanitised)
		var want []*spec.PathPaint
		for _, o := range hook.Ops[1:] {
			if pp := vm.Step(o, c.Height); pp != nil {
				want = append(want, pp)
			}
		}
		var draws []*rast.Paint
		starts := 0
		for _, cl := range rr.Calls {
			if cl.K == rast.Reset {
				starts++
			}
			if cl.K == rast.Draw {
				draws = append(draws, cl.P)
			}
		}
		di := 0
		for pi, pp := range want {
			switch pp.Kind {
			case spec.PaintSkipped:
				continue
			case spec.PaintFlat:
				if di >= len(draws) {
					return harness.Violatef("c14/paint", "path %d must be painted flat %v (palette-derived) but was not drawn at all (%d draws in total, %d expected so far)", pi, pp.Flat, len(draws), di+1)
				}
				d := draws[di]
				di++
				if d.Kind != "uniform" || d.Uniform != pp.Flat {
					return harness.Violatef("c14/paint", "path %d painted with %v; the options give palette-derived colour %v", pi, describe(d), pp.Flat)
				}
			case spec.PaintGradient:
				if di >= len(draws) {
					return harness.Violatef("c14/paint", "path %d must be painted with a gradient of the palette-derived colours %v but was not drawn", pi, pp.Grad.Colors)
				}
				d := draws[di]
				di++
				if d.Kind != "gradient" || len(d.Colors) != len(pp.Grad.Colors) {
					return harness.Violatef("c14/paint", "path %d painted with %v; the options give a gradient of the palette-derived colours %v", pi, describe(d), pp.Grad.Colors)
				}
				for i := range d.Colors {
					if d.Colors[i] != pp.Grad.Colors[i] {
						return harness.Violatef("c14/paint", "path %d: gradient stop %d is %v; the options give the palette-derived colour %v", pi, i, d.Colors[i], pp.Grad.Colors[i])
					}
				}
			default:
				return harness.Violatef("c14/harness", "reference prescribes %v for a palette-driven graphic", pp.Kind)
			}
		}
		if di != len(draws) {
			return harness.Violatef("c14/paint", "%d paths drawn, %d expected (a user palette entry acted as something other than a flat colour?)", len(draws), di)
		}
	}

	// (iii) inputs untouched
	if !bytes.Equal(src, srcCopy) {
		return harness.Violatef("c14/input-modified", "the encoded bytes were modified")
	}
	for i, p := range callerPalettes {
		if *p != callerCopies[i] {
			return harness.Violatef("c14/caller-palette-modified", "the caller's palette array was modified")
		}
	}
	return nil
}

func describe(p *rast.Paint) string {
	if p.Kind == "uniform" {
		return fmt.Sprintf("flat %v", p.Uniform)
	}
	return p.Kind
}

var subOpt = harness.Define("options", "option lists (0-6 of WithPalette / WithColorAt / caller-written options storing a raw value, in any order, runs of identical entries, any color.Color model, valid and nonsensical values incl. gradient-looking ones) x graphics with or without a suggested palette that paint from palette indices directly, in blends, through CREG references and as untouched initial registers: Reset's palette equals the ordered-application model, a caller-written option placed anywhere in the list sees the graphic's viewBox and the palette as the options before it left it (with and without a Destination), every path's paint equals the reference VM on the sanitised palette (nonsensical user entries act as opaque black), inputs untouched; non-trivial = at least one option and a painted index that an option touches", checkOptions)

func genColorSpec(t *rapid.T, label string) ColorSpec {
	model := rapid.SampledFrom([]string{"RGBA", "RGBA", "NRGBA", "RGBA64", "NRGBA64", "Gray", "Gray16", "Alpha", "Alpha16", "CMYK", "Custom", "Unhashable"}).Draw(t, label+".model")
	var v [4]uint16
	switch model {
	case "RGBA":
		c := gen.AnyRGBA(t, label)
		v = [4]uint16{uint16(c.R), uint16(c.G), uint16(c.B), uint16(c.A)}
	case "RGBA64":
		a := rapid.Uint16().Draw(t, label+".a")
		for i := 0; i < 3; i++ {
			v[i] = uint16(rapid.IntRange(0, int(a)).Draw(t, label+".c"))
		}
		v[3] = a
	case "Custom", "Unhashable":
		// arbitrary 16-bit quadruple, possibly not premultiplied
		for i := range v {
			v[i] = rapid.Uint16().Draw(t, label+".c")
		}
		if rapid.Bool().Draw(t, label+".gradlike") {
			v[3] = 0
			v[2] |= 0x8000
		}
	default:
		for i := range v {
			v[i] = uint16(rapid.IntRange(0, 255).Draw(t, label+".c"))
		}
		if model == "Gray16" || model == "Alpha16" || model == "NRGBA64" {
			for i := range v {
				v[i] = rapid.Uint16().Draw(t, label+".c16")
			}
		}
	}
	return ColorSpec{Model: model, V: v}
}

func TestOptions(t *testing.T) {
	harness.Rapid(t, harness.N(12000, 16*240000), func(t *rapid.T) {
		var c Case
		if rapid.Bool().Draw(t, "suggested") {
			p := gen.Palette(t, "sugg", true)
			c.Suggested = &p
		}
		nu := rapid.IntRange(1, 3).Draw(t, "nuses")
		for i := 0; i < nu; i++ {
			c.Uses = append(c.Uses, rapid.SampledFrom([]int{0, 1, 2, 10, 11, 43, 62, 63}).Draw(t, "use"))
		}
		c.Height = rapid.SampledFrom([]int{16, 64}).Draw(t, "h")
		no := rapid.IntRange(0, 6).Draw(t, "nopts")
		touched := false
		var labels []string
		if rapid.IntRange(0, 3).Draw(t, "earliertheme") == 0 {
			c.EarlierTheme = true
			labels = append(labels, "renderer-decoded-the-same-bytes-under-another-palette-before")
		}
		for i := 0; i < no; i++ {
			if n := len(c.Options); n > 0 && rapid.IntRange(0, 5).Draw(t, "again") == 0 {
				// the option before put a colour somewhere; this one puts the very same colour at the
				// very same index again (WithPalette(theme), WithColorAt(i, theme[i]))
				prev := c.Options[n-1]
				o := prev
				if prev.Kind == "palette" {
					idx := c.Uses[rapid.IntRange(0, len(c.Uses)-1).Draw(t, "againwhich")]
					v := (*prev.Palette)[idx]
					cs := ColorSpec{Model: "RGBA", V: [4]uint16{uint16(v.R), uint16(v.G), uint16(v.B), uint16(v.A)}}
					o = Option{Kind: rapid.SampledFrom([]string{"at", "custom"}).Draw(t, "againkind"), Index: idx, Color: &cs}
					if !spec.Premultiplied(v) {
						labels = append(labels, "same-nonsensical-colour-put-at-the-same-index-by-two-options-in-a-row")
					}
				}
				c.Options = append(c.Options, o)
				touched = true
				labels = append(labels, "same-colour-put-at-the-same-index-by-two-options-in-a-row")
				continue
			}
			if rapid.IntRange(0, 3).Draw(t, "kind") == 0 {
				p := gen.Palette(t, "optpal", rapid.Bool().Draw(t, "validpal"))
				if rapid.Bool().Draw(t, "fillused") {
					for _, u := range c.Uses {
						p[u] = gen.AnyRGBA(t, "used")
					}
				}
				if rapid.IntRange(0, 2).Draw(t, "run") == 0 {
					// a run of neighbouring entries holding one and the same colour (often nonsensical)
					v := gen.AnyRGBA(t, "runcol")
					a := rapid.IntRange(0, 62).Draw(t, "runfrom")
					b := a + rapid.IntRange(1, 5).Draw(t, "runlen")
					if rapid.Bool().Draw(t, "runatused") {
						a = c.Uses[rapid.IntRange(0, len(c.Uses)-1).Draw(t, "runuse")] - rapid.IntRange(0, 2).Draw(t, "runback")
						if a < 0 {
							a = 0
						}
						b = a + rapid.IntRange(2, 5).Draw(t, "runlen2")
					}
					for i := a; i <= b && i < 64; i++ {
						p[i] = v
					}
					labels = append(labels, "palette-with-a-run-of-identical-entries")
					if !spec.Premultiplied(v) {
						labels = append(labels, "run-of-identical-nonsensical-entries")
					}
				}
				c.Options = append(c.Options, Option{Kind: "palette", Palette: &p})
				touched = true
				labels = append(labels, "with-palette")
			} else if rapid.IntRange(0, 4).Draw(t, "custom") == 0 {
				// a caller-written option that stores a raw RGBA value (any four bytes) in the palette
				idx := c.Uses[rapid.IntRange(0, len(c.Uses)-1).Draw(t, "customwhich")]
				if rapid.IntRange(0, 3).Draw(t, "customelse") == 0 {
					idx = rapid.IntRange(0, 63).Draw(t, "customidx")
				}
				v := gen.AnyRGBA(t, "customcol")
				cs := ColorSpec{Model: "RGBA", V: [4]uint16{uint16(v.R), uint16(v.G), uint16(v.B), uint16(v.A)}}
				c.Options = append(c.Options, Option{Kind: "custom", Index: idx, Color: &cs})
				touched = true
				labels = append(labels, "caller-written-option-writes-the-palette")
				if !spec.Premultiplied(v) {
					labels = append(labels, "nonsensical-user-colour")
				}
			} else {
				idx := rapid.IntRange(0, 63).Draw(t, "idx")
				if rapid.IntRange(0, 2).Draw(t, "hit") != 0 {
					idx = c.Uses[rapid.IntRange(0, len(c.Uses)-1).Draw(t, "hitwhich")]
					touched = true
				}
				cs := genColorSpec(t, "col")
				if n := len(c.Options); n > 0 && c.Options[n-1].Kind == "at" && rapid.IntRange(0, 3).Draw(t, "same") == 0 {
					// the same colour again on a neighbouring index
					cs = *c.Options[n-1].Color
					idx = (c.Options[n-1].Index + rapid.SampledFrom([]int{1, 63}).Draw(t, "nb")) % 64
					labels = append(labels, "same-colour-on-neighbouring-index")
				}
				c.Options = append(c.Options, Option{Kind: "at", Index: idx, Color: &cs})
				labels = append(labels, "with-color-at:"+cs.Model)
				conv := modelConvert(cs.Color())
				if !spec.Premultiplied(conv) {
					labels = append(labels, "nonsensical-user-colour")
					if spec.IsGradient(conv) {
						labels = append(labels, "gradient-looking-user-colour")
					}
				}
			}
		}
		if c.Suggested != nil {
			labels = append(labels, "has-suggested-palette")
		}
		if no >= 2 && rapid.Bool().Draw(t, "prefix") {
			c.Prefix = rapid.IntRange(1, no-1).Draw(t, "prefixlen")
			labels = append(labels, "decoded-first-with-a-prefix-of-the-option-list")
		}
		if rapid.IntRange(0, 2).Draw(t, "observe") == 0 {
			c.Observe = 1 + rapid.IntRange(0, no).Draw(t, "observeat")
			labels = append(labels, "caller-written-option-observes-the-metadata")
		}
		if c.Prefix == 0 && c.Observe == 0 && no > 0 && rapid.IntRange(0, 3).Draw(t, "padding") == 0 {
			c.Padding = rapid.SampledFrom([]int{58, 59, 63, 64, 65, 100, 127, 128, 200, 255, 256}).Draw(t, "npadding")
			labels = append(labels, "long-option-list(59-260)")
		}
		if rapid.IntRange(0, 3).Draw(t, "palgradient") == 0 {
			c.PalGradient = true
			labels = append(labels, "gradient-whose-stops-are-the-palette's-entries-(never-written)")
		}
		if rapid.IntRange(0, 3).Draw(t, "copied") == 0 {
			c.Copied = true
			labels = append(labels, "renderer-copied-after-SetRasterizer")
		}
		if rapid.IntRange(0, 2).Draw(t, "readfirst") == 0 {
			c.ReadFirst = true
			labels = append(labels, "graphic-reads-a-colour-register-before-its-first-path")
		}
		subOpt.See(c, no > 0 && touched, harness.HashJSON(c), labels...)
		subOpt.Run(t, c)
	})
}

// The witness found by reading (D6) and a few fixed orderings.
func TestOptionTable(t *testing.T) {
	harness.OnlyFirstShard(t)
	grad := ColorSpec{Model: "RGBA", V: [4]uint16{0x02, 0x4a, 0x8a, 0x00}}
	red := ColorSpec{Model: "NRGBA", V: [4]uint16{0xff, 0, 0, 0x80}}
	pal := ops.DefaultPalette()
	pal[0] = color.RGBA{0x10, 0x20, 0x30, 0xff}
	sugg := ops.DefaultPalette()
	sugg[0] = color.RGBA{0, 0xff, 0, 0xff}
	sugg[1] = color.RGBA{0, 0, 0xff, 0xff}
	cases := []Case{
		{Uses: []int{0}, Height: 64, Options: []Option{{Kind: "at", Index: 0, Color: &grad}}},
		{Uses: []int{0, 1}, Height: 64, Suggested: &sugg, Options: []Option{{Kind: "at", Index: 0, Color: &red}}},
		{Uses: []int{0, 1}, Height: 64, Suggested: &sugg, Options: []Option{{Kind: "at", Index: 1, Color: &red}, {Kind: "palette", Palette: &pal}}},
		{Uses: []int{0, 1}, Height: 64, Suggested: &sugg, Options: []Option{{Kind: "palette", Palette: &pal}, {Kind: "at", Index: 1, Color: &red}}},
		{Uses: []int{0, 1}, Height: 64, Suggested: &sugg},
	}
	for i, c := range cases {
		subOpt.See(c, true, harness.HashJSON(c), "table")
		if err := subOpt.Eval(c); err != nil {
			t.Fatalf("table case %d: %v", i, err)
		}
	}
}
