// C15 — gradient paint: premultiplied interpolation, spread modes, geometry.
package c15

import (
	"fmt"
	"image"
	"image/color"
	"math"
	"testing"

	"github.com/reactivego/ivg"
	"github.com/reactivego/ivg/render"
	"pgregory.net/rapid"

	"verif/internal/gen"
	"verif/internal/harness"
	"verif/internal/ops"
	"verif/internal/rast"
	"verif/internal/spec"
)

func TestMain(m *testing.M) { harness.Main(m, "C15") }

type Stop struct {
	Offset ops.F32 `json:"offset"`
	Color  string  `json:"color"` // rrggbbaa premultiplied
}

type Case struct {
	Radial bool       `json:"radial"`
	Spread uint8      `json:"spread"`
	Stops  []Stop     `json:"stops"`
	Matrix [6]float64 `json:"matrix"` // level 1: pixel->gradient; level 2: viewBox->gradient (float32 values)
	Pixels [][2]int   `json:"pixels"`
	// level 2 (end to end): registers -> Renderer -> paint at Draw
	EndToEnd bool       `json:"end_to_end"`
	ViewBox  [4]ops.F32 `json:"viewbox"`
	Rect     [4]int     `json:"rect"`
	// Dyadic: matrix entries, pixel scale and stop offsets are such that the
	// offset of every pixel is computed exactly in float64 (linear), or exactly
	// wherever gy is 0 (radial): no interval is needed there, so offsets that
	// land exactly on 0 or 1 are inside [0,1].
	Dyadic bool `json:"dyadic,omitempty"`
	// Portions (level 1): the Gradient is not built by Init but by hand from its exported fields,
	// its ranges accumulated with AppendRanges in several calls of these many stops each (the
	// documented continuation form; the first portion has at least two stops).
	Portions []int `json:"portions,omitempty"`
	// Aim (level 2): how the Renderer gets its rectangle. 0: SetRasterizer, then Reset; 1: Reset,
	// then SetRasterizer; 2: SetRasterizer with a rectangle of another size, Reset, then
	// SetRasterizer with the real one (a caller that learns the size late).
	Aim int `json:"aim,omitempty"`
	// Bases (level 2): CBASE and NBASE of the register block (nil: 10 and 10); blocks may wrap past 63.
	Bases *[2]uint8 `json:"bases,omitempty"`
	// Second (level 2): after the first path one register of the block is rewritten and a second
	// path is filled with the same gradient value; the pixels are taken from that second path.
	Second *Second `json:"second,omitempty"`
}

type Second struct {
	Stop  int    `json:"stop"`  // index of the stop whose colour is replaced, or -1
	Color string `json:"color"` // its new colour
	// ShiftC: added to the matrix entry c (the x translation) when Stop is -1; a multiple of 1/4
	ShiftC float64 `json:"shift_c,omitempty"`
}

func parseColor(s string) color.RGBA {
	var r, g, b, a uint8
	fmt.Sscanf(s, "%02x%02x%02x%02x", &r, &g, &b, &a)
	return color.RGBA{r, g, b, a}
}

func fmtColor(c color.RGBA) string { return fmt.Sprintf("%02x%02x%02x%02x", c.R, c.G, c.B, c.A) }

const eps64 = 1.0 / (1 << 52)
const eps32 = 1.0 / (1 << 23)

func checkGradient(c Case) error {
	stops16 := make([]spec.Stop16, len(c.Stops))
	for i, s := range c.Stops {
		col := parseColor(s.Color)
		stops16[i] = spec.Stop16{Offset: float64(s.Offset), R: float64(col.R) * 257, G: float64(col.G) * 257, B: float64(col.B) * 257, A: float64(col.A) * 257}
	}
	var at func(x, y int) color.Color
	var m [6]float64 // pixel -> gradient, reference
	var mErr [6]float64
	if !c.EndToEnd {
		var g render.Gradient
		rs := make([]render.Stop, len(c.Stops))
		for i, s := range c.Stops {
			col := parseColor(s.Color)
			rs[i] = render.Stop{Offset: float64(s.Offset), RGBA64: color.RGBA64{R: uint16(col.R) * 257, G: uint16(col.G) * 257, B: uint16(col.B) * 257, A: uint16(col.A) * 257}}
		}
		if len(c.Stops)%2 == 0 {
			// the Gradient object was used before, with more stops and another geometry
			prev := make([]render.Stop, 0, len(rs)+3)
			for i := 0; i < len(rs)+3; i++ {
				prev = append(prev, render.Stop{Offset: float64(i) / float64(len(rs)+2), RGBA64: color.RGBA64{R: 0x1111, G: 0x2222, B: 0x3333, A: 0xffff}})
			}
			g.Init(render.Shape(1-b2i(c.Radial)), render.Spread((c.Spread+1)&3), render.Aff3{1, 2, 3, 4, 5, 6}, prev)
			g.At(3, 4)
		}
		if len(c.Portions) > 0 {
			g = render.Gradient{Shape: render.Shape(b2i(c.Radial)), Spread: render.Spread(c.Spread), Pix2Grad: render.Aff3(c.Matrix), First: rs[0].RGBA64, Last: rs[len(rs)-1].RGBA64}
			k := 0
			for _, n := range c.Portions {
				g.Ranges = render.AppendRanges(g.Ranges, rs[k:k+n])
				k += n
			}
			if k != len(rs) || len(g.Ranges) != len(rs)-1 {
				return harness.Violatef("c15/append-ranges", "AppendRanges in portions %v of %d stops gives %d ranges, expected %d", c.Portions, len(rs), len(g.Ranges), len(rs)-1)
			}
		} else if !g.Init(render.Shape(b2i(c.Radial)), render.Spread(c.Spread), render.Aff3(c.Matrix), rs) {
			return harness.Violatef("c15/init", "Gradient.Init rejects %d valid stops", len(rs))
		}
		// the stop list was the caller's: it may be reused for something else at once
		for i := range rs {
			rs[i] = render.Stop{Offset: float64(len(rs) - i), RGBA64: color.RGBA64{R: 1, G: 2, B: 3, A: 0xffff}}
		}
		at = g.At
		m = c.Matrix
	} else {
		// program the registers, render one path, capture the paint
		vb := [4]float32{float32(c.ViewBox[0]), float32(c.ViewBox[1]), float32(c.ViewBox[2]), float32(c.ViewBox[3])}
		rect := image.Rect(c.Rect[0], c.Rect[1], c.Rect[0]+c.Rect[2], c.Rect[1]+c.Rect[3])
		pts := make([]image.Point, len(c.Pixels))
		for i, p := range c.Pixels {
			pts[i] = image.Pt(p[0], p[1])
		}
		rr := &rast.Recorder{Points: pts}
		var z render.Renderer
		switch c.Aim {
		case 1:
			z.Reset(gen.VB(vb), ivg.DefaultPalette)
			z.SetRasterizer(rr, rect)
		case 2:
			z.SetRasterizer(rr, image.Rect(1, 2, 1+3*c.Rect[2]+5, 2+c.Rect[3]/2+1))
			z.Reset(gen.VB(vb), ivg.DefaultPalette)
			z.SetRasterizer(rr, rect)
		default:
			z.SetRasterizer(rr, rect)
			z.Reset(gen.VB(vb), ivg.DefaultPalette)
		}
		n := len(c.Stops)
		cb, nb := uint8(10), uint8(10)
		if c.Bases != nil {
			cb, nb = c.Bases[0]&63, c.Bases[1]&63
		}
		z.SetCSel(cb)
		z.SetNSel(nb)
		for i := 0; i < 6; i++ {
			z.SetNReg(uint8(6-i), false, float32(c.Matrix[i]))
		}
		for _, s := range c.Stops {
			z.SetCReg(0, true, ivg.RGBAColor(parseColor(s.Color)))
			z.SetNReg(0, true, float32(s.Offset))
		}
		z.SetCSel(cb - 1) // the register just below the block: 58 stops leave six free
		z.SetCReg(0, false, ivg.RGBAColor(spec.EncodeGradientBits(spec.GradientBits{NStops: uint8(n), CBase: cb, NBase: nb, Spread: c.Spread, Radial: c.Radial})))
		fillBox := func() {
			z.StartPath(0, vb[0], vb[1])
			z.AbsLineTo(vb[2], vb[1])
			z.AbsLineTo(vb[2], vb[3])
			z.AbsLineTo(vb[0], vb[3])
			z.ClosePathEndPath()
		}
		fillBox()
		if sec := c.Second; sec != nil {
			if sec.Stop >= 0 && sec.Stop < n {
				z.SetCSel(cb + uint8(sec.Stop))
				z.SetCReg(0, false, ivg.RGBAColor(parseColor(sec.Color)))
				col := parseColor(sec.Color)
				stops16[sec.Stop] = spec.Stop16{Offset: stops16[sec.Stop].Offset, R: float64(col.R) * 257, G: float64(col.G) * 257, B: float64(col.B) * 257, A: float64(col.A) * 257}
			} else {
				c.Matrix[2] = float64(float32(c.Matrix[2] + sec.ShiftC))
				z.SetNSel(nb - 4)
				z.SetNReg(0, false, float32(c.Matrix[2]))
			}
			z.SetCSel(cb - 1)
			fillBox()
		}
		if len(rr.Calls) == 0 || rr.Calls[len(rr.Calls)-1].K != rast.Draw || rr.Calls[len(rr.Calls)-1].P.Kind != "gradient" {
			return harness.Violatef("c15/not-drawn", "a path filled with a valid %d-stop gradient was not drawn with a gradient paint (%d rasteriser calls)", n, len(rr.Calls))
		}
		p := rr.Calls[len(rr.Calls)-1].P
		k := 0
		at = func(x, y int) color.Color { cc := p.Lattice[k]; k++; return cc }
		// reference composition: pixel -> viewBox -> gradient
		sx := float64(c.Rect[2]) / (float64(vb[2]) - float64(vb[0]))
		sy := float64(c.Rect[3]) / (float64(vb[3]) - float64(vb[1]))
		a, b, cc, d, e, f := c.Matrix[0], c.Matrix[1], c.Matrix[2], c.Matrix[3], c.Matrix[4], c.Matrix[5]
		m = [6]float64{a / sx, b / sy, cc + a*float64(vb[0]) + b*float64(vb[1]), d / sx, e / sy, f + d*float64(vb[0]) + e*float64(vb[1])}
		// the Renderer keeps its pixel scale in float32
		mErr = [6]float64{2 * eps32 * math.Abs(m[0]), 2 * eps32 * math.Abs(m[1]), 0, 2 * eps32 * math.Abs(m[3]), 2 * eps32 * math.Abs(m[4]), 0}
		if exactScale(c) {
			mErr = [6]float64{}
		}
	}
	for _, p := range c.Pixels {
		px, py := float64(p[0])+0.5, float64(p[1])+0.5
		gx := m[0]*px + m[1]*py + m[2]
		dx := 8*eps64*(math.Abs(m[0]*px)+math.Abs(m[1]*py)+math.Abs(m[2])) + mErr[0]*math.Abs(px) + mErr[1]*math.Abs(py)
		o, delta := gx, dx
		if c.Radial {
			gy := m[3]*px + m[4]*py + m[5]
			dy := 8*eps64*(math.Abs(m[3]*px)+math.Abs(m[4]*py)+math.Abs(m[5])) + mErr[3]*math.Abs(px) + mErr[4]*math.Abs(py)
			o = math.Hypot(gx, gy)
			delta = dx + dy + 8*eps64*o
		}
		disc := delta
		if c.Dyadic && (!c.Radial || m[3]*px+m[4]*py+m[5] == 0) {
			disc = 0 // the offset is exact: exactly 0 or 1 lies inside [0,1]
		}
		if math.Abs(o)-delta >= 1<<54 {
			// every float64 this far out is an even integer: whatever the rounding on the way,
			// the fractional part is 0 and the parity even
			delta, disc = 0, 0
			astronomic++
		}
		rr, gg, bb, aa := at(p[0], p[1]).RGBA()
		got := [4]float64{float64(rr), float64(gg), float64(bb), float64(aa)}
		if rr > aa || gg > aa || bb > aa {
			return harness.Violatef("c15/not-premultiplied", "pixel (%d,%d) offset %v: colour %v is not a valid premultiplied colour", p[0], p[1], o, got)
		}
		cands := spec.GradientCandidates2(stops16, c.Spread, o, disc, delta)
		ok := false
		for _, cd := range cands {
			w := [4]float64{cd.R, cd.G, cd.B, cd.A}
			match := true
			for ch := 0; ch < 4; ch++ {
				if math.Abs(got[ch]-w[ch]) > cd.Tol {
					match = false
				}
			}
			if match {
				ok = true
				break
			}
		}
		if !ok {
			key := "c15/colour"
			if c.Spread == 2 && o == math.Trunc(o) && int64(math.Abs(o))%2 == 1 {
				key = "c15/reflect-odd-integer"
			}
			return harness.Violatef(key, "pixel (%d,%d): offset %.17g (+-%.3g), spread %d: got %v, allowed %s", p[0], p[1], o, delta, c.Spread, got, describe(cands))
		}
	}
	return nil
}

var astronomic int64

func exactScale(c Case) bool {
	w := float64(c.ViewBox[2]) - float64(c.ViewBox[0])
	h := float64(c.ViewBox[3]) - float64(c.ViewBox[1])
	fx, _ := math.Frexp(float64(c.Rect[2]) / w)
	fy, _ := math.Frexp(float64(c.Rect[3]) / h)
	return fx == 0.5 && fy == 0.5 && w == math.Trunc(w) && h == math.Trunc(h)
}

func describe(cs []spec.Candidate) string {
	s := ""
	for _, c := range cs {
		s += fmt.Sprintf("[%.2f %.2f %.2f %.2f]+-%.3g (%s) ", c.R, c.G, c.B, c.A, c.Tol, c.Why)
	}
	return s
}

func b2i(b bool) int {
	if b {
		return 1
	}
	return 0
}

var subGrad = harness.Define("gradient", "gradients (2-58 strictly increasing stops on exact grids, premultiplied colours incl. transparent, four spreads, two shapes, dyadic or general matrices) evaluated at pixels constructed to hit interior points, exact stop offsets, exact odd/even/negative integers, far-out offsets and offsets of 2^54..2^100 under astronomically steep matrices, at render.Gradient.At (built by Init, also on a reused object, or by hand with AppendRanges in portions) and end to end through the Renderer (paint captured at Draw; register blocks at any CBASE/NBASE incl. wrapping ones; also the paint of a second path after one register of the block was rewritten): colour within 1+2*slope*delta of the premultiplied piece-wise linear interpolation at the spread-mapped offset (interval handling at discontinuities), valid premultiplied; non-trivial = an offset outside [0,1] or exactly on a stop/integer", checkGradient)

func pow2(t *rapid.T, label string, lo, hi int) float64 {
	v := math.Ldexp(1, rapid.IntRange(lo, hi).Draw(t, label))
	if rapid.Bool().Draw(t, label+".neg") {
		v = -v
	}
	return v
}

var evenRamps int64

func genStops(t *rapid.T) []Stop {
	n := rapid.SampledFrom([]int{2, 2, 3, 3, 4, 5, 8, 20, 58}).Draw(t, "nstops")
	offs := gen.Offsets(t, n, "off")
	if rapid.IntRange(0, 5).Draw(t, "even") == 0 {
		// evenly spaced stops on a power-of-two grid (what a ramp sampled from a colour map looks
		// like): every width is bit-identical, the first offset may sit well above 0
		den := 16 << uint(rapid.IntRange(0, 4).Draw(t, "even.den"))
		n = rapid.IntRange(2, min(58, den+1)).Draw(t, "even.n")
		if n < 9 && den+1 >= 9 && rapid.Bool().Draw(t, "even.long") {
			n = rapid.IntRange(9, min(58, den+1)).Draw(t, "even.n2")
		}
		step := rapid.IntRange(1, den/(n-1)).Draw(t, "even.step")
		k0 := rapid.IntRange(0, den-(n-1)*step).Draw(t, "even.k0")
		offs = offs[:0]
		for i := 0; i < n; i++ {
			offs = append(offs, float32(k0+i*step)/float32(den))
		}
		evenRamps++
	}
	if n >= 3 && rapid.IntRange(0, 4).Draw(t, "hardedge") == 0 {
		// a hard edge: a stop one float32 step above its predecessor (strictly increasing still)
		i := rapid.IntRange(0, n-2).Draw(t, "hardedge.at")
		if next := math.Nextafter32(offs[i], 2); i+2 >= n || next < offs[i+2] {
			if next <= 1 {
				offs[i+1] = next
			}
		}
	}
	out := make([]Stop, n)
	for i := range out {
		out[i] = Stop{Offset: ops.F32(offs[i]), Color: fmtColor(gen.PremulColor(t, "col"))}
	}
	return out
}

func genCase(t *rapid.T) (Case, []string) {
	var c Case
	inexactTarget := true
	var labels []string
	c.Radial = rapid.Bool().Draw(t, "radial")
	c.Spread = uint8(rapid.IntRange(0, 3).Draw(t, "spread"))
	c.Stops = genStops(t)
	c.EndToEnd = rapid.IntRange(0, 2).Draw(t, "e2e") == 0
	c.ViewBox = [4]ops.F32{-32, -32, 32, 32}
	c.Rect = [4]int{0, 0, 64, 64}
	exact := true
	if c.EndToEnd {
		labels = append(labels, "end-to-end")
		if c.Aim = rapid.SampledFrom([]int{0, 0, 1, 2}).Draw(t, "aim"); c.Aim == 2 {
			labels = append(labels, "renderer-aimed-at-a-rectangle-of-another-size-before-Reset,at-the-real-one-after")
		}
		if rapid.Bool().Draw(t, "exactscale") {
			w, h := rapid.IntRange(1, 64).Draw(t, "vw"), rapid.IntRange(1, 64).Draw(t, "vh")
			x0, y0 := rapid.IntRange(-64, 64).Draw(t, "vx"), rapid.IntRange(-64, 64).Draw(t, "vy")
			c.ViewBox = [4]ops.F32{ops.F32(x0), ops.F32(y0), ops.F32(x0 + w), ops.F32(y0 + h)}
			kx, ky := rapid.IntRange(0, 3).Draw(t, "kx"), rapid.IntRange(0, 3).Draw(t, "ky")
			c.Rect = [4]int{rapid.IntRange(0, 20).Draw(t, "rx"), rapid.IntRange(0, 20).Draw(t, "ry"), w << uint(kx), h << uint(ky)}
		} else {
			exact = false
			c.ViewBox = [4]ops.F32{-24, -24, 24, 24}
			c.Rect = [4]int{rapid.IntRange(0, 20).Draw(t, "rx"), rapid.IntRange(0, 20).Draw(t, "ry"), rapid.IntRange(1, 600).Draw(t, "rw"), rapid.IntRange(1, 600).Draw(t, "rh")}
			labels = append(labels, "inexact-pixel-scale")
		}
	}
	dyadic := rapid.IntRange(0, 3).Draw(t, "dyadic") != 0
	npix := 16
	if dyadic && exact {
		labels = append(labels, "dyadic-matrix")
		// pixel -> gradient entries are dyadic; the translation is solved so
		// that a chosen pixel lands exactly on a chosen offset
		var pm [6]float64 // pixel -> gradient
		pm[0] = pow2(t, "a", -8, 0)
		if rapid.Bool().Draw(t, "b") {
			pm[1] = pow2(t, "bv", -8, 0)
		}
		if c.Radial {
			// keep gy == 0 so that the radial offset is |gx| exactly, or use an axis-aligned pair
			if rapid.Bool().Draw(t, "gy") {
				pm[4] = pow2(t, "e", -8, 0)
				pm[1] = 0
			}
		}
		// target offset: a stop, an integer, or a dyadic interior/outside point
		var target float64
		inexactTarget = false
		tk := rapid.IntRange(0, 4).Draw(t, "target")
		if rapid.IntRange(0, 7).Draw(t, "astro") == 0 {
			// an astronomically steep (finite) matrix: one pixel from the zero line the offset is
			// 2^54..2^100, far beyond what an integer type holds
			pm[0] = pow2(t, "astro.a", 54, 100)
			pm[1], pm[4] = 0, 0
			tk = 5
			labels = append(labels, "astronomic-matrix")
		}
		switch tk {
		case 5:
			target = 0
		case 0:
			s := c.Stops[rapid.IntRange(0, len(c.Stops)-1).Draw(t, "stop")]
			target = float64(s.Offset)
			labels = append(labels, "exactly-on-a-stop")
		case 1:
			target = float64(rapid.IntRange(-9, 9).Draw(t, "int"))
			labels = append(labels, "exactly-on-an-integer")
			if int(math.Abs(target))%2 == 1 {
				labels = append(labels, "odd-integer")
			}
		case 2:
			target = float64(rapid.IntRange(-64, 128).Draw(t, "frac")) / 64
		case 3:
			target = float64(rapid.IntRange(-4000, 4000).Draw(t, "far")) / 8
			labels = append(labels, "far-outside")
		default:
			target = rapid.Float64Range(-3, 4).Draw(t, "any")
			inexactTarget = true
		}
		if c.Radial {
			target = math.Abs(target)
		}
		x0, y0 := rapid.IntRange(-2000, 2000).Draw(t, "x0"), rapid.IntRange(-2000, 2000).Draw(t, "y0")
		pm[2] = target - pm[0]*(float64(x0)+0.5) - pm[1]*(float64(y0)+0.5)
		if c.Radial && pm[4] != 0 {
			pm[5] = -pm[4] * (float64(y0) + 0.5) // gy == 0 at the chosen pixel
		}
		c.Pixels = append(c.Pixels, [2]int{x0, y0})
		// neighbours step the offset by a, landing on further exact values
		for d := 1; d <= 3; d++ {
			c.Pixels = append(c.Pixels, [2]int{x0 + d, y0}, [2]int{x0 - d, y0})
		}
		if pm[1] == 0 && pm[0] != 0 && !c.Radial {
			// jump to the other integers exactly
			step := int(1 / math.Abs(pm[0]))
			for k := 1; k <= 3; k++ {
				c.Pixels = append(c.Pixels, [2]int{x0 + k*step, y0 + k}, [2]int{x0 - k*step, y0 - k})
			}
		}
		npix = 4
		if !c.EndToEnd {
			c.Matrix = pm
		} else {
			// viewBox -> gradient matrix such that the composition is pm exactly
			sx := float64(c.Rect[2]) / (float64(c.ViewBox[2]) - float64(c.ViewBox[0]))
			sy := float64(c.Rect[3]) / (float64(c.ViewBox[3]) - float64(c.ViewBox[1]))
			a, b, d, e := pm[0]*sx, pm[1]*sy, pm[3]*sx, pm[4]*sy
			cc := pm[2] - a*float64(c.ViewBox[0]) - b*float64(c.ViewBox[1])
			f := pm[5] - d*float64(c.ViewBox[0]) - e*float64(c.ViewBox[1])
			c.Matrix = [6]float64{a, b, cc, d, e, f}
			for _, v := range c.Matrix {
				if float64(float32(v)) != v { // not exactly a float32: fall back to a general matrix
					dyadic = false
				}
			}
			if !dyadic {
				labels = labels[:1]
				c.Pixels = nil
				npix = 16
			}
		}
	}
	if !(dyadic && exact) {
		labels = append(labels, "general-matrix")
		for i := range c.Matrix {
			c.Matrix[i] = float64(float32(rapid.Float64Range(-0.2, 0.2).Draw(t, "m")))
		}
		c.Matrix[2] = float64(float32(rapid.Float64Range(-3, 3).Draw(t, "c")))
		c.Matrix[5] = float64(float32(rapid.Float64Range(-3, 3).Draw(t, "f")))
	}
	c.Dyadic = dyadic && exact && !inexactTarget
	if n := len(c.Stops); !c.EndToEnd {
		if n >= 3 && rapid.IntRange(0, 2).Draw(t, "portions") == 0 {
			c.Portions = []int{rapid.IntRange(2, n-1).Draw(t, "portion0")}
			for left := n - c.Portions[0]; left > 0; {
				k := rapid.IntRange(1, 3).Draw(t, "portion")
				if k > left {
					k = left
				}
				c.Portions = append(c.Portions, k)
				left -= k
			}
			labels = append(labels, "ranges-accumulated-with-AppendRanges-in-portions")
		}
	} else {
		if rapid.Bool().Draw(t, "bases") {
			base := func(l string) uint8 {
				if rapid.Bool().Draw(t, l+".wrap") {
					return uint8(64 - rapid.IntRange(1, n-1).Draw(t, l+".before63"))
				}
				return uint8(rapid.IntRange(0, 63).Draw(t, l))
			}
			c.Bases = &[2]uint8{base("cbase"), base("nbase")}
			if int(c.Bases[0])+n > 64 || int(c.Bases[1])+n > 64 || c.Bases[1] < 6 {
				labels = append(labels, "register-block-wraps-past-63")
			}
		}
		if rapid.Bool().Draw(t, "second") {
			sec := &Second{Stop: -1}
			if rapid.IntRange(0, 3).Draw(t, "second.what") != 0 {
				sec.Stop = rapid.IntRange(0, n-1).Draw(t, "second.stop")
				sec.Color = fmtColor(gen.PremulColor(t, "second.col"))
			} else {
				sec.ShiftC = float64(rapid.SampledFrom([]int{-8, -4, -2, -1, 1, 2, 3, 4, 8}).Draw(t, "second.shift")) / 4
			}
			c.Second = sec
			labels = append(labels, "second-path-after-one-register-of-the-block-was-rewritten")
		}
	}
	for i := 0; i < npix; i++ {
		c.Pixels = append(c.Pixels, [2]int{rapid.IntRange(-2000, 2000).Draw(t, "px"), rapid.IntRange(-2000, 2000).Draw(t, "py")})
	}
	labels = append(labels, fmt.Sprintf("spread=%d", c.Spread), fmt.Sprintf("radial=%v", c.Radial))
	return c, labels
}

func TestGradient(t *testing.T) {
	harness.Rapid(t, harness.N(80000, 16*800000), func(t *rapid.T) {
		c, labels := genCase(t)
		nt := false
		for _, l := range labels {
			if l == "exactly-on-a-stop" || l == "exactly-on-an-integer" || l == "far-outside" || l == "general-matrix" || l == "astronomic-matrix" {
				nt = true
			}
		}
		subGrad.See(c, nt, harness.HashJSON(c), labels...)
		subGrad.Run(t, c)
	})
	subGrad.Label("pixels-with-offset-beyond-2^54-decided-exactly", astronomic)
	subGrad.Label("evenly-spaced-stops-on-a-power-of-two-grid", evenRamps)
}

// Deterministic table: every spread at every integer offset -6..6 and just
// beside it, linear, two stops 0 -> 1 from red to blue.
func TestSpreadTable(t *testing.T) {
	harness.OnlyFirstShard(t)
	st := harness.Counter("spread-table", "4 spreads x offsets k/4 for k in -24..28 (all integers -6..7 exactly), linear and radial, stops red@0 -> blue@1 and green@0.25 -> transparent@0.75")
	n := int64(0)
	for _, stops := range [][]Stop{{{0, "ff0000ff"}, {1, "0000ffff"}}, {{0.25, "00ff00ff"}, {0.75, "00000000"}}} {
		for spread := uint8(0); spread < 4; spread++ {
			for _, radial := range []bool{false, true} {
				c := Case{Radial: radial, Spread: spread, Stops: stops, Matrix: [6]float64{0.25, 0, -0.125, 0, 0, 0}}
				for k := -24; k <= 28; k++ {
					c.Pixels = append(c.Pixels, [2]int{k, 3})
				}
				n += int64(len(c.Pixels))
				if err := subGrad.Eval(c); err != nil {
					t.Fatal(err)
				}
			}
		}
	}
	st.AddEnumerated(n, n)
	st.SetExhaustive()
}
