//go:build verif

// C08 — number encodings are lossless where possible, bounded-error and minimal.
package c08

import (
	"fmt"
	"image/color"
	"math"
	"runtime"
	"sync"
	"sync/atomic"
	"testing"

	"github.com/reactivego/ivg"
	"github.com/reactivego/ivg/decode"
	"github.com/reactivego/ivg/encode"
	"pgregory.net/rapid"

	"verif/internal/gen"
	"verif/internal/harness"
	"verif/internal/ops"
	"verif/internal/spec"
)

func TestMain(m *testing.M) { harness.Main(m, "C08") }

const keyD10 = "c08/zero-to-one-grid-stored-long" // not a C08 violation (see DESIGN §5 D10); only counted

// ---------------------------------------------------------------- fast reference

var (
	z2o1 [128]float32   // nearest float32 to u/120
	z2o2 [16384]float32 // nearest float32 to u/15120
)

func init() {
	for u := range z2o1 {
		z2o1[u] = spec.Value(spec.ZeroToOne, uint32(u), 1)
	}
	for u := range z2o2 {
		z2o2[u] = spec.Value(spec.ZeroToOne, uint32(u), 2)
	}
}

// refValue is spec.Value with table look-ups (no big-number arithmetic).
func refValue(k spec.NumKind, u uint32, w int) float32 {
	if w == 4 {
		return math.Float32frombits(u << 2)
	}
	switch k {
	case spec.Real:
		return float32(u)
	case spec.Coordinate:
		if w == 1 {
			return float32(int32(u) - 64)
		}
		return float32(float64(int32(u)-64*128) / 64) // exact: 14 bits
	default:
		if w == 1 {
			return z2o1[u]
		}
		return z2o2[u]
	}
}

// exactWidth: shortest width in which f is exactly representable as kind k,
// and whether the 4-byte form is exact.
func exactWidth(k spec.NumKind, f float32) (int, bool) {
	x := float64(f)
	switch k {
	case spec.Real:
		if x == math.Trunc(x) && x >= 0 {
			if x < 128 {
				return 1, true
			}
			if x < 16384 {
				return 2, true
			}
		}
	case spec.Coordinate:
		if x == math.Trunc(x) && x >= -64 && x < 64 {
			return 1, true
		}
		if y := x * 64; y == math.Trunc(y) && y >= -8192 && y < 8192 {
			return 2, true
		}
	case spec.ZeroToOne:
		if x >= 0 && x < 1.09 {
			if u := int(math.Round(x * 120)); u < 128 && z2o1[u] == f {
				return 1, true
			}
			if u := int(math.Round(x * 15120)); u < 16384 && z2o2[u] == f {
				return 2, true
			}
		}
	}
	return 4, f == f && math.Float32bits(f)&3 == 0
}

type codec struct {
	kind spec.NumKind
	enc  func([]byte, float32) []byte
	dec  func([]byte) (float32, int)
}

var codecs = []codec{
	{spec.Real, encode.VerifEncodeReal, decode.VerifDecodeReal},
	{spec.Coordinate, encode.VerifEncodeCoordinate, decode.VerifDecodeCoordinate},
	{spec.ZeroToOne, encode.VerifEncodeZeroToOne, decode.VerifDecodeZeroToOne},
}

type FloatCase struct {
	Bits uint32 `json:"bits"`
	F    string `json:"value,omitempty"`
}

// checkFloatBits is the codec-level oracle for one float32 bit pattern. It
// returns (d10, error): d10 counts zero-to-one grid values stored long.
func checkFloatBits(bits uint32, scratch *[8]byte) (int, error) {
	f := math.Float32frombits(bits)
	d10 := 0
	for _, c := range codecs {
		enc := c.enc(scratch[:0], f)
		w := len(enc)
		if w != 1 && w != 2 && w != 4 || spec.Width(enc[0]) != w {
			return 0, harness.Violatef("c08/form", "%v %v encodes as % x: length and length tag disagree", c.kind, ops.F32(f), enc)
		}
		refW, _ := exactWidth(c.kind, f)
		exact4 := f == f && bits&3 == 0
		if c.kind != spec.ZeroToOne && w != refW {
			return 0, harness.Violatef("c08/not-shortest", "%v %v encodes in %d bytes (% x), shortest exact form has %d", c.kind, ops.F32(f), w, enc, refW)
		}
		if c.kind == spec.ZeroToOne && w > refW {
			d10++
		}
		g, n := c.dec(enc)
		if n != w {
			return 0, harness.Violatef("c08/decode-length", "%v %v: encoded in %d bytes, decoder consumed %d", c.kind, ops.F32(f), w, n)
		}
		u, _ := spec.DecodeNatural(enc)
		if want := refValue(c.kind, u, w); !ops.SameF32(g, want) {
			return 0, harness.Violatef("c08/decoder-value", "%v bytes % x decode to %v, specification says %v", c.kind, enc, ops.F32(g), ops.F32(want))
		}
		// representable in the form chosen: a short form holds f iff the
		// specification value of the bytes written is f itself
		representable := w < 4 && refValue(c.kind, u, w) == f || w == 4 && exact4
		if w < 4 && c.kind != spec.ZeroToOne {
			// reals and coordinates: a short form is only ever chosen when exact
			if !(g == f) {
				return 0, harness.Violatef("c08/lossy-short-form", "%v %v written in the %d byte form % x, which decodes to %v", c.kind, ops.F32(f), w, enc, ops.F32(g))
			}
		} else if representable {
			if !(g == f) {
				return 0, harness.Violatef("c08/lossy", "%v %v is exact in 4 bytes but decodes to %v", c.kind, ops.F32(f), ops.F32(g))
			}
		} else if !spec.ThirtyBitRule(f, g, 4) {
			return 0, harness.Violatef("c08/precision", "%v %v -> % x -> %v: outside 4 ulp / sign / Inf / NaN rule", c.kind, ops.F32(f), enc, ops.F32(g))
		}
		// re-encoding a decoded real or coordinate: same value, not longer
		if c.kind != spec.ZeroToOne {
			var s2 [8]byte
			enc2 := c.enc(s2[:0], g)
			g2, n2 := c.dec(enc2)
			if len(enc2) > w || n2 != len(enc2) || !ops.SameF32(g2, g) && !(g2 == g) {
				return 0, harness.Violatef("c08/reencode", "%v: %v decoded from % x re-encodes as % x -> %v", c.kind, ops.F32(g), enc, enc2, ops.F32(g2))
			}
		}
	}
	// low-resolution quantisation
	q := encode.VerifQuantize(f, false)
	if f >= -128 && f < 128 {
		y, g := 64*float64(f), 64*float64(q)
		slack := math.Ldexp(1, -24)
		if a := math.Abs(y) + 0.5; a >= 1 {
			slack = math.Ldexp(1, math.Ilogb(a)-23)
		}
		if g != math.Trunc(g) || math.Abs(g-y) > 0.5+slack {
			return 0, harness.Violatef("c08/quantize", "low-resolution %v becomes %v, not the nearest multiple of 1/64", ops.F32(f), ops.F32(q))
		}
	} else if !ops.SameF32(q, f) {
		return 0, harness.Violatef("c08/quantize", "coordinate %v outside [-128,128) is changed to %v by quantisation", ops.F32(f), ops.F32(q))
	}
	if h := encode.VerifQuantize(f, true); !ops.SameF32(h, f) {
		return 0, harness.Violatef("c08/quantize", "high-resolution coordinate %v changed to %v", ops.F32(f), ops.F32(h))
	}
	// angle: normalised modulo one turn
	{
		enc := encode.VerifEncodeAngle(scratch[:0], f)
		g, n := decode.VerifDecodeZeroToOne(enc)
		x := float64(f)
		if n != len(enc) {
			return 0, harness.Violatef("c08/angle", "angle %v: bad encoding % x", ops.F32(f), enc)
		}
		if math.IsNaN(x) || math.IsInf(x, 0) {
			if gg := float64(g); !math.IsNaN(gg) && !math.IsInf(gg, 0) {
				return 0, harness.Violatef("c08/angle", "non-finite angle %v decodes to %v", ops.F32(f), ops.F32(g))
			}
		} else {
			fr := x - math.Floor(x)
			gg := float64(g)
			d := math.Abs(fr - (gg - math.Floor(gg)))
			if d > 0.5 {
				d = 1 - d
			}
			if !(d <= 1e-6) || !(gg >= 0 && gg <= 1) {
				return 0, harness.Violatef("c08/angle", "angle %v decodes to %v (off by %g of a turn)", ops.F32(f), ops.F32(g), d)
			}
		}
	}
	return d10, nil
}

var subFloat = harness.Define("float-codec", "float32 bit patterns through the real, coordinate, zero-to-one and angle encoders and decoders (hooks) and the low-resolution quantiser: form = shortest exact (real, coordinate), short forms exact, 4-byte form exact when the low mantissa bits are clear else <= 4 ulp/sign/Inf/NaN rule, decoder value = specification value, re-encoding stable; non-trivial = not a small integer (needs 2 or 4 bytes, boundary or non-finite)", func(c FloatCase) error {
	var s [8]byte
	_, err := checkFloatBits(c.Bits, &s)
	return err
})

func nontrivialFloat(bits uint32) bool {
	f := float64(math.Float32frombits(bits))
	return !(f == math.Trunc(f) && f > -64 && f < 64)
}

// loopFloats runs the codec oracle over a set of bit patterns in parallel.
func loopFloats(t *testing.T, lo, hi uint64, stride uint64, label string) {
	workers := runtime.GOMAXPROCS(0)
	if harness.Shards() > 1 {
		workers = 1
	}
	var evals, nontriv, d10 int64
	var failed atomic.Bool
	var wg sync.WaitGroup
	chunk := (hi - lo + uint64(workers) - 1) / uint64(workers)
	for w := 0; w < workers; w++ {
		a := lo + uint64(w)*chunk
		b := a + chunk
		if b > hi {
			b = hi
		}
		wg.Add(1)
		go func(a, b uint64) {
			defer wg.Done()
			var s [8]byte
			var e, n, d int64
			start := a + (stride-a%stride)%stride
			for x := start; x < b; x += stride {
				if e&0xfffff == 0 && failed.Load() {
					break
				}
				bits := uint32(x)
				k, err := checkFloatBits(bits, &s)
				e++
				if nontrivialFloat(bits) {
					n++
				}
				d += int64(k)
				if err != nil {
					failed.Store(true)
					subFloat.Eval(FloatCase{Bits: bits, F: ops.FromBits(bits).String()})
					break
				}
			}
			atomic.AddInt64(&evals, e)
			atomic.AddInt64(&nontriv, n)
			atomic.AddInt64(&d10, d)
		}(a, b)
	}
	wg.Wait()
	subFloat.AddEnumerated(evals, nontriv)
	subFloat.Label(label, evals)
	subFloat.Label("zero-to-one-grid-values-stored-long(D10,not-a-C08-claim)", d10)
	if failed.Load() {
		t.Fatalf("float codec violation (see replay)")
	}
}

func TestFloatCodec(t *testing.T) {
	if harness.Thorough() {
		lo, hi := harness.Range(1 << 32)
		loopFloats(t, lo, hi, 1, "all-2^32-bit-patterns")
		subFloat.SetExhaustive()
		return
	}
	// quick: 2^22 strided patterns (stride 1021, co-prime to powers of two) ...
	loopFloats(t, 0, 1<<32, 1021, "strided-bit-patterns")
	// ... every pattern within +-64 of each power-of-two / format boundary ...
	var s [8]byte
	n := int64(0)
	probe := func(f float32) {
		b := math.Float32bits(f)
		for d := -48; d <= 48; d++ {
			bits := b + uint32(d)
			n++
			if _, err := checkFloatBits(bits, &s); err != nil {
				subFloat.Run(t, FloatCase{Bits: bits, F: ops.FromBits(bits).String()})
			}
		}
	}
	for _, f := range gen.Boundary {
		probe(f)
		probe(-f)
	}
	for _, f := range gen.NonFinite {
		probe(f)
	}
	for e := uint32(0); e < 256; e++ {
		probe(math.Float32frombits(e << 23))
		probe(math.Float32frombits(e<<23 | 1<<31))
	}
	// ... every multiple of 1/64 in [-129,129], every rounding tie of the
	// low-resolution grid +-3 ulp, every zero-to-one grid value +-2 ulp
	for k := -129 * 64; k <= 129*64; k++ {
		for _, v := range []float32{float32(k) / 64, (float32(k) + 0.5) / 64} {
			b := math.Float32bits(v)
			for d := -3; d <= 3; d++ {
				n++
				if _, err := checkFloatBits(b+uint32(d), &s); err != nil {
					subFloat.Run(t, FloatCase{Bits: b + uint32(d)})
				}
			}
		}
	}
	for u := 0; u < 16384; u++ {
		for _, v := range []float32{z2o2[u], z2o1[u%128], float32(u)} {
			b := math.Float32bits(v)
			for d := -2; d <= 2; d++ {
				n++
				if _, err := checkFloatBits(b+uint32(d), &s); err != nil {
					subFloat.Run(t, FloatCase{Bits: b + uint32(d)})
				}
			}
		}
	}
	subFloat.AddEnumerated(n, n)
	subFloat.Label("boundary-neighbourhoods", n)
	subFloat.AddSample(FloatCase{Bits: 0x42fffffe, F: "127.99998"})
	subFloat.AddSample(FloatCase{Bits: 0x7f800001, F: "nan:7f800001"})
}

func TestFloatCodecRandom(t *testing.T) {
	harness.Rapid(t, harness.N(50000, 16*400000), func(t *rapid.T) {
		f := gen.Float32Any(t, "f")
		c := FloatCase{Bits: math.Float32bits(f), F: ops.F32(f).String()}
		subFloat.See(c, nontrivialFloat(c.Bits), uint64(c.Bits))
		subFloat.Run(t, c)
	})
}

// ---------------------------------------------------------------- naturals

type NatCase struct {
	U uint32 `json:"u"`
}

func checkNatural(u uint32, s *[8]byte) error {
	enc := encode.VerifEncodeNatural(s[:0], u)
	if want := spec.NaturalWidth(u); len(enc) != want || spec.Width(enc[0]) != want {
		return harness.Violatef("c08/natural-width", "natural %d encodes as % x, shortest form has %d bytes", u, enc, want)
	}
	g, n := decode.VerifDecodeNatural(enc)
	if n != len(enc) || g != u {
		return harness.Violatef("c08/natural-roundtrip", "natural %d -> % x -> %d (n=%d)", u, enc, g, n)
	}
	if r, rn := spec.DecodeNatural(enc); rn != n || r != g {
		return harness.Violatef("c08/natural-decoder", "bytes % x decode to %d, specification says %d", enc, g, r)
	}
	return nil
}

var subNat = harness.Define("natural-codec", "naturals below 2^30 through encodeNatural/decodeNatural (hooks): shortest width by range, exact round trip, decoder value = specification; non-trivial = needs 2 or 4 bytes", func(c NatCase) error {
	var s [8]byte
	return checkNatural(c.U, &s)
})

func TestNaturalCodec(t *testing.T) {
	var s [8]byte
	var evals, nt int64
	try := func(u uint32) {
		evals++
		if u >= 128 {
			nt++
		}
		if err := checkNatural(u, &s); err != nil {
			subNat.Run(t, NatCase{U: u})
		}
	}
	if harness.Thorough() {
		lo, hi := harness.Range(1 << 30)
		for u := lo; u < hi; u++ {
			try(uint32(u))
		}
		subNat.SetExhaustive()
	} else {
		for u := uint32(0); u < 1<<16; u++ {
			try(u)
		}
		for u := uint64(1 << 16); u < 1<<30; u += 4093 {
			try(uint32(u))
		}
		for sh := uint(7); sh <= 30; sh++ {
			for d := -40; d <= 40; d++ {
				if v := int64(1)<<sh + int64(d); v >= 0 && v < 1<<30 {
					try(uint32(v))
				}
			}
		}
	}
	subNat.AddEnumerated(evals, nt)
	subNat.AddSample(NatCase{U: 16384})
}

// ---------------------------------------------------------------- decoder forms and truncation

type FormCase struct {
	Bytes ops.Hex `json:"bytes"`
}

func checkForm(c FormCase) error {
	b := []byte(c.Bytes)
	// the slice handed to the decoder sits inside a larger buffer filled with
	// plausible continuation bytes: a decoder that reads past len(b) gets a
	// wrong (non-zero n) answer for truncated inputs
	whole := make([]byte, len(b)+8)
	for i := range whole {
		whole[i] = 0x02
	}
	copy(whole, b)
	in := whole[:len(b)]
	ru, rn := spec.DecodeNatural(b)
	u, n := decode.VerifDecodeNatural(in)
	if n != rn || (n != 0 && u != ru) {
		return harness.Violatef("c08/decoder-natural", "bytes % x: decodeNatural = (%d,%d), specification (%d,%d)", b, u, n, ru, rn)
	}
	for _, cd := range codecs {
		g, n := cd.dec(in)
		if n != rn {
			if rn == 0 {
				return harness.Violatef("c08/truncated-number", "%v: bytes % x are cut short but the decoder reports n=%d value %v", cd.kind, b, n, ops.F32(g))
			}
			return harness.Violatef("c08/decoder-length", "%v: bytes % x: decoder consumed %d, specification %d", cd.kind, b, n, rn)
		}
		if rn == 0 {
			continue
		}
		if want := spec.Value(cd.kind, ru, rn); !ops.SameF32(g, want) {
			return harness.Violatef("c08/decoder-value", "%v: bytes % x decode to %v, specification says %v", cd.kind, b, ops.F32(g), ops.F32(want))
		}
		if cd.kind != spec.ZeroToOne {
			var s [8]byte
			enc2 := cd.enc(s[:0], g)
			g2, _ := cd.dec(enc2)
			if len(enc2) > rn || !(g2 == g || g2 != g2 && g != g) {
				return harness.Violatef("c08/reencode", "%v: value %v decoded from % x re-encodes as % x -> %v", cd.kind, ops.F32(g), b, enc2, ops.F32(g2))
			}
		}
	}
	return nil
}

var subForm = harness.Define("decoder-forms", "every 1-byte and 2-byte pattern, strided (quick) or all 2^30 (thorough) 4-byte patterns, and every proper prefix of the multi-byte ones, through the four decoders: value and length equal the specification (big-rational reference), truncated numbers give n=0 without reading past the slice, re-encoding not longer and value-preserving", checkForm)

func TestDecoderForms(t *testing.T) {
	var evals, nt int64
	try := func(b ...byte) {
		evals++
		if len(b) > 1 {
			nt++
		}
		if err := subForm.Eval(FormCase{Bytes: b}); err != nil {
			t.Fatal(err)
		}
	}
	try()
	for x := 0; x < 256; x++ {
		try(byte(x)) // 128 one-byte forms + 128 truncated multi-byte forms
	}
	for u := uint32(0); u < 1<<14; u++ {
		e := spec.EncodeNaturalW(u, 2)
		try(e...)
	}
	stride := uint64(61)
	lo, hi := uint64(0), uint64(1<<30)
	if harness.Thorough() {
		stride = 1
		lo, hi = harness.Range(1 << 30)
		// the exhaustive 4-byte sweep uses the fast path below
	}
	if !harness.Thorough() {
		for u := lo; u < hi; u += stride * 64 {
			e := spec.EncodeNaturalW(uint32(u), 4)
			try(e...)
			try(e[:3]...)
			try(e[:2]...)
			try(e[:1]...)
		}
		for _, f := range append(append([]float32{}, gen.Boundary...), gen.NonFinite...) {
			e := spec.EncodeNaturalW(math.Float32bits(f)>>2, 4)
			try(e...)
		}
	} else {
		// fast exhaustive sweep of all 4-byte payloads in this shard
		var buf [4]byte
		var fe, fnt int64
		for u := lo; u < hi; u++ {
			v := uint32(u)<<2 | 3
			buf[0], buf[1], buf[2], buf[3] = byte(v), byte(v>>8), byte(v>>16), byte(v>>24)
			want := math.Float32frombits(uint32(u) << 2)
			nu, n0 := decode.VerifDecodeNatural(buf[:])
			r, n1 := decode.VerifDecodeReal(buf[:])
			c, n2 := decode.VerifDecodeCoordinate(buf[:])
			z, n3 := decode.VerifDecodeZeroToOne(buf[:])
			fe++
			fnt++
			if n0 != 4 || n1 != 4 || n2 != 4 || n3 != 4 || nu != uint32(u) || !ops.SameF32(r, want) || !ops.SameF32(c, want) || !ops.SameF32(z, want) {
				try(buf[:]...)
				t.Fatalf("4-byte payload %#x mis-decoded", u)
			}
			if u%4099 == 0 {
				try(buf[:3]...)
				try(buf[:2]...)
				try(buf[:1]...)
			}
		}
		subForm.AddEnumerated(fe, fnt)
		subForm.SetExhaustive()
	}
	subForm.AddEnumerated(evals, nt)
	subForm.AddSample(FormCase{Bytes: []byte{0x07, 0x00, 0x80}})
}

// ---------------------------------------------------------------- Part B: public paths

type PublicCase struct {
	Values []ops.F32 `json:"values"`
	HiRes  bool      `json:"hires"`
	// FlipMid: the exported resolution field is flipped while the path is open (after the line
	// segments, before the H-lines and arcs); the path keeps the resolution it was started with.
	FlipMid bool `json:"flip_mid,omitempty"`
}

func lowResOK(f, g float32) bool {
	y, q := 64*float64(f), 64*float64(g)
	slack := math.Ldexp(1, -24)
	if a := math.Abs(y) + 0.5; a >= 1 {
		slack = math.Ldexp(1, math.Ilogb(a)-23)
	}
	return q == math.Trunc(q) && math.Abs(q-y) <= 0.5+slack
}

// thirty: the 30-bit rule for a value written with the real/coordinate form.
func thirty(k spec.NumKind, f, g float32) bool {
	if w, exact := exactWidth(k, f); w < 4 || exact {
		return g == f || (f != f && g != g)
	}
	return spec.ThirtyBitRule(f, g, 4)
}

var d10Public int64

func checkPublic(c PublicCase) error {
	var enc encode.Encoder
	vals := make([]float32, len(c.Values))
	for i, v := range c.Values {
		vals[i] = float32(v)
	}
	for _, v := range vals {
		enc.SetLOD(v, -v)
		enc.SetNReg(0, false, v)
	}
	enc.HighResolutionCoordinates = c.HiRes
	enc.StartPath(0, 0, 0)
	for _, v := range vals {
		enc.AbsLineTo(v, -v)
	}
	if c.FlipMid {
		enc.HighResolutionCoordinates = !c.HiRes
	}
	for _, v := range vals {
		enc.RelHLineTo(v)
		enc.AbsArcTo(v, 1, v, true, false, 2, v)
	}
	enc.ClosePathEndPath()
	b, err := enc.Bytes()
	if err != nil {
		return harness.Violatef("c08/public-bytes", "Bytes: %v", err)
	}
	p := spec.ParseOpt(b, spec.Options{RecordNums: true})
	if !p.OK {
		return harness.Violatef("c08/public-ill-formed", "encoder output ill formed: %s at %d", p.Err, p.ErrPos)
	}
	// widths: every natural, real and coordinate is written in the shortest
	// form that represents exactly the value the encoder was given (after
	// low-resolution quantisation where that applies)
	{
		var want []float32 // originals in stream order; NaN-marker for numbers with no width claim
		skip := float32(math.Inf(1))
		_ = skip
		type exp struct {
			kind   spec.NumKind
			orig   float32
			quant  bool
			noRule bool
		}
		var exps []exp
		exps = append(exps, exp{kind: spec.Natural}) // chunk count
		for _, v := range vals {
			exps = append(exps, exp{kind: spec.Real, orig: v}, exp{kind: spec.Real, orig: -v}, exp{noRule: true})
		}
		exps = append(exps, exp{kind: spec.Coordinate, orig: 0, quant: true}, exp{kind: spec.Coordinate, orig: 0, quant: true})
		for _, v := range vals {
			exps = append(exps, exp{kind: spec.Coordinate, orig: v, quant: true}, exp{kind: spec.Coordinate, orig: -v, quant: true})
		}
		for _, v := range vals {
			exps = append(exps, exp{kind: spec.Coordinate, orig: v, quant: true})
			exps = append(exps, exp{kind: spec.Coordinate, orig: v, quant: true}, exp{kind: spec.Coordinate, orig: 1, quant: true}, exp{noRule: true}, exp{kind: spec.Natural},
				exp{kind: spec.Coordinate, orig: 2, quant: true}, exp{kind: spec.Coordinate, orig: v, quant: true})
		}
		_ = want
		if len(exps) != len(p.Nums) {
			return harness.Violatef("c08/public-layout", "stream has %d numbers, expected %d", len(p.Nums), len(exps))
		}
		for i, e := range exps {
			nr := p.Nums[i]
			if e.noRule {
				continue
			}
			if nr.Kind != e.kind {
				return harness.Violatef("c08/public-layout", "number %d is a %v, expected a %v", i, nr.Kind, e.kind)
			}
			wantW := 0
			switch e.kind {
			case spec.Natural:
				wantW = spec.NaturalWidth(nr.Payload)
			default:
				o := e.orig
				if e.quant && !c.HiRes && o >= -128 && o < 128 {
					o = nr.Value // the quantised value (checked against the original below)
				}
				wantW, _ = exactWidth(e.kind, o)
			}
			if nr.Width != wantW {
				return harness.Violatef("c08/public-not-shortest", "number %d (%v, original %v) at offset %d is written in %d bytes, shortest exact form has %d", i, e.kind, ops.F32(e.orig), nr.Pos, nr.Width, wantW)
			}
		}
	}
	rec := &ops.Recorder{}
	if err := decode.Decode(rec, b); err != nil {
		return harness.Violatef("c08/public-decode", "Decode: %v", err)
	}
	if d := ops.DiffOps(rec.Ops, p.Ops); d != "" {
		return harness.Violatef("c08/public-decoder-value", "%s", d)
	}
	n := len(vals)
	if len(rec.Ops) != 1+2*n+1+n+2*n+1 {
		return harness.Violatef("c08/public-count", "decoded %d calls", len(rec.Ops))
	}
	coord := func(f, g float32, what string) error {
		if !c.HiRes && f >= -128 && f < 128 {
			if !lowResOK(f, g) {
				return harness.Violatef("c08/public-quantize", "%s: low-resolution %v came back as %v", what, ops.F32(f), ops.F32(g))
			}
			return nil
		}
		if !thirty(spec.Coordinate, f, g) {
			return harness.Violatef("c08/public-coordinate", "%s: %v came back as %v", what, ops.F32(f), ops.F32(g))
		}
		return nil
	}
	for i, v := range vals {
		lod, nreg := rec.Ops[1+2*i], rec.Ops[2+2*i]
		if !thirty(spec.Real, v, lod.Arg(0)) || !thirty(spec.Real, -v, lod.Arg(1)) {
			return harness.Violatef("c08/public-lod", "SetLOD(%v,%v) came back as (%v,%v)", ops.F32(v), ops.F32(-v), ops.F32(lod.Arg(0)), ops.F32(lod.Arg(1)))
		}
		g := nreg.Arg(0)
		nr := p.Nums[1+3*i+2]
		wz, _ := exactWidth(spec.ZeroToOne, v)
		switch {
		case nr.Width < 4 && nr.Value == v, nr.Width == 4 && v == v && math.Float32bits(v)&3 == 0:
			// representable in the form chosen
			if g != v {
				return harness.Violatef("c08/public-nreg", "SetNReg(%v) is representable in the %d byte %v form chosen but came back as %v", ops.F32(v), nr.Width, nr.Kind, ops.F32(g))
			}
		default:
			if !spec.ThirtyBitRule(v, g, 4) {
				return harness.Violatef("c08/public-nreg", "SetNReg(%v) came back as %v", ops.F32(v), ops.F32(g))
			}
		}
		if wz < nr.Width {
			d10Public++
		}
	}
	// SetNReg picks the shortest of the three forms, real < coordinate <
	// zero-to-one on ties: read the opcode groups out of the stream.
	if err := checkNRegForms(b, p, vals); err != nil {
		return err
	}
	base := 1 + 2*n + 1
	for i, v := range vals {
		l := rec.Ops[base+i]
		if err := coord(v, l.Arg(0), "AbsLineTo x"); err != nil {
			return err
		}
		if err := coord(-v, l.Arg(1), "AbsLineTo y"); err != nil {
			return err
		}
		h, a := rec.Ops[base+n+2*i], rec.Ops[base+n+2*i+1]
		if err := coord(v, h.Arg(0), "RelHLineTo"); err != nil {
			return err
		}
		if err := coord(v, a.Arg(0), "arc rx"); err != nil {
			return err
		}
		if err := coord(v, a.Arg(4), "arc y"); err != nil {
			return err
		}
		if !a.LargeArc || a.Sweep {
			return harness.Violatef("c08/public-flags", "arc flags (true,false) came back as (%v,%v)", a.LargeArc, a.Sweep)
		}
		// rotation modulo one turn
		x, g := float64(v), float64(a.Arg(2))
		if math.IsNaN(x) || math.IsInf(x, 0) {
			if !math.IsNaN(g) && !math.IsInf(g, 0) {
				return harness.Violatef("c08/public-angle", "non-finite rotation %v came back as %v", ops.F32(v), a.Arg(2))
			}
		} else {
			d := math.Abs((x - math.Floor(x)) - (g - math.Floor(g)))
			if d > 0.5 {
				d = 1 - d
			}
			if !(d <= 1e-6) {
				return harness.Violatef("c08/public-angle", "rotation %v came back as %v", ops.F32(v), a.Arg(2))
			}
		}
	}
	return nil
}

// checkNRegForms walks the styling section: 0xc7 lod lod, then the SetNReg opcode.
func checkNRegForms(b []byte, p *spec.Parsed, vals []float32) error {
	pos := p.InstrStart
	for _, v := range vals {
		if b[pos] != 0xc7 {
			return harness.Violatef("c08/public-layout", "expected SetLOD opcode at %d", pos)
		}
		pos++
		for j := 0; j < 2; j++ {
			pos += spec.Width(b[pos])
		}
		op := b[pos]
		pos++
		w := spec.Width(b[pos])
		pos += w
		wr, _ := exactWidth(spec.Real, v)
		wc, _ := exactWidth(spec.Coordinate, v)
		wz, _ := exactWidth(spec.ZeroToOne, v)
		group := int(op-0xa8) / 8
		min := wr
		if wc < min {
			min = wc
		}
		if w > min {
			return harness.Violatef("c08/nreg-not-shortest", "SetNReg(%v) written in %d bytes (opcode %#x); a %d byte real/coordinate form exists", ops.F32(v), w, op, min)
		}
		want := 2
		switch {
		case w == wr:
			want = 0
		case w == wc:
			want = 1
		}
		if wz < w {
			// shorter zero-to-one form exists but was not used: D10 class
			continue
		}
		if group != want {
			return harness.Violatef("c08/nreg-form-choice", "SetNReg(%v): widths real=%d coordinate=%d zero-to-one=%d, chose group %d in %d bytes, expected group %d", ops.F32(v), wr, wc, wz, group, w, want)
		}
	}
	return nil
}

var subPublic = harness.Define("public-paths", "batches of values through SetLOD, SetNReg, low/high-resolution path coordinates, arc radius/rotation/flags: widths read back from the bytes must be the shortest exact ones (naturals, reals, coordinates), SetNReg picks the shortest of its three forms with real < coordinate < zero-to-one on ties, decoded values obey the exact/4-ulp/nearest-1/64 rules; non-trivial = batch contains a value that is not a small integer", checkPublic)

// ---------------------------------------------------------------- runs of lines and of arcs

// RunCase: one path with a run of line segments followed by a run of consecutive arcs (one run
// may span several opcodes). Whatever the other numbers of the run look like, every number is
// written by the same rules.
type RunCase struct {
	// ViewBox: given to Reset first (nil: a zero-value Encoder). The resolution of a path does not
	// depend on it.
	ViewBox *[4]ops.F32  `json:"viewbox,omitempty"`
	HiRes   bool         `json:"hires"`
	Lines   [][2]ops.F32 `json:"lines"`
	Arcs    [][5]ops.F32 `json:"arcs"` // rx, ry, rotation, x, y (flags fixed: large arc, no sweep)
}

func checkRuns(c RunCase) error {
	var enc encode.Encoder
	if c.ViewBox != nil {
		enc.Reset(ivg.ViewBox{MinX: float32(c.ViewBox[0]), MinY: float32(c.ViewBox[1]), MaxX: float32(c.ViewBox[2]), MaxY: float32(c.ViewBox[3])}, ivg.DefaultPalette)
	}
	enc.HighResolutionCoordinates = c.HiRes
	enc.StartPath(0, 0, 0)
	for _, l := range c.Lines {
		enc.AbsLineTo(float32(l[0]), float32(l[1]))
	}
	for _, a := range c.Arcs {
		enc.RelArcTo(float32(a[0]), float32(a[1]), float32(a[2]), true, false, float32(a[3]), float32(a[4]))
	}
	enc.ClosePathEndPath()
	b, err := enc.Bytes()
	if err != nil {
		return harness.Violatef("c08/public-bytes", "Bytes: %v", err)
	}
	rec := &ops.Recorder{}
	if err := decode.Decode(rec, b); err != nil {
		return harness.Violatef("c08/public-decode", "Decode: %v", err)
	}
	if len(rec.Ops) != 2+len(c.Lines)+len(c.Arcs)+1 {
		return harness.Violatef("c08/public-count", "decoded %d calls from a path of %d lines and %d arcs", len(rec.Ops), len(c.Lines), len(c.Arcs))
	}
	coord := func(f, g float32, what string) error {
		if !c.HiRes && f >= -128 && f < 128 {
			if !lowResOK(f, g) {
				return harness.Violatef("c08/public-quantize", "%s: low-resolution %v came back as %v", what, ops.F32(f), ops.F32(g))
			}
			return nil
		}
		if !thirty(spec.Coordinate, f, g) {
			return harness.Violatef("c08/public-coordinate", "%s: %v came back as %v", what, ops.F32(f), ops.F32(g))
		}
		return nil
	}
	for i, l := range c.Lines {
		o := rec.Ops[2+i]
		for j := 0; j < 2; j++ {
			if err := coord(float32(l[j]), o.Arg(j), fmt.Sprintf("line %d of the run, operand %d", i, j)); err != nil {
				return err
			}
		}
	}
	for i, a := range c.Arcs {
		o := rec.Ops[2+len(c.Lines)+i]
		for k, j := range []int{0, 1, 3, 4} {
			if err := coord(float32(a[j]), o.Arg(j), fmt.Sprintf("arc %d of the run, operand %d", i, k)); err != nil {
				return err
			}
		}
		x, g := float64(float32(a[2])), float64(o.Arg(2))
		d := math.Abs((x - math.Floor(x)) - (g - math.Floor(g)))
		if d > 0.5 {
			d = 1 - d
		}
		if !(d <= 1e-6) {
			return harness.Violatef("c08/public-angle", "arc %d of the run: rotation %v came back as %v", i, a[2], ops.F32(o.Arg(2)))
		}
	}
	return nil
}

var subRuns = harness.Define("public-runs", "a run of 0-70 line segments followed by a run of 0-20 consecutive arcs through Encoder -> Decode, low and high resolution: every coordinate by the low-resolution or 30-bit rule, every rotation modulo one turn; classes: a first stretch of whole numbers (16, 17, 32, 33 or 40 segments) followed by off-grid values, arcs that share radii and flags and differ in rotation only; non-trivial = either class", checkRuns)

func TestPublicRuns(t *testing.T) {
	harness.Rapid(t, harness.N(3000, 16*30000), func(t *rapid.T) {
		c := RunCase{HiRes: rapid.IntRange(0, 3).Draw(t, "hires") == 0}
		var labels []string
		if rapid.Bool().Draw(t, "vb") {
			// any viewBox: tiny, huge, off-centre
			w := float32(math.Pow(10, rapid.Float64Range(-3, 4).Draw(t, "vbw")))
			h := float32(math.Pow(10, rapid.Float64Range(-3, 4).Draw(t, "vbh")))
			x, y := float32(rapid.IntRange(-100, 100).Draw(t, "vbx")), float32(rapid.IntRange(-100, 100).Draw(t, "vby"))
			if x+w > x && y+h > y {
				c.ViewBox = &[4]ops.F32{ops.F32(x), ops.F32(y), ops.F32(x + w), ops.F32(y + h)}
				if w < 1 || h < 1 {
					labels = append(labels, "viewbox-smaller-than-one-unit")
				}
			}
		}
		val := func(l string) ops.F32 {
			if rapid.Bool().Draw(t, l+".grid") {
				return ops.F32(float32(rapid.IntRange(-130*64, 130*64).Draw(t, l)) / 64)
			}
			return ops.F32(float32(rapid.Float64Range(-140, 140).Draw(t, l+".any")))
		}
		whole := 0
		if rapid.Bool().Draw(t, "wholefirst") {
			whole = rapid.SampledFrom([]int{16, 17, 32, 33, 40}).Draw(t, "whole")
			labels = append(labels, "whole-numbers-first-then-off-grid")
		}
		for i := 0; i < whole; i++ {
			c.Lines = append(c.Lines, [2]ops.F32{ops.F32(float32(rapid.IntRange(-100, 100).Draw(t, "wx"))), ops.F32(float32(rapid.IntRange(-100, 100).Draw(t, "wy")))})
		}
		for i, n := 0, rapid.IntRange(0, 30).Draw(t, "nlines"); i < n; i++ {
			c.Lines = append(c.Lines, [2]ops.F32{val("lx"), val("ly")})
		}
		na := rapid.IntRange(0, 20).Draw(t, "narcs")
		same := na >= 2 && rapid.Bool().Draw(t, "sameradii")
		if same {
			labels = append(labels, "arcs-differing-in-rotation-only")
		}
		r := val("r")
		for i := 0; i < na; i++ {
			a := [5]ops.F32{val("rx"), val("ry"), ops.F32(float32(rapid.IntRange(0, 239).Draw(t, "rot")) / 120), val("ax"), val("ay")}
			if same {
				a[0], a[1] = r, r
				if rapid.Bool().Draw(t, "samexy") {
					a[3], a[4] = 1, 2
				}
			}
			if !same && rapid.IntRange(0, 3).Draw(t, "semicircle") == 0 {
				// a half circle: both radii bit-exactly half the length of the (axis-parallel) chord
				a[1] = a[0]
				a[3], a[4] = 2*a[0], 0
				if rapid.Bool().Draw(t, "semi.vertical") {
					a[3], a[4] = 0, -2*a[0]
				}
				labels = append(labels, "arc-whose-radii-are-exactly-half-its-chord")
			}
			c.Arcs = append(c.Arcs, a)
		}
		subRuns.See(c, len(labels) > 0, harness.HashJSON(c), labels...)
		subRuns.Run(t, c)
	})
}

func TestPublicPaths(t *testing.T) {
	harness.Rapid(t, harness.N(4000, 16*32000), func(t *rapid.T) {
		n := rapid.IntRange(1, 40).Draw(t, "n")
		c := PublicCase{HiRes: rapid.Bool().Draw(t, "hires"), FlipMid: rapid.IntRange(0, 2).Draw(t, "flipmid") == 0}
		nt := false
		for i := 0; i < n; i++ {
			v := gen.Float32Any(t, "v")
			c.Values = append(c.Values, ops.F32(v))
			nt = nt || nontrivialFloat(math.Float32bits(v))
		}
		l := "low-resolution"
		if c.HiRes {
			l = "high-resolution"
		}
		labels := []string{l}
		if c.FlipMid {
			labels = append(labels, "resolution-field-flipped-while-the-path-is-open")
		}
		subPublic.See(c, nt, harness.HashJSON(c), labels...)
		subPublic.Run(t, c)
	})
	// the boundary table, in both modes, with and without a flip of the field mid-path
	for _, m := range [][2]bool{{false, false}, {true, false}, {false, true}, {true, true}} {
		c := PublicCase{HiRes: m[0], FlipMid: m[1]}
		for _, v := range append(append([]float32{}, gen.Boundary...), gen.NonFinite...) {
			c.Values = append(c.Values, ops.F32(v), ops.F32(-v))
		}
		subPublic.See(c, true, harness.HashJSON(c), "boundary-table")
		subPublic.Run(t, c)
	}
	subPublic.Label("zero-to-one-grid-values-stored-long(D10,not-a-C08-claim)", d10Public)
}

// viewBox members, chunk lengths (5..258) and chunk counts (0..2) through Reset.
type MetaCase struct {
	ViewBox [4]ops.F32 `json:"viewbox"`
	NPal    int        `json:"palette_entries"` // 4-byte entries => chunk length 2+4n
	// Form: bytes per palette entry the colours are chosen to need (1-3; 0 or 4: four), so that
	// the chunk length 2+Form*n takes every value, 127, 128 and 129 included.
	Form int `json:"form,omitempty"`
}

func checkMetaNumbers(c MetaCase) error {
	var enc encode.Encoder
	pal := ivg.DefaultPalette
	for i := 0; i < c.NPal; i++ {
		switch c.Form {
		case 1:
			ch := []uint8{0x00, 0x40, 0x80, 0xc0, 0xff}
			pal[i] = color.RGBA{0xff, ch[i%5], ch[i/5%5], 0xff}
		case 2:
			pal[i] = color.RGBA{0x11 * uint8(1+i%15), 0x22, 0x11 * uint8(i/15), 0xff}
		case 3:
			pal[i] = color.RGBA{uint8(i + 1), 0x12, 0x34, 0xff}
		default:
			pal[i].R, pal[i].G, pal[i].B, pal[i].A = uint8(i), uint8(i), uint8(i), 0x70+uint8(i)
		}
	}
	vb := ivg.ViewBox{MinX: float32(c.ViewBox[0]), MinY: float32(c.ViewBox[1]), MaxX: float32(c.ViewBox[2]), MaxY: float32(c.ViewBox[3])}
	enc.Reset(vb, pal)
	b, err := enc.Bytes()
	if err != nil {
		return harness.Violatef("c08/meta-bytes", "Bytes: %v", err)
	}
	p := spec.ParseOpt(b, spec.Options{RecordNums: true})
	if !p.OK {
		return harness.Violatef("c08/meta-ill-formed", "metadata written by Reset is ill formed: %s (% x)", p.Err, b)
	}
	vi := 0
	for _, nr := range p.Nums {
		wantW := spec.NaturalWidth(nr.Payload)
		if nr.Kind == spec.Coordinate {
			wantW, _ = exactWidth(spec.Coordinate, float32(c.ViewBox[vi]))
			vi++
		}
		if nr.Width != wantW {
			return harness.Violatef("c08/meta-not-shortest", "Reset wrote the %v at offset %d in %d bytes, shortest exact form has %d (% x)", nr.Kind, nr.Pos, nr.Width, wantW, b)
		}
	}
	wantChunks := uint32(0)
	if vb != ivg.DefaultViewBox {
		wantChunks++
	}
	if c.NPal > 0 {
		wantChunks++
	}
	if p.NChunks != wantChunks {
		return harness.Violatef("c08/meta-count", "chunk count %d, want %d", p.NChunks, wantChunks)
	}
	for i := 0; i < 4; i++ {
		if !thirty(spec.Coordinate, float32(c.ViewBox[i]), p.ViewBox[i]) {
			return harness.Violatef("c08/meta-viewbox", "viewBox member %d = %v came back as %v", i, c.ViewBox[i], ops.F32(p.ViewBox[i]))
		}
	}
	if p.Palette != pal {
		return harness.Violatef("c08/meta-palette", "palette not reproduced")
	}
	return nil
}

var subMeta = harness.Define("metadata-numbers", "viewBox members of every float class (finite, ordered) and suggested palettes of 0..64 four-byte entries (chunk lengths 6..258 crossing the 1/2-byte natural boundary, chunk counts 0..2) through Encoder.Reset, read back with the reference parser", checkMetaNumbers)

// The three naturals that frame a metadata chunk (chunk count, chunk length, identifier), each in
// every width: a longer form than necessary is the same number.
type FrameCase struct {
	Widths [3]int `json:"widths"` // of the chunk count, the chunk length, the identifier
	Pal    bool   `json:"palette"`
}

func checkFrame(c FrameCase) error {
	body := []byte{0x50, 0x50, 0xb0, 0xb0} // viewBox -24,-24,24,24 in one-byte coordinates
	mid := uint32(0)
	if c.Pal {
		body, mid = []byte{0x01, 0x18, 0x63}, 1 // two one-byte colours
	}
	m := spec.EncodeNaturalW(mid, c.Widths[2])
	b := append([]byte{0x89, 'I', 'V', 'G'}, spec.EncodeNaturalW(1, c.Widths[0])...)
	b = append(b, spec.EncodeNaturalW(uint32(len(m)+len(body)), c.Widths[1])...)
	b = append(append(b, m...), body...)
	rec := &ops.Recorder{}
	if err := decode.Decode(rec, b); err != nil || len(rec.Ops) != 1 {
		return harness.Violatef("c08/public-natural-form", "metadata framed by naturals of widths %v (% x) is not decoded: %v", c.Widths, b, err)
	}
	if p := spec.Parse(b); !p.MetaOK || rec.Ops[0].ViewBox() != gen.VB(p.ViewBox) || rec.Ops[0].Palette() != p.Palette {
		return harness.Violatef("c08/public-natural-form", "metadata framed by naturals of widths %v (% x) decodes to other metadata than the reference reads", c.Widths, b)
	}
	if vb, err := decode.DecodeViewBox(b); err != nil || vb != rec.Ops[0].ViewBox() {
		return harness.Violatef("c08/public-natural-form", "DecodeViewBox on metadata framed by naturals of widths %v: %v %v", c.Widths, vb, err)
	}
	return nil
}

var subFrame = harness.Define("metadata-framing-naturals", "chunk count, chunk length and chunk identifier each in the 1-, 2- and 4-byte natural form (27 combinations x viewBox/palette chunk): decoded as the same numbers; non-trivial = a form longer than necessary", checkFrame)

func TestMetadataFraming(t *testing.T) {
	harness.OnlyFirstShard(t)
	for _, pal := range []bool{false, true} {
		for a := 0; a < 27; a++ {
			w := []int{1, 2, 4}
			c := FrameCase{Widths: [3]int{w[a%3], w[a/3%3], w[a/9]}, Pal: pal}
			subFrame.See(c, a > 0, harness.HashJSON(c), fmt.Sprintf("identifier-width=%d", c.Widths[2]))
			subFrame.Run(t, c)
		}
	}
}

func TestMetadataNumbers(t *testing.T) {
	for n := 0; n <= 64; n++ {
		c := MetaCase{ViewBox: [4]ops.F32{-32, -32, 32, 32}, NPal: n}
		if n%2 == 1 {
			c.ViewBox = [4]ops.F32{-1.5, -100.25, 1000, 127.984375}
		}
		subMeta.See(c, true, harness.HashJSON(c), fmt.Sprintf("palette-chunk-length-%s", map[bool]string{true: ">=128", false: "<128"}[2+4*n >= 128]))
		subMeta.Run(t, c)
		for form := 1; form <= 3; form++ {
			c.Form = form
			l := "palette-chunk-length<127"
			if k := 2 + form*n; k >= 127 && k <= 129 {
				l = fmt.Sprintf("palette-chunk-length=%d", k)
			} else if k > 129 {
				l = "palette-chunk-length>129"
			}
			subMeta.See(c, true, harness.HashJSON(c), l)
			subMeta.Run(t, c)
		}
	}
	harness.Rapid(t, harness.N(8000, 16*80000), func(t *rapid.T) {
		var v [4]float32
		for {
			for i := range v {
				v[i] = gen.Float32Any(t, "vb")
			}
			ok := true
			for _, x := range v {
				if x != x || x-x != 0 {
					ok = false
				}
			}
			if ok {
				break
			}
		}
		if v[0] > v[2] {
			v[0], v[2] = v[2], v[0]
		}
		if v[1] > v[3] {
			v[1], v[3] = v[3], v[1]
		}
		c := MetaCase{ViewBox: [4]ops.F32{ops.F32(v[0]), ops.F32(v[1]), ops.F32(v[2]), ops.F32(v[3])}, NPal: rapid.SampledFrom([]int{0, 1, 31, 32, 64}).Draw(t, "npal")}
		subMeta.See(c, true, harness.HashJSON(c))
		subMeta.Run(t, c)
	})
}
