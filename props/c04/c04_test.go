// C04 — each path is painted with what the register machine prescribes, or not at all.
package c04

import (
	"fmt"
	"image"
	"image/color"
	"math"
	"testing"

	"github.com/reactivego/ivg"
	"github.com/reactivego/ivg/decode"
	"github.com/reactivego/ivg/encode"
	"github.com/reactivego/ivg/generate"
	"github.com/reactivego/ivg/render"
	"pgregory.net/rapid"

	"verif/internal/gen"
	"verif/internal/harness"
	"verif/internal/ops"
	"verif/internal/rast"
	"verif/internal/spec"
)

func TestMain(m *testing.M) { harness.Main(m, "C04") }

type Case struct {
	ViewBox  [4]ops.F32  `json:"viewbox"`
	Palette  ops.Palette `json:"palette"`
	Rect     [4]int      `json:"rect"`
	Ops      []ops.Op    `json:"ops"`
	ViaBytes bool        `json:"via_bytes"`
	// Copied: the Renderer that receives the calls is a copy (plain assignment) of the one that
	// SetRasterizer was called on.
	Copied bool `json:"copied,omitempty"`
	// Bystander: a second, unrelated Renderer (own rasteriser) opens a gradient-filled path of
	// its own right after each StartPath of the one under test and ends it right after, so two
	// Renderers have paths open at the same time (one goroutine, calls interleaved).
	Bystander bool `json:"bystander,omitempty"`
}

type bystander struct {
	z    render.Renderer
	r    rast.Recorder
	g    generate.Generator
	open bool
}

func (b *bystander) init() {
	b.z.SetRasterizer(&b.r, image.Rect(3, 4, 40, 50))
	b.g.SetDestination(&b.z)
	b.g.Reset(ivg.ViewBox{MinX: 0, MinY: 0, MaxX: 10, MaxY: 10}, ivg.DefaultPalette)
}

func (b *bystander) start() {
	stops := []generate.GradientStop{{Offset: 0.125, Color: color.RGBA{0x12, 0x34, 0x56, 0xff}}, {Offset: 0.375, Color: color.RGBA{0x65, 0x43, 0x21, 0xff}},
		{Offset: 0.625, Color: color.RGBA{0x01, 0x02, 0x03, 0x04}}, {Offset: 0.875, Color: color.RGBA{0xf0, 0xe0, 0xd0, 0xff}}}
	b.g.SetCSel(0)
	b.g.SetNSel(0)
	b.g.SetLinearGradient(1, 2, 7, 9, generate.GradientSpreadReflect, stops)
	b.g.StartPath(0, 1, 1)
	b.g.AbsLineTo(5, 1)
	b.g.AbsLineTo(5, 5)
	b.open = true
}

func (b *bystander) end() {
	if b.open {
		b.g.ClosePathEndPath()
		b.open = false
	}
}

type pathObs struct {
	opIndex int
	calls   []rast.Call
}

// run drives the ops into a Renderer (directly, or encoded and decoded) and
// returns the calls as delivered plus the rasteriser calls of each path.
func run(c Case) (delivered []ops.Op, paths []pathObs, stray []rast.Call, err error) {
	vb := [4]float32{float32(c.ViewBox[0]), float32(c.ViewBox[1]), float32(c.ViewBox[2]), float32(c.ViewBox[3])}
	rect := image.Rect(c.Rect[0], c.Rect[1], c.Rect[0]+c.Rect[2], c.Rect[1]+c.Rect[3])
	rr := &rast.Recorder{}
	var z0 render.Renderer
	z0.SetRasterizer(rr, rect)
	zp := &z0
	if c.Copied {
		z1 := z0 // a Renderer is a plain struct: a copy is as good as the original
		z0 = render.Renderer{}
		zp = &z1
	}
	hook := &ops.Recorder{Inner: zp}
	inPath := false
	last := 0
	var by *bystander
	if c.Bystander {
		by = &bystander{}
		by.init()
	}
	hook.After = func(o ops.Op) {
		if by != nil {
			switch o.K {
			case ops.StartPath:
				by.start()
			case ops.ClosePathEndPath:
				defer by.end() // the Renderer under test has drawn by now
			}
		}
		n := len(rr.Calls)
		switch {
		case o.K == ops.StartPath:
			if n > last {
				// calls made before StartPath ran belong to nobody
			}
			paths = append(paths, pathObs{opIndex: len(hook.Ops) - 1})
			paths[len(paths)-1].calls = append(paths[len(paths)-1].calls, rr.Calls[last:n]...)
			inPath = true
		case inPath:
			p := &paths[len(paths)-1]
			p.calls = append(p.calls, rr.Calls[last:n]...)
			if o.K == ops.ClosePathEndPath {
				inPath = false
			}
		default:
			stray = append(stray, rr.Calls[last:n]...)
		}
		last = n
	}
	if c.ViaBytes {
		var enc encode.Encoder
		enc.Reset(gen.VB(vb), [64]color.RGBA(c.Palette))
		enc.HighResolutionCoordinates = true
		for _, o := range c.Ops {
			if o.K == ops.StartPath {
				enc.HighResolutionCoordinates = true
			}
			ops.Apply(&enc, o)
		}
		b, e := enc.Bytes()
		if e != nil {
			return nil, nil, nil, fmt.Errorf("encode: %v", e)
		}
		if e := decode.Decode(hook, append([]byte{}, b...), decode.WithPalette([64]color.RGBA(c.Palette))); e != nil {
			return nil, nil, nil, fmt.Errorf("decode: %v", e)
		}
	} else {
		hook.Reset(gen.VB(vb), [64]color.RGBA(c.Palette))
		for _, o := range c.Ops {
			ops.Apply(hook, o)
		}
	}
	return hook.Ops, paths, stray, nil
}

func relClose(a, b, scale float64) bool {
	return math.Abs(a-b) <= 1e-6*math.Max(scale, math.Max(math.Abs(a), math.Abs(b)))+1e-300
}

func checkPaint(c Case) error {
	delivered, paths, stray, err := run(c)
	if err != nil {
		return harness.Violatef("c04/harness", "%v", err)
	}
	if len(stray) > 0 {
		return harness.Violatef("c04/stray-activity", "rasteriser calls outside any path: %v", stray)
	}
	var vm spec.VM
	vm.Reset([64]color.RGBA(c.Palette))
	// the viewBox as delivered (through bytes it has passed the 30-bit form)
	if len(delivered) == 0 || delivered[0].K != ops.Reset {
		return harness.Violatef("c04/harness", "no Reset delivered")
	}
	dvb := delivered[0].ViewBox()
	vb := [4]float64{float64(dvb.MinX), float64(dvb.MinY), float64(dvb.MaxX), float64(dvb.MaxY)}
	sx := float64(c.Rect[2]) / (vb[2] - vb[0])
	sy := float64(c.Rect[3]) / (vb[3] - vb[1])
	rect := image.Rect(c.Rect[0], c.Rect[1], c.Rect[0]+c.Rect[2], c.Rect[1]+c.Rect[3])
	pi := 0
	for i, o := range delivered {
		pp := vm.Step(o, c.Rect[3])
		if pp == nil {
			continue
		}
		if pi >= len(paths) || paths[pi].opIndex != i {
			return harness.Violatef("c04/harness", "path bookkeeping out of step")
		}
		calls := paths[pi].calls
		pi++
		switch pp.Kind {
		case spec.PaintUnspecified:
			continue
		case spec.PaintSkipped:
			if len(calls) != 0 {
				return harness.Violatef("c04/skipped-path-drawn", "path %d (op %d) must be skipped (%s; CREG value %v) but caused rasteriser activity: %v", pi-1, i, pp.Reason, pp.Source, calls[0])
			}
			continue
		}
		if len(calls) < 4 || calls[0].K != rast.Reset || calls[len(calls)-1].K != rast.Draw || calls[len(calls)-2].K != rast.ClosePath {
			return harness.Violatef("c04/path-not-drawn", "path %d (op %d) must be drawn with a %v paint (CREG value %v) but the rasteriser saw %d calls %v", pi-1, i, pp.Kind, pp.Source, len(calls), head(calls))
		}
		if rect.Empty() {
			// every empty rectangle is the zero rectangle to the Renderer (documented in SetRasterizer)
			if calls[0].W != 0 || calls[0].H != 0 || calls[len(calls)-1].R != (image.Rectangle{}) {
				return harness.Violatef("c04/reset-size", "path %d: Reset(%d,%d), Draw(%v) for an empty rectangle", pi-1, calls[0].W, calls[0].H, calls[len(calls)-1].R)
			}
		} else if calls[0].W != c.Rect[2] || calls[0].H != c.Rect[3] {
			return harness.Violatef("c04/reset-size", "path %d: Reset(%d,%d) for a %dx%d rectangle", pi-1, calls[0].W, calls[0].H, c.Rect[2], c.Rect[3])
		}
		nDraw, nReset := 0, 0
		for _, cl := range calls {
			if cl.K == rast.Draw {
				nDraw++
			}
			if cl.K == rast.Reset {
				nReset++
			}
		}
		if nDraw != 1 || nReset != 1 {
			return harness.Violatef("c04/draw-count", "path %d: %d Reset and %d Draw calls, expected one each", pi-1, nReset, nDraw)
		}
		d := calls[len(calls)-1]
		if !rect.Empty() && d.R != rect || d.SP != (image.Point{}) {
			return harness.Violatef("c04/draw-rect", "path %d: Draw(%v, sp=%v), target rectangle %v", pi-1, d.R, d.SP, rect)
		}
		switch pp.Kind {
		case spec.PaintFlat:
			if d.P.Kind != "uniform" || d.P.Uniform != pp.Flat {
				return harness.Violatef("c04/flat-paint", "path %d (op %d): painted with %v, the machine prescribes flat %v", pi-1, i, d.P, pp.Flat)
			}
		case spec.PaintGradient:
			g := pp.Grad
			if d.P.Kind != "gradient" {
				return harness.Violatef("c04/gradient-paint", "path %d (op %d): painted with %v, the machine prescribes a gradient", pi-1, i, d.P)
			}
			shape := 0
			if g.Radial {
				shape = 1
			}
			if d.P.Shape != shape || d.P.Spread != int(g.Spread) {
				return harness.Violatef("c04/gradient-shape-spread", "path %d: gradient shape=%d spread=%d, prescribed shape=%d spread=%d", pi-1, d.P.Shape, d.P.Spread, shape, g.Spread)
			}
			if len(d.P.Offsets) != len(g.Offsets) || len(d.P.Colors) != len(g.Colors) {
				return harness.Violatef("c04/gradient-stops", "path %d: %d offsets / %d colours, prescribed %d stops", pi-1, len(d.P.Offsets), len(d.P.Colors), len(g.Offsets))
			}
			for k := range g.Offsets {
				if d.P.Offsets[k] != float64(g.Offsets[k]) {
					return harness.Violatef("c04/gradient-stops", "path %d: stop %d offset %v, prescribed %v", pi-1, k, d.P.Offsets[k], g.Offsets[k])
				}
				if d.P.Colors[k] != g.Colors[k] {
					return harness.Violatef("c04/gradient-stops", "path %d: stop %d colour %v, prescribed %v", pi-1, k, d.P.Colors[k], g.Colors[k])
				}
			}
			// pixel -> gradient = (viewBox -> gradient) o (pixel -> viewBox)
			m := g.Matrix
			a, b, cc := float64(m[0]), float64(m[1]), float64(m[2])
			dd, e, f := float64(m[3]), float64(m[4]), float64(m[5])
			want := [6]float64{a / sx, b / sy, cc + a*vb[0] + b*vb[1], dd / sx, e / sy, f + dd*vb[0] + e*vb[1]}
			scale := [6]float64{0, 0, math.Abs(cc) + math.Abs(a*vb[0]) + math.Abs(b*vb[1]), 0, 0, math.Abs(f) + math.Abs(dd*vb[0]) + math.Abs(e*vb[1])}
			finite := !rect.Empty() // an empty rectangle has no pixel -> viewBox map to compose with
			for _, v := range m {
				if v != v || v-v != 0 {
					finite = false // no claim about non-finite matrices
				}
			}
			for k := range want {
				if !finite {
					break
				}
				got := d.P.Transform[k]
				if !(got == want[k]) && !relClose(got, want[k], scale[k]) {
					return harness.Violatef("c04/gradient-transform", "path %d: pixel->gradient transform entry %d = %v, composition of the register matrix %v with the pixel->viewBox map gives %v", pi-1, k, got, m, want[k])
				}
			}
		}
	}
	if pi != len(paths) {
		return harness.Violatef("c04/harness", "%d paths observed, %d prescribed", len(paths), pi)
	}
	return nil
}

func head(c []rast.Call) []rast.Call {
	if len(c) > 4 {
		return c[:4]
	}
	return c
}

var subPaint = harness.Define("paint", "styling/drawing programs biased to register traffic (selectors at 0/1/62/63, ADJ 0-6, increment chains across 63->0, palette/CREG/blend colours, gradients at every CBASE/NBASE/NSTOPS with valid or broken stops, LOD pairs incl. infinities/NaN) x raster heights at the LOD thresholds x custom palettes, fed directly or through Encoder+Decode: for every path the paint captured at Rasterizer.Draw equals the reference VM's (flat exact; gradient shape/spread/stops exact, transform 1e-6), skipped paths cause no rasteriser call; non-trivial = >= 2 paths and a selector wrap, ADJ after increment, blend from a register, gradient, skipped path or LOD boundary", checkPaint)

type genState struct {
	labels map[string]bool
}

func (g *genState) l(s string) { g.labels[s] = true }

func lodValue(t *rapid.T, h int, label string) float32 {
	switch rapid.IntRange(0, 7).Draw(t, label+".class") {
	case 0:
		return float32(h)
	case 1:
		return float32(h) + 0.5
	case 2:
		return float32(h) - 0.5
	case 3:
		return float32(h + 1)
	case 4:
		return rapid.SampledFrom(gen.NonFinite[:3]).Draw(t, label+".nf")
	case 5:
		return 0
	default:
		return float32(rapid.IntRange(0, 700).Draw(t, label))
	}
}

func genCase(t *rapid.T) (Case, map[string]bool) {
	gs := &genState{labels: map[string]bool{}}
	var c Case
	c.ViewBox = [4]ops.F32{-32, -32, 32, 32}
	if rapid.Bool().Draw(t, "vb") {
		vb := gen.ViewBox(t, "vb", false)
		if vb[2]-vb[0] > 5000 || vb[3]-vb[1] < 0.01 {
			vb = [4]float32{5, -7, 53, 41}
		}
		for i, v := range vb {
			c.ViewBox[i] = ops.F32(v)
		}
	}
	c.Palette = ops.DefaultPalette()
	if rapid.Bool().Draw(t, "pal") {
		c.Palette = gen.Palette(t, "pal", true)
		gs.l("custom-palette")
	}
	h := rapid.SampledFrom([]int{0, 1, 2, 31, 32, 33, 64, 100, 511, 512, 600}).Draw(t, "h")
	c.Rect = [4]int{rapid.IntRange(0, 30).Draw(t, "x0"), rapid.IntRange(0, 30).Draw(t, "y0"), rapid.IntRange(1, 600).Draw(t, "w"), h}
	if h == 0 {
		gs.l("empty-target-rectangle") // height 0 lies inside the default level-of-detail range
	}
	if rapid.IntRange(0, 3).Draw(t, "copied") == 0 {
		c.Copied = true
		gs.l("renderer-copied-after-SetRasterizer")
	}
	if rapid.IntRange(0, 4).Draw(t, "bystander") == 0 {
		c.Bystander = true
		gs.l("another-renderer-has-a-gradient-path-open-meanwhile")
	}
	c.ViaBytes = rapid.IntRange(0, 2).Draw(t, "via") == 0
	if c.ViaBytes {
		gs.l("via-bytes")
	}
	col := func(t *rapid.T, l string) ops.ColorV {
		cv := gen.Color(t, l)
		if cv.T == 3 {
			gs.l("blend")
			if cv.G >= 0xc0 || cv.B >= 0xc0 {
				gs.l("blend-from-register")
			}
		}
		return cv
	}
	num := func(t *rapid.T, l string) float32 {
		switch rapid.IntRange(0, 4).Draw(t, l+".cl") {
		case 0:
			return float32(rapid.IntRange(0, 120).Draw(t, l)) / 120
		case 1:
			return float32(rapid.IntRange(-16, 80).Draw(t, l)) / 64
		default:
			return gen.Float32Any(t, l)
		}
	}
	nblocks := rapid.IntRange(2, 6).Draw(t, "blocks")
	var cSel uint8
	lastIncr := false
	for b := 0; b < nblocks; b++ {
		ns := rapid.IntRange(0, 6).Draw(t, "nsty")
		again := false
		for i := 0; i < ns; i++ {
			var o ops.Op
			if n := len(c.Ops); i > 0 && !again && n > 0 {
				o, again = gen.Again(t, c.Ops[n-1], "sty")
			} else {
				again = false
			}
			if again {
				gs.l("same-value-written-again")
			} else {
				o = gen.Styling(t, num, col, "sty")
			}
			if o.K == ops.SetLOD && !again {
				o = ops.OpSetLOD(lodValue(t, h, "lod0"), lodValue(t, h, "lod1"))
				gs.l("lod-set")
				if o.Arg(0) == float32(h) || o.Arg(1) == float32(h) {
					gs.l("lod-boundary-exact")
				}
			}
			if o.K == ops.SetCSel {
				cSel = o.Sel & 63
				lastIncr = false
			}
			if o.K == ops.SetCReg && o.C != nil && o.C.T == 3 && !again && rapid.IntRange(0, 2).Draw(t, "selfref") == 0 {
				// a blend one of whose operands is the very register being written: "resolved
				// when stored" means it reads the old contents
				target := (cSel - o.Adj) & 63
				cv := *o.C
				if rapid.Bool().Draw(t, "selfref.which") {
					cv.G = 0xc0 | target
				} else {
					cv.B = 0xc0 | target
				}
				o.C = &cv
				gs.l("blend-reads-the-register-it-writes")
			}
			if o.K == ops.SetCReg {
				if o.Incr {
					if cSel == 63 {
						gs.l("selector-wrap-63->0")
					}
					cSel = (cSel + 1) & 63
					lastIncr = true
				} else {
					if o.Adj > cSel {
						gs.l("adj-wraps-below-0")
					}
					if o.Adj > 0 && lastIncr {
						gs.l("adj-after-increment")
					}
				}
			}
			c.Ops = append(c.Ops, o)
		}
		adj := gen.Adj(t, "sp.adj")
		var edit *gen.GradSetup
		if rapid.IntRange(0, 2).Draw(t, "grad") == 0 {
			blk, g := gen.GradientBlock(t, gen.SimpleMatrix, true)
			c.Ops = append(c.Ops, blk...)
			if g.Break == "" && g.Bits.NStops >= 2 {
				gg := g
				edit = &gg
			}
			gs.l("gradient")
			if g.Break != "" {
				gs.l("gradient-broken:" + g.Break)
			}
			if int(g.Bits.CBase)+int(g.Bits.NStops) > 64 || int(g.Bits.NBase)+int(g.Bits.NStops) > 64 || g.Bits.NBase < 6 {
				gs.l("gradient-base-wraps")
			}
			if g.ReservedRedBits {
				gs.l("gradient-value-with-reserved-red-bits")
			}
			c.Ops = append(c.Ops, ops.OpSetCSel((g.Reg+adj)&63))
			cSel = (g.Reg + adj) & 63
			lastIncr = false
			if rapid.IntRange(0, 3).Draw(t, "gradlike") == 0 {
				edit = nil
				// the same bits with a non-zero alpha: not a gradient (a gradient has
				// alpha 0) and not premultiplied, so the path must be skipped even
				// though the registers it names hold a perfectly valid gradient
				gl := spec.EncodeGradientBits(g.Bits)
				gl.A = uint8(rapid.IntRange(1, 0x7f).Draw(t, "gradlike.a"))
				c.Ops = append(c.Ops, ops.OpSetCReg(adj, false, ops.RGBAv(gl)))
				gs.l("gradient-looking-colour-with-alpha")
			} else if other, ok := freeRegister(g); ok {
				gv := rapid.IntRange(0, 5).Draw(t, "gradvariant")
				if gv <= 2 {
					edit = nil
				}
				switch gv {
				case 0:
					// another register receives the gradient value through a blend that copies it
					// (weight 255 or 0, the partner transparent): the path is filled from that register
					bl := ops.ColorV{T: 3, R: 255, G: 0x7f, B: 0xc0 | g.Reg}
					if rapid.Bool().Draw(t, "copy.t0") {
						bl = ops.ColorV{T: 3, R: 0, G: 0xc0 | g.Reg, B: 0x7f}
					}
					c.Ops = append(c.Ops, ops.OpSetCSel((other+adj)&63), ops.OpSetCReg(adj, false, bl))
					cSel = (other + adj) & 63
					gs.l("gradient-value-copied-through-a-blend")
				case 1:
					// a sibling value (same stops and bases, other shape or spread) in a second register;
					// two paths in a row, one from each, with nothing but a selector write in between
					sib := g.Bits
					if rapid.Bool().Draw(t, "sib.shape") {
						sib.Radial = !sib.Radial
					} else {
						sib.Spread = (sib.Spread + uint8(rapid.IntRange(1, 3).Draw(t, "sib.spread"))) & 3
					}
					c.Ops = append(c.Ops, ops.OpSetCSel(other), ops.OpSetCReg(0, false, ops.RGBAv(spec.EncodeGradientBits(sib))), ops.OpSetCSel((g.Reg+adj)&63),
						ops.OpStartPath(adj, gen.Grid(t, "sx", 30), gen.Grid(t, "sy", 30)), ops.OpDraw(ops.AbsLineTo, 5, 7), ops.OpDraw(ops.AbsLineTo, -3, 9), ops.OpDraw(ops.ClosePathEndPath),
						ops.OpSetCSel((other+adj)&63))
					cSel = (other + adj) & 63
					gs.l("two-paths-in-a-row-from-sibling-gradient-values")
				case 2:
					// the register holding the gradient value is an operand of a real blend (weights
					// 1..254): its four bytes count as they were stored, reserved bits included; with
					// nearly all weight on opaque black the result is a valid flat colour
					tw := uint8(rapid.IntRange(1, 12).Draw(t, "mix.t"))
					bl := ops.ColorV{T: 3, R: tw, G: 0x00, B: 0xc0 | g.Reg}
					if rapid.Bool().Draw(t, "mix.swap") {
						bl = ops.ColorV{T: 3, R: 255 - tw, G: 0xc0 | g.Reg, B: 0x00}
					}
					c.Ops = append(c.Ops, ops.OpSetCSel((other+adj)&63), ops.OpSetCReg(adj, false, bl))
					cSel = (other + adj) & 63
					gs.l("gradient-value-mixed-into-a-flat-colour-by-a-blend")
				}
			}
		}
		if adj > cSel {
			gs.l("adj-wraps-below-0")
		}
		c.Ops = append(c.Ops, ops.OpStartPath(adj, gen.Grid(t, "x", 30), gen.Grid(t, "y", 30)))
		nd := rapid.IntRange(0, 3).Draw(t, "ndraw")
		for i := 0; i < nd; i++ {
			k := rapid.SampledFrom(gen.DrawVerbs[:16]).Draw(t, "verb")
			c.Ops = append(c.Ops, gen.DrawOp(t, k, func(t *rapid.T, l string) float32 { return gen.Grid(t, l, 40) }, "d"))
		}
		c.Ops = append(c.Ops, ops.OpDraw(ops.ClosePathEndPath))
		if edit != nil && rapid.IntRange(0, 2).Draw(t, "edit") == 0 {
			// the stops of the gradient just drawn are edited register by register: an early stop
			// gets another colour and a later one a colour that is not premultiplied; a path (not
			// drawn); the later stop gets its colour back; a path, drawn with the edited gradient
			n := int(edit.Bits.NStops)
			i := rapid.IntRange(0, n-2).Draw(t, "edit.i")
			j := rapid.IntRange(i+1, n-1).Draw(t, "edit.j")
			fresh := color.RGBA{0x21, 0x43, 0x65, 0x87}
			if edit.Colors[i] == fresh {
				fresh = color.RGBA{0x01, 0x02, 0x03, 0xff}
			}
			creg := func(k int) uint8 { return (edit.Bits.CBase + uint8(k)) & 63 }
			path := []ops.Op{ops.OpSetCSel(edit.Reg), ops.OpStartPath(0, 1, 2), ops.OpDraw(ops.AbsLineTo, 9, 3), ops.OpDraw(ops.AbsLineTo, 4, 11), ops.OpDraw(ops.ClosePathEndPath)}
			c.Ops = append(c.Ops, ops.OpSetCSel(creg(i)), ops.OpSetCReg(0, false, ops.RGBAv(fresh)),
				ops.OpSetCSel(creg(j)), ops.OpSetCReg(0, false, ops.RGBAv(color.RGBA{0xff, 0x10, 0x10, 0x20})))
			c.Ops = append(c.Ops, path...)
			c.Ops = append(c.Ops, ops.OpSetCSel(creg(j)), ops.OpSetCReg(0, false, ops.RGBAv(edit.Colors[j])))
			c.Ops = append(c.Ops, path...)
			cSel, lastIncr = edit.Reg, false
			gs.l("gradient-stops-edited-register-by-register-between-paths")
		}
	}
	if rapid.IntRange(0, 5).Draw(t, "palgrad") == 0 {
		// the graphic begins with a gradient whose stop colours it never writes: they are what the
		// registers hold from the start, the custom palette's entries
		n := rapid.IntRange(2, 4).Draw(t, "palgrad.n")
		cb := gen.Sel(t, "palgrad.cbase")
		reg := (cb + uint8(n) + uint8(rapid.IntRange(0, 20).Draw(t, "palgrad.reg"))) & 63
		pre := []ops.Op{ops.OpSetNSel(20)}
		for j, v := range []float32{1.0 / 64, 0, 0.5, 0, 1.0 / 64, 0.5} {
			pre = append(pre, ops.OpSetNReg(uint8(6-j), false, v))
		}
		for i := 0; i < n; i++ {
			c.Palette[(int(cb)+i)&63] = gen.PremulColor(t, "palgrad.col")
			pre = append(pre, ops.OpSetNReg(0, true, float32(i)/float32(n-1)))
		}
		pre = append(pre, ops.OpSetCSel(reg), ops.OpSetCReg(0, false, ops.RGBAv(spec.EncodeGradientBits(spec.GradientBits{NStops: uint8(n), CBase: cb, NBase: 20, Spread: uint8(rapid.IntRange(0, 3).Draw(t, "palgrad.spread"))}))),
			ops.OpStartPath(0, 1, 2), ops.OpDraw(ops.AbsLineTo, 9, 3), ops.OpDraw(ops.AbsLineTo, 4, 11), ops.OpDraw(ops.ClosePathEndPath), ops.OpSetCSel(0), ops.OpSetNSel(0))
		c.Ops = append(pre, c.Ops...)
		gs.l("gradient-whose-stop-colours-are-the-palette's-entries-(never-written)")
		gs.l("custom-palette")
	}
	return c, gs.labels
}

// freeRegister: a colour register that is neither the gradient value's nor one of its stops'.
func freeRegister(g gen.GradSetup) (uint8, bool) {
	for k := uint8(1); k < 64; k++ {
		r := (g.Reg + k*13) & 63
		if r != g.Reg && (r-g.Bits.CBase)&63 >= g.Bits.NStops {
			return r, true
		}
	}
	return 0, false
}

func TestPaint(t *testing.T) {
	harness.Rapid(t, harness.N(15000, 16*240000), func(t *rapid.T) {
		c, lab := genCase(t)
		// classify by what the reference VM prescribes
		var vm spec.VM
		vm.Reset([64]color.RGBA(c.Palette))
		paths := 0
		for _, o := range c.Ops {
			if pp := vm.Step(o, c.Rect[3]); pp != nil {
				paths++
				lab["paint="+pp.Kind.String()] = true
				if pp.Kind == spec.PaintSkipped {
					lab["skipped:"+pp.Reason] = true
				}
			}
		}
		var labels []string
		interesting := false
		for l := range lab {
			labels = append(labels, l)
			if l != "custom-palette" && l != "via-bytes" && l != "paint=flat" {
				interesting = true
			}
		}
		subPaint.See(c, paths >= 2 && interesting, harness.HashJSON(c), labels...)
		subPaint.Run(t, c)
	})
}

// Deterministic table: every ADJ at every selector edge, with and without a
// preceding increment, painting from a register filled with a known colour.
func TestSelectorTable(t *testing.T) {
	harness.OnlyFirstShard(t)
	st := harness.Counter("selector-table", "CSEL in {0,1,6,62,63} x ADJ 0-6 x {plain, after an incrementing write}: the path must be painted with the colour stored at (CSEL-ADJ) mod 64")
	n := int64(0)
	for _, sel := range []uint8{0, 1, 5, 6, 62, 63} {
		for adj := uint8(0); adj <= 6; adj++ {
			for _, incr := range []bool{false, true} {
				var o []ops.Op
				// fill all 64 registers with distinct opaque colours
				o = append(o, ops.OpSetCSel(0))
				for i := 0; i < 64; i++ {
					o = append(o, ops.OpSetCReg(0, true, ops.ColorV{T: 0, R: uint8(i), G: uint8(i * 3), B: 7, A: 0xff}))
				}
				o = append(o, ops.OpSetCSel(sel))
				if incr {
					o = append(o, ops.OpSetCReg(0, true, ops.ColorV{T: 0, R: 0xee, G: 1, B: 2, A: 0xff}))
				}
				o = append(o, ops.OpStartPath(adj, 0, 0), ops.OpDraw(ops.AbsLineTo, 5, 5), ops.OpDraw(ops.AbsLineTo, 0, 5), ops.OpDraw(ops.ClosePathEndPath))
				c := Case{ViewBox: [4]ops.F32{-32, -32, 32, 32}, Palette: ops.DefaultPalette(), Rect: [4]int{0, 0, 64, 64}, Ops: o}
				n++
				if err := subPaint.Eval(c); err != nil {
					t.Fatalf("sel %d adj %d incr %v: %v", sel, adj, incr, err)
				}
				c.ViaBytes = true
				n++
				if err := subPaint.Eval(c); err != nil {
					t.Fatalf("sel %d adj %d incr %v via bytes: %v", sel, adj, incr, err)
				}
			}
		}
	}
	st.AddEnumerated(n, n)
	st.SetExhaustive()
}
