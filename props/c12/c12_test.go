// C12 — aspect-preserving viewBox placement fits or fills and honours alignment.
package c12

import (
	"encoding/binary"
	"fmt"
	"math"
	"testing"

	"github.com/reactivego/ivg"
	"pgregory.net/rapid"

	"verif/internal/harness"
	"verif/internal/ops"
)

func TestMain(m *testing.M) { harness.Main(m, "C12") }

type Case struct {
	VB    [4]ops.F32 `json:"viewbox"`
	DX    ops.F32    `json:"dx"`
	DY    ops.F32    `json:"dy"`
	AX    ops.F32    `json:"ax"`
	AY    ops.F32    `json:"ay"`
	Slice bool       `json:"slice"`
}

const eps32 = 1.0 / (1 << 23)

// checkFit is the oracle: the float64 reference rectangle built directly from
// the statement (see DESIGN §C12).
func checkFit(c Case) error {
	vb := ivg.ViewBox{MinX: float32(c.VB[0]), MinY: float32(c.VB[1]), MaxX: float32(c.VB[2]), MaxY: float32(c.VB[3])}
	dx, dy, ax, ay := float32(c.DX), float32(c.DY), float32(c.AX), float32(c.AY)
	var x0, y0, x1, y1 float32
	if c.Slice {
		x0, y0, x1, y1 = vb.AspectSlice(dx, dy, ax, ay)
	} else {
		x0, y0, x1, y1 = vb.AspectMeet(dx, dy, ax, ay)
	}
	// Size is max minus min in each dimension, exactly.
	sx, sy := vb.Size()
	if sx != vb.MaxX-vb.MinX || sy != vb.MaxY-vb.MinY {
		return harness.Violatef("c12/size", "Size() = (%v,%v), want (%v,%v)", sx, sy, vb.MaxX-vb.MinX, vb.MaxY-vb.MinY)
	}
	// The viewBox size as the code's callers see it (float32 subtraction is
	// part of Size's contract); everything after that in float64.
	vw, vh := float64(sx), float64(sy)
	tx, ty := float64(dx), float64(dy)
	s := math.Min(tx/vw, ty/vh)
	if c.Slice {
		s = math.Max(tx/vw, ty/vh)
	}
	w, h := vw*s, vh*s
	ex0 := (tx - w) * float64(ax)
	ey0 := (ty - h) * float64(ay)
	ex1, ey1 := ex0+w, ey0+h
	// a result beyond the float32 range (or down among the subnormals) cannot
	// be returned at all: outside "finite positive sizes", no verdict
	if m := math.Max(math.Max(math.Abs(ex0), math.Abs(ey0)), math.Max(math.Abs(ex1), math.Abs(ey1))); m > 3.3e38 || math.Max(w, h) > 3.3e38 || math.Max(w, h) < 1e-36 {
		outOfRange++
		return nil
	}
	scale := math.Max(math.Max(tx, ty), math.Max(w, h))
	tol := 32 * eps32 * scale
	chk := func(name string, got float32, want float64) error {
		if math.IsNaN(float64(got)) || math.Abs(float64(got)-want) > tol {
			return harness.Violatef("c12/rect", "%s = %v, reference %v (tolerance %g; reference rect %v %v %v %v, got %v %v %v %v)",
				name, got, want, tol, ex0, ey0, ex1, ey1, x0, y0, x1, y1)
		}
		return nil
	}
	for _, e := range []error{chk("MinX", x0, ex0), chk("MinY", y0, ey0), chk("MaxX", x1, ex1), chk("MaxY", y1, ey1)} {
		if e != nil {
			return e
		}
	}
	// Direct restatement of the claims on the returned rectangle (redundant
	// with the reference, kept as an independent formulation).
	gw, gh := float64(x1)-float64(x0), float64(y1)-float64(y0)
	if !c.Slice {
		if gw > tx+tol || gh > ty+tol {
			return harness.Violatef("c12/meet-within", "meet result %vx%v exceeds target %vx%v", gw, gh, tx, ty)
		}
	} else {
		if gw < tx-tol || gh < ty-tol {
			return harness.Violatef("c12/slice-covers", "slice result %vx%v does not cover target %vx%v", gw, gh, tx, ty)
		}
	}
	if math.Abs(gw-tx) > tol && math.Abs(gh-ty) > tol {
		return harness.Violatef("c12/one-dimension", "result %vx%v equals the target %vx%v in neither dimension", gw, gh, tx, ty)
	}
	return nil
}

var outOfRange int64

var subFit = harness.Define("fit", "viewBox (finite positive size) x target size over 12 decades x alignment in {0,.5,1} or uniform [0,1] x meet/slice; non-trivial = viewBox and target aspect ratios differ by more than 1% (otherwise meet = slice = target)", checkFit)

func genPos(t *rapid.T, name string) float32 {
	switch rapid.IntRange(0, 3).Draw(t, name+"class") {
	case 0:
		return float32(rapid.IntRange(1, 600).Draw(t, name))
	case 1:
		e := rapid.Float64Range(-6, 6).Draw(t, name+"exp")
		return float32(math.Pow(10, e))
	case 2:
		return float32(rapid.IntRange(1, 64*256).Draw(t, name)) / 64
	default:
		return rapid.Float32Range(1e-3, 1e4).Draw(t, name)
	}
}

func genAlign(t *rapid.T, name string) float32 {
	if rapid.Bool().Draw(t, name+"std") {
		return rapid.SampledFrom([]float32{ivg.Min, ivg.Mid, ivg.Max}).Draw(t, name)
	}
	return rapid.Float32Range(0, 1).Draw(t, name)
}

func genCase(t *rapid.T) Case {
	w, h := genPos(t, "vw"), genPos(t, "vh")
	dx, dy := genPos(t, "dx"), genPos(t, "dy")
	if rapid.IntRange(0, 9).Draw(t, "perdim") == 0 {
		// each of the four sizes of a magnitude of its own (a needle-shaped viewBox in a target
		// that is a needle the other way): 24 decades per size
		e := func(l string) float32 { return float32(math.Pow(10, rapid.Float64Range(-12, 12).Draw(t, l))) }
		w, h, dx, dy = e("pd.w"), e("pd.h"), e("pd.dx"), e("pd.dy")
		if rapid.Bool().Draw(t, "pd.opposite") {
			k := e("pd.k")
			w, h, dx, dy = 1/k, k, k*float32(rapid.Float64Range(0.5, 2).Draw(t, "pd.a")), 1/k
		}
	}
	if rapid.IntRange(0, 9).Draw(t, "whole") == 0 {
		// four whole numbers of about the same bit width (1..24 bits, all exact in
		// float32): pixel targets and integer viewBoxes whose products pass 2^16,
		// 2^24, 2^31, 2^32 and 2^48
		b := rapid.IntRange(1, 24).Draw(t, "whole.bits")
		lo, hi := 1<<(b-1), 1<<b-1
		if rapid.Bool().Draw(t, "whole.wide") && b > 2 {
			lo = 1 << (b - 3)
		}
		w, h = float32(rapid.IntRange(lo, hi).Draw(t, "whole.w")), float32(rapid.IntRange(lo, hi).Draw(t, "whole.h"))
		dx, dy = float32(rapid.IntRange(lo, hi).Draw(t, "whole.dx")), float32(rapid.IntRange(lo, hi).Draw(t, "whole.dy"))
	}
	if rapid.IntRange(0, 4).Draw(t, "sameaspect") == 0 {
		// a target of exactly the viewBox's proportions (an icon drawn at k times its size): the two
		// candidate scales tie up to rounding, whatever the ratio is (1:7 has no exact float32)
		if rapid.Bool().Draw(t, "sa.small") {
			w, h = float32(rapid.IntRange(1, 24).Draw(t, "sa.w")), float32(rapid.IntRange(1, 24).Draw(t, "sa.h"))
		}
		k := float32(rapid.IntRange(1, 64).Draw(t, "sa.k"))
		if rapid.IntRange(0, 3).Draw(t, "sa.frac") == 0 {
			k = float32(rapid.IntRange(1, 64*16).Draw(t, "sa.k16")) / 16
		}
		dx, dy = w*k, h*k
		if rapid.IntRange(0, 3).Draw(t, "sa.ulp") == 0 {
			// ... or one float32 step off them
			dx = math.Nextafter32(dx, float32(rapid.SampledFrom([]float64{0, math.Inf(1)}).Draw(t, "sa.dir")))
		}
	}
	// a common factor over the whole float32 range, applied to the viewBox or
	// the target or both: ratios stay as generated, magnitudes do not
	if rapid.IntRange(0, 2).Draw(t, "common") == 0 {
		k := float32(math.Pow(10, rapid.Float64Range(-25, 25).Draw(t, "commonexp")))
		switch rapid.IntRange(0, 3).Draw(t, "commonwhat") {
		case 3:
			// opposite ends of the range: the size ratio itself (up to 1e62) is beyond float32,
			// the result (of the target's magnitude) is not
			w, h, dx, dy = w*k, h*k, dx/k, dy/k
		case 0:
			w, h = w*k, h*k
		case 1:
			dx, dy = dx*k, dy*k
		default:
			w, h, dx, dy = w*k, h*k, dx*k, dy*k
		}
	}
	if rapid.IntRange(0, 9).Draw(t, "top") == 0 {
		// a target at the very top of the float32 range (finite all the same): the fitted
		// rectangle lies within it, sums of two extents do not
		k := rapid.Float64Range(0.3, 0.999).Draw(t, "top.k") * math.MaxFloat32 / math.Max(float64(dx), float64(dy))
		if nx, ny := float32(float64(dx)*k), float32(float64(dy)*k); nx > 0 && ny > 0 && !math.IsInf(float64(nx), 0) && !math.IsInf(float64(ny), 0) {
			dx, dy = nx, ny
		}
	}
	var minX, minY float32
	switch rapid.IntRange(0, 4).Draw(t, "origin") {
	case 3: // the box ends exactly at the origin, on both axes or on one
		minX, minY = -w, -h
	case 4:
		if rapid.Bool().Draw(t, "endsx") {
			minX, minY = -w, float32(rapid.IntRange(-100, 100).Draw(t, "miny"))
		} else {
			minX, minY = float32(rapid.IntRange(-100, 100).Draw(t, "minx")), -h
		}
	case 0:
		minX, minY = -w/2, -h/2
	case 1:
		minX, minY = 0, 0
	default:
		minX = float32(rapid.IntRange(-100, 100).Draw(t, "minx"))
		minY = float32(rapid.IntRange(-100, 100).Draw(t, "miny"))
	}
	maxX, maxY := minX+w, minY+h
	if !(maxX > minX) || !(maxY > minY) { // rounding swallowed the size; fall back to origin
		minX, minY, maxX, maxY = 0, 0, w, h
	}
	c := Case{
		VB: [4]ops.F32{ops.F32(minX), ops.F32(minY), ops.F32(maxX), ops.F32(maxY)},
		DX: ops.F32(dx), DY: ops.F32(dy),
		AX: ops.F32(genAlign(t, "ax")), AY: ops.F32(genAlign(t, "ay")),
		Slice: rapid.Bool().Draw(t, "slice"),
	}
	return c
}

func classify(c Case) (bool, uint64, []string) {
	vw := float64(float32(c.VB[2]) - float32(c.VB[0]))
	vh := float64(float32(c.VB[3]) - float32(c.VB[1]))
	ra, rb := vw/vh, float64(c.DX)/float64(c.DY)
	nontrivial := math.Abs(ra/rb-1) > 0.01
	var b [32]byte
	for i, f := range []ops.F32{c.VB[0], c.VB[1], c.VB[2], c.VB[3], c.DX, c.DY, c.AX, c.AY} {
		binary.LittleEndian.PutUint32(b[4*i:], math.Float32bits(float32(f)))
	}
	labels := []string{"meet"}
	if c.Slice {
		labels[0] = "slice"
	}
	if ra > rb {
		labels = append(labels, "viewbox-wider-than-target")
	} else {
		labels = append(labels, "viewbox-narrower-than-target")
	}
	if math.Abs(ra/rb-1) < 1e-6 {
		labels = append(labels, "target-of-the-viewbox's-proportions(+-1e-6)")
		if vw != vh {
			labels = append(labels, "same-proportions,non-square")
		}
	}
	if r := math.Abs(math.Log10(ra / rb)); r > 3 {
		labels = append(labels, "aspect-mismatch>1e3")
	}
	if whole := func(f float64) bool { return f == math.Floor(f) && f < 1<<24 }; whole(vw) && whole(vh) && whole(float64(c.DX)) && whole(float64(c.DY)) && float64(c.DX)*vh >= 1<<31 {
		labels = append(labels, "whole-number-sizes,cross-product>=2^31")
	}
	if math.Max(float64(c.DX), float64(c.DY)) > 1e38 {
		labels = append(labels, "target-extent-beyond-1e38")
	}
	if m := math.Abs(math.Log10(float64(c.DX) * vw)); m > 19 {
		labels = append(labels, "target-times-viewbox-beyond-1e+-19")
	}
	sl := byte(0)
	if c.Slice {
		sl = 1
	}
	return nontrivial, harness.Hash(b[:], []byte{sl}), labels
}

func TestFitRandom(t *testing.T) {
	harness.Rapid(t, harness.N(200000, 16*8000000), func(t *rapid.T) {
		c := genCase(t)
		nt, h, labels := classify(c)
		subFit.See(c, nt, h, labels...)
		subFit.Run(t, c)
	})
	subFit.Label("no-verdict:result-outside-float32-range", outOfRange)
}

// Boundary table: the documented constants and a few exact configurations.
func TestFitTable(t *testing.T) {
	harness.OnlyFirstShard(t)
	st := harness.Counter("table", "hand-written exact configurations (square in wide/tall targets, default viewBox, alignment 0/.5/1)")
	n := 0
	for _, vb := range [][4]float32{{-32, -32, 32, 32}, {0, 0, 24, 24}, {0, 0, 48, 24}, {-24, -24, 24, 24}, {0, 0, 1, 3}, {-8, 4, 100, 5}} {
		for _, d := range [][2]float32{{100, 50}, {50, 100}, {64, 64}, {1, 1000}, {1000, 1}, {3, 7}} {
			for _, a := range []float32{0, 0.5, 1} {
				for _, b := range []float32{0, 0.5, 1} {
					for _, sl := range []bool{false, true} {
						c := Case{VB: [4]ops.F32{ops.F32(vb[0]), ops.F32(vb[1]), ops.F32(vb[2]), ops.F32(vb[3])},
							DX: ops.F32(d[0]), DY: ops.F32(d[1]), AX: ops.F32(a), AY: ops.F32(b), Slice: sl}
						n++
						if err := subFit.Eval(c); err != nil {
							t.Fatal(err)
						}
					}
				}
			}
		}
	}
	// exact expectations for the canonical example: 64x64 viewBox in 100x50.
	x0, y0, x1, y1 := ivg.DefaultViewBox.AspectMeet(100, 50, ivg.Mid, ivg.Mid)
	if [4]float32{x0, y0, x1, y1} != [4]float32{25, 0, 75, 50} {
		subFit.Run(t, Case{}) // unreachable in practice; the reference above decides
		t.Fatalf("AspectMeet canonical example = %v", fmt.Sprint(x0, y0, x1, y1))
	}
	st.AddEnumerated(int64(n), int64(n))
	st.SetExhaustive()
}
