// C06 — elliptical arcs end where they should and follow the requested ellipse.
package c06

import (
	"fmt"
	"image"
	"image/color"
	"math"
	"testing"

	"github.com/reactivego/ivg"
	"github.com/reactivego/ivg/decode"
	"github.com/reactivego/ivg/render"
	"pgregory.net/rapid"

	"verif/internal/gen"
	"verif/internal/harness"
	"verif/internal/ops"
	"verif/internal/rast"
	"verif/internal/spec"
)

func TestMain(m *testing.M) { harness.Main(m, "C06") }

// Expect describes the ellipse arc the operation must follow.
type Expect struct {
	CX, CY float64 // centre, viewBox space
	RX, RY float64 // effective radii (after SVG scale-up)
	Phi    float64 // x-axis rotation in radians
	Theta1 float64
	Delta  float64
}

type Case struct {
	ViewBox  [4]ops.F32 `json:"viewbox"`
	Rect     [4]int     `json:"rect"`
	Start    [2]ops.F32 `json:"start"`
	Rel      bool       `json:"relative"`
	RX, RY   ops.F32
	Rot      ops.F32 `json:"rotation_turns"`
	LargeArc bool    `json:"largeArc"`
	Sweep    bool    `json:"sweep"`
	// To: the operand pair given to the op (absolute endpoint, or offset when Rel).
	To     [2]ops.F32 `json:"to"`
	Family string     `json:"family"`
	// Earlier: the same Renderer first drew the same arc with the viewBox and
	// all coordinates moved by this many whole units (the same picture in
	// pixel space, another coordinate system).
	Earlier [2]int `json:"earlier_shift,omitempty"`
	// EarlierHidden (with Earlier): the earlier use also had a relative arc in a path that was not
	// drawn at all (transparent paint).
	EarlierHidden bool `json:"earlier_hidden,omitempty"`
	// EarlierSize (with Earlier): the earlier use drew into a rectangle of this size (one side
	// may equal the case's), so the Renderer was re-targeted in between.
	EarlierSize [2]int `json:"earlier_size,omitempty"`
	// Idle (with Earlier): between the earlier arc and this one the Renderer is Reset and
	// re-targeted this many times in all (graphics without arcs, other cells of a sheet).
	Idle int `json:"idle,omitempty"`
	// Prelude: the graphic has an earlier path with an arc of another rotation and a zero-radius arc
	// of this rotation.
	Prelude bool `json:"prelude,omitempty"`
	// PreludeRel (with Prelude): that zero-radius arc is in the relative form.
	PreludeRel bool `json:"prelude_rel,omitempty"`
	// PixelCircle: the radii are in exactly the inverse ratio of the two pixel scales.
	PixelCircle bool `json:"pixel_circle,omitempty"`
	// ViaBytes: the arc reaches the Renderer through decode.Decode, from a hand-assembled stream
	// whose numbers are all in the 4-byte form (every value of the case is a 30-bit float then;
	// rotations outside [0,1] are legal in a file).
	ViaBytes bool    `json:"via_bytes,omitempty"`
	// FlagsHigh (with ViaBytes): bits 2 and up of the file's flags number (ignored by the format).
	FlagsHigh uint32 `json:"flags_high,omitempty"`
	// Lead: the path starts here and reaches Start by a line, so the arc is not the first segment
	// of its sub-path (the point may lie a fraction of a pixel from where the arc ends: a shape
	// that an arc nearly, but not exactly, closes).
	Lead *[2]ops.F32 `json:"lead,omitempty"`
	Want     *Expect `json:"want,omitempty"` // constructive expectation; nil => independent F.6.5
}

// trunc30 clears the two mantissa bits the 4-byte number form does not store.
func trunc30(v ops.F32) ops.F32 {
	return ops.F32(math.Float32frombits(math.Float32bits(float32(v)) &^ 3))
}

// arcStream spells the case as an IconVG file: viewBox chunk, start path, one arc, end path,
// every number in the 4-byte form.
func arcStream(c Case) []byte {
	num := func(v ops.F32) []byte { return spec.EncodeNaturalW(math.Float32bits(float32(v))>>2, 4) }
	b := append([]byte{}, spec.Magic...)
	b = append(b, 0x02, 17<<1, 0x00)
	for _, v := range c.ViewBox {
		b = append(b, num(v)...)
	}
	b = append(b, 0xc0)
	b = append(b, num(c.Start[0])...)
	b = append(b, num(c.Start[1])...)
	op := byte(0xc0)
	if c.Rel {
		op = 0xd0
	}
	flags := byte(0)
	if c.LargeArc {
		flags |= 1
	}
	if c.Sweep {
		flags |= 2
	}
	b = append(b, op)
	b = append(b, num(c.RX)...)
	b = append(b, num(c.RY)...)
	b = append(b, num(c.Rot)...)
	if hb := c.FlagsHigh; hb != 0 {
		// only the two low bits of the flags number mean anything
		b = append(b, spec.EncodeNaturalW(uint32(flags)|hb<<2, 4)...)
	} else {
		b = append(b, flags<<1)
	}
	b = append(b, num(c.To[0])...)
	b = append(b, num(c.To[1])...)
	return append(b, 0xe1)
}

// svgCenter is SVG 1.1 implementation note F.6.5 with the F.6.6 radii
// correction, in float64, written from the SVG specification.
func svgCenter(x1, y1, x2, y2 float64, fa, fs bool, rx, ry, phi float64) (e Expect, radiiCheck float64) {
	rx, ry = math.Abs(rx), math.Abs(ry)
	c, s := math.Cos(phi), math.Sin(phi)
	dx, dy := (x1-x2)/2, (y1-y2)/2
	x1p := c*dx + s*dy
	y1p := -s*dx + c*dy
	lambda := x1p*x1p/(rx*rx) + y1p*y1p/(ry*ry)
	radiiCheck = lambda
	if lambda > 1 {
		k := math.Sqrt(lambda)
		rx, ry = rx*k, ry*k
	}
	num := rx*rx*ry*ry - rx*rx*y1p*y1p - ry*ry*x1p*x1p
	den := rx*rx*y1p*y1p + ry*ry*x1p*x1p
	co := 0.0
	if num > 0 && den > 0 {
		co = math.Sqrt(num / den)
	}
	if fa == fs {
		co = -co
	}
	cxp := co * rx * y1p / ry
	cyp := -co * ry * x1p / rx
	cx := c*cxp - s*cyp + (x1+x2)/2
	cy := s*cxp + c*cyp + (y1+y2)/2
	ang := func(ux, uy, vx, vy float64) float64 {
		a := math.Atan2(ux*vy-uy*vx, ux*vx+uy*vy)
		return a
	}
	ux, uy := (x1p-cxp)/rx, (y1p-cyp)/ry
	vx, vy := (-x1p-cxp)/rx, (-y1p-cyp)/ry
	th1 := ang(1, 0, ux, uy)
	d := ang(ux, uy, vx, vy)
	if !fs && d > 0 {
		d -= 2 * math.Pi
	} else if fs && d < 0 {
		d += 2 * math.Pi
	}
	return Expect{CX: cx, CY: cy, RX: rx, RY: ry, Phi: phi, Theta1: th1, Delta: d}, radiiCheck
}

func checkArc(c Case) error {
	vb := [4]float32{float32(c.ViewBox[0]), float32(c.ViewBox[1]), float32(c.ViewBox[2]), float32(c.ViewBox[3])}
	rect := image.Rect(c.Rect[0], c.Rect[1], c.Rect[0]+c.Rect[2], c.Rect[1]+c.Rect[3])
	sx := float64(c.Rect[2]) / (float64(vb[2]) - float64(vb[0]))
	sy := float64(c.Rect[3]) / (float64(vb[3]) - float64(vb[1]))
	toPx := func(x, y float64) (float64, float64) { return (x - float64(vb[0])) * sx, (y - float64(vb[1])) * sy }
	toVB := func(px, py float64) (float64, float64) { return px/sx + float64(vb[0]), py/sy + float64(vb[1]) }

	rr := &rast.Recorder{NoLattice: true}
	var z render.Renderer
	var earlierEnd [2]float32
	if c.Earlier != [2]int{} {
		// the same arc backwards, so that it ends where the case's arc starts
		dx, dy := float32(c.Earlier[0]), float32(c.Earlier[1])
		ex, ey := float32(c.To[0]), float32(c.To[1])
		if c.Rel {
			ex, ey = float32(c.Start[0])+ex, float32(c.Start[1])+ey
		}
		if c.EarlierSize != [2]int{} {
			z.SetRasterizer(rr, image.Rect(c.Rect[0], c.Rect[1], c.Rect[0]+c.EarlierSize[0], c.Rect[1]+c.EarlierSize[1]))
		} else {
			z.SetRasterizer(rr, rect)
		}
		z.Reset(gen.VB([4]float32{vb[0] + dx, vb[1] + dy, vb[2] + dx, vb[3] + dy}), ivg.DefaultPalette)
		if c.EarlierHidden {
			// ... in a path that is not drawn (transparent paint), and in the relative form
			z.SetCReg(0, false, ivg.RGBAColor(color.RGBA{}))
			z.StartPath(0, ex+dx, ey+dy)
			z.RelArcTo(float32(c.RX), float32(c.RY), float32(c.Rot), c.LargeArc, !c.Sweep, float32(c.Start[0])-ex, float32(c.Start[1])-ey)
			z.RelLineTo(1, 1)
			z.ClosePathEndPath()
		}
		z.StartPath(0, ex+dx, ey+dy)
		z.AbsArcTo(float32(c.RX), float32(c.RY), float32(c.Rot), c.LargeArc, !c.Sweep, float32(c.Start[0])+dx, float32(c.Start[1])+dy)
		if n := len(rr.Calls); n > 0 && rr.Calls[n-1].K == rast.CubeTo {
			earlierEnd = [2]float32{rr.Calls[n-1].F[4], rr.Calls[n-1].F[5]}
		}
		z.ClosePathEndPath()
		for i := 0; i < c.Idle; i++ {
			if i%2 == 0 {
				z.Reset(ivg.ViewBox{MinX: 0, MinY: 0, MaxX: float32(24 + i%5), MaxY: 24}, ivg.DefaultPalette)
			} else {
				z.SetRasterizer(rr, image.Rect(0, 0, 10+i%7, 12))
			}
		}
		rr.Calls = rr.Calls[:0]
	}
	z.SetRasterizer(rr, rect)
	kind := ops.AbsArcTo
	if c.Rel {
		kind = ops.RelArcTo
	}
	if c.ViaBytes {
		if err := decode.Decode(&z, arcStream(c)); err != nil {
			return harness.Violatef("c06/decode-error", "Decode of the assembled one-arc graphic: %v", err)
		}
	} else {
		z.Reset(gen.VB(vb), ivg.DefaultPalette)
		if c.Prelude {
			// an earlier path of the same graphic: an arc on another ellipse with another rotation,
			// then a zero-radius arc that carries this case's rotation
			sx, sy := float32(c.Start[0]), float32(c.Start[1])
			z.StartPath(0, sx+1, sy+1)
			z.AbsArcTo(float32(math.Abs(float64(c.RX)))+1, float32(math.Abs(float64(c.RY)))+2.5, float32(c.Rot)+0.13, false, true, sx+3, sy+2)
			if c.PreludeRel {
				z.RelArcTo(0, 5, float32(c.Rot), false, true, 1, 2)
				z.AbsLineTo(sx-2, sy+3)
			} else {
				z.AbsArcTo(0, 5, float32(c.Rot), false, true, sx+4, sy+4)
			}
			z.ClosePathEndPath()
			rr.Calls = rr.Calls[:0]
		}
		if c.Lead != nil {
			z.StartPath(0, float32(c.Lead[0]), float32(c.Lead[1]))
			z.AbsLineTo(float32(c.Start[0]), float32(c.Start[1]))
		} else {
			z.StartPath(0, float32(c.Start[0]), float32(c.Start[1]))
		}
		if n := len(rr.Calls); c.Earlier != [2]int{} && n > 0 && rr.Calls[n-1].K == rast.MoveTo && rr.Calls[n-1].F[0] == earlierEnd[0] && rr.Calls[n-1].F[1] == earlierEnd[1] {
			earlierCoincides++
		}
		if c.Rel {
			z.RelArcTo(float32(c.RX), float32(c.RY), float32(c.Rot), c.LargeArc, c.Sweep, float32(c.To[0]), float32(c.To[1]))
		} else {
			z.AbsArcTo(float32(c.RX), float32(c.RY), float32(c.Rot), c.LargeArc, c.Sweep, float32(c.To[0]), float32(c.To[1]))
		}
		z.ClosePathEndPath()
	}
	calls := rr.Calls
	if len(calls) < 4 || calls[0].K != rast.Reset || calls[1].K != rast.MoveTo || calls[len(calls)-2].K != rast.ClosePath || calls[len(calls)-1].K != rast.Draw {
		return harness.Violatef("c06/call-sequence", "unexpected rasteriser log around the arc: %v", calls)
	}
	arc := calls[2 : len(calls)-2]
	if c.Lead != nil && !c.ViaBytes {
		if len(calls) < 5 || calls[2].K != rast.LineTo {
			return harness.Violatef("c06/call-sequence", "unexpected rasteriser log around the arc (line, then arc): %v", calls)
		}
		arc = calls[3 : len(calls)-2]
	}

	// the endpoint in viewBox space
	x1, y1 := float64(c.Start[0]), float64(c.Start[1])
	x2, y2 := float64(c.To[0]), float64(c.To[1])
	if c.Rel {
		x2, y2 = x1+x2, y1+y2
	}
	ex, ey := toPx(x2, y2)
	startPx, startPy := toPx(x1, y1)
	coordMag := math.Max(math.Max(math.Abs(ex), math.Abs(ey)), math.Max(math.Abs(startPx), math.Abs(startPy))) + 1
	// the map computes scale*(x - Min) in float32: when x is close to Min the
	// rounding error is relative to |x| + |Min|, not to the (small) result
	coordMag += math.Max((math.Max(math.Abs(x1), math.Abs(x2))+math.Abs(float64(vb[0])))*sx, (math.Max(math.Abs(y1), math.Abs(y2))+math.Abs(float64(vb[1])))*sy)

	rx, ry := math.Abs(float64(c.RX)), math.Abs(float64(c.RY))
	if !(rx > 0 && ry > 0) {
		// "An arc with a zero radius is a straight line to the mapped endpoint."
		if len(arc) != 1 || arc[0].K != rast.LineTo {
			return harness.Violatef("c06/zero-radius", "%v with a zero radius produced %v, expected exactly one LineTo", kind, arc)
		}
		tol := 64 * (1.0 / (1 << 23)) * coordMag
		if math.Abs(float64(arc[0].F[0])-ex) > tol || math.Abs(float64(arc[0].F[1])-ey) > tol {
			return harness.Violatef("c06/zero-radius-endpoint", "%v with a zero radius draws a line to pixel (%v,%v); the endpoint (%v,%v) maps to (%v,%v)", kind, arc[0].F[0], arc[0].F[1], x2, y2, ex, ey)
		}
		return nil
	}

	var w Expect
	if c.Want != nil {
		w = *c.Want
	} else {
		w, _ = svgCenter(x1, y1, x2, y2, c.LargeArc, c.Sweep, rx, ry, 2*math.Pi*float64(c.Rot))
	}
	// "distinct start/end points": the Renderer knows the start only as the float32 pen, whose
	// resolution in viewBox units is about eps32*(|x|+|Min|). End points closer than a few such
	// steps in both directions are not distinct for any implementation working from the pen
	// (SVG: identical end points omit the arc): no verdict.
	{
		resX := (1.0 / (1 << 23)) * (math.Abs(x1) + math.Abs(float64(vb[0])))
		resY := (1.0 / (1 << 23)) * (math.Abs(y1) + math.Abs(float64(vb[1])))
		if math.Abs(x2-x1) < 16*resX && math.Abs(y2-y1) < 16*resY {
			indistinct++
			return nil
		}
	}
	if len(arc) < 1 || len(arc) > 4 {
		return harness.Violatef("c06/segment-count", "%v emitted %d segments, expected 1..4 cubics", kind, len(arc))
	}
	// Conditioning. The Renderer only knows the pen as a float32 pixel
	// position; mapped back to viewBox space the start point carries an error
	// of about 2*eps32*(|x|+|Min|). Where the requested ellipse itself moves by
	// more than a fraction of the tolerance under such a perturbation (a short
	// chord near the end of a very eccentric ellipse, radii that barely span
	// the chord) no implementation working from the pen can be held to the
	// unperturbed ellipse: no verdict on the ellipse-following clauses, the
	// end point and the segment count are still checked.
	illConditioned := false
	{
		dx := 2 * (1.0 / (1 << 23)) * (math.Abs(x1) + math.Abs(float64(vb[0])))
		dy := 2 * (1.0 / (1 << 23)) * (math.Abs(y1) + math.Abs(float64(vb[1])))
		phi := 2 * math.Pi * float64(c.Rot)
		base, _ := svgCenter(x1, y1, x2, y2, c.LargeArc, c.Sweep, rx, ry, phi)
		for _, d := range [][2]float64{{dx, 0}, {-dx, 0}, {0, dy}, {0, -dy}} {
			e, _ := svgCenter(x1+d[0], y1+d[1], x2, y2, c.LargeArc, c.Sweep, rx, ry, phi)
			ddx, ddy := e.CX-base.CX, e.CY-base.CY
			u := (math.Cos(phi)*ddx + math.Sin(phi)*ddy) / base.RX
			v := (-math.Sin(phi)*ddx + math.Cos(phi)*ddy) / base.RY
			if math.Hypot(u, v) > 1.5e-4 || math.Abs(e.Delta-base.Delta) > 2e-4 || math.IsNaN(u+v) {
				illConditioned = true
			}
		}
	}
	for _, s := range arc {
		if s.K != rast.CubeTo {
			return harness.Violatef("c06/segment-kind", "%v emitted %v, expected cubic segments only", kind, s)
		}
	}
	sizePx := math.Max(w.RX*sx, w.RY*sy)
	last := arc[len(arc)-1]
	endTol := 1e-4*sizePx + 64*(1.0/(1<<23))*coordMag
	if math.Abs(float64(last.F[4])-ex) > endTol || math.Abs(float64(last.F[5])-ey) > endTol {
		return harness.Violatef("c06/endpoint", "%v ends at pixel (%v,%v); the endpoint maps to (%v,%v) (tolerance %g)", kind, last.F[4], last.F[5], ex, ey, endTol)
	}
	// first cubic starts at the pen
	if math.Abs(float64(arc[0].PenX)-startPx) > endTol || math.Abs(float64(arc[0].PenY)-startPy) > endTol {
		return harness.Violatef("c06/start", "arc starts at pen (%v,%v), expected (%v,%v)", arc[0].PenX, arc[0].PenY, startPx, startPy)
	}
	radTol, angTol, extTol := 1e-3, 0.02, 1e-3+64*(1.0/(1<<23))*coordMag/sizePx
	if illConditioned {
		// Radii that span the chord exactly (a half turn, lambda = 1 up to
		// rounding) are ill-conditioned only in the square-root sense: the
		// centre is the chord midpoint up to sqrt(rounding) of the radius. That
		// family is what circles drawn as two arcs use, so it is still checked,
		// against the half ellipse centred on the chord midpoint and with
		// correspondingly wider tolerances; everything else gets no verdict.
		_, lambda := svgCenter(x1, y1, x2, y2, c.LargeArc, c.Sweep, rx, ry, 2*math.Pi*float64(c.Rot))
		if math.Abs(lambda-1) > 1e-5 {
			illConditionedCount++
			illByFamily[c.Family]++
			return nil
		}
		k := math.Sqrt(math.Max(lambda, 1))
		phi := 2 * math.Pi * float64(c.Rot)
		w = Expect{CX: (x1 + x2) / 2, CY: (y1 + y2) / 2, RX: rx * k, RY: ry * k, Phi: phi, Delta: math.Pi}
		if !c.Sweep {
			w.Delta = -math.Pi
		}
		dx, dy := x1-w.CX, y1-w.CY
		w.Theta1 = math.Atan2((-math.Sin(phi)*dx+math.Cos(phi)*dy)/w.RY, (math.Cos(phi)*dx+math.Sin(phi)*dy)/w.RX)
		// the centre sits sqrt(|lambda-1|) of a radius off the chord midpoint, and the
		// implementation's lambda differs from ours by the pen's rounding relative to the radius
		pdx := 2 * (1.0 / (1 << 23)) * (math.Abs(x1) + math.Abs(float64(vb[0])))
		pdy := 2 * (1.0 / (1 << 23)) * (math.Abs(y1) + math.Abs(float64(vb[1])))
		el := math.Abs(lambda-1) + 2*(pdx+pdy)/math.Min(rx, ry)
		radTol, angTol, extTol = 1e-3+1.5*math.Sqrt(el), 0.03+3*math.Sqrt(el), 0.03+3*math.Sqrt(el)
		halfTurnExact++
	}
	// samples on the ellipse, parameter monotone from theta1 to theta1+delta
	cphi, sphi := math.Cos(w.Phi), math.Sin(w.Phi)
	prev := w.Theta1
	dir := 1.0
	if w.Delta < 0 {
		dir = -1
	}
	first := true
	for si, s := range arc {
		p := [4][2]float64{{float64(s.PenX), float64(s.PenY)}, {float64(s.F[0]), float64(s.F[1])}, {float64(s.F[2]), float64(s.F[3])}, {float64(s.F[4]), float64(s.F[5])}}
		for i := 0; i <= 8; i++ {
			t := float64(i) / 8
			mt := 1 - t
			bx := mt*mt*mt*p[0][0] + 3*mt*mt*t*p[1][0] + 3*mt*t*t*p[2][0] + t*t*t*p[3][0]
			by := mt*mt*mt*p[0][1] + 3*mt*mt*t*p[1][1] + 3*mt*t*t*p[2][1] + t*t*t*p[3][1]
			vx, vy := toVB(bx, by)
			dx, dy := vx-w.CX, vy-w.CY
			u := (cphi*dx + sphi*dy) / w.RX
			v := (-sphi*dx + cphi*dy) / w.RY
			r := math.Hypot(u, v)
			if math.IsNaN(r) || math.Abs(r-1) > radTol {
				return harness.Violatef("c06/off-ellipse", "segment %d, t=%.3f: point (%v,%v) is at normalised radius %v from the centre (%v,%v) of the requested ellipse (radii %v,%v), expected 1", si, t, vx, vy, r, w.CX, w.CY, w.RX, w.RY)
			}
			a := math.Atan2(v, u)
			// unwrap next to prev
			a += 2 * math.Pi * math.Round((prev-a)/(2*math.Pi))
			if first {
				if math.Abs(a-w.Theta1) > angTol {
					return harness.Violatef("c06/start-angle", "arc starts at ellipse parameter %v, expected %v", a, w.Theta1)
				}
				first = false
			} else if dir*(a-prev) < -1e-6 {
				return harness.Violatef("c06/direction", "segment %d, t=%.3f: ellipse parameter goes from %v to %v, against the sweep direction (delta %v)", si, t, prev, a, w.Delta)
			}
			prev = a
		}
	}
	if math.Abs(prev-(w.Theta1+w.Delta)) > extTol {
		return harness.Violatef("c06/extent", "arc sweeps from %v to %v (extent %v), expected extent %v (largeArc=%v sweep=%v)", w.Theta1, prev, prev-w.Theta1, w.Delta, c.LargeArc, c.Sweep)
	}
	return nil
}

var illConditionedCount, halfTurnExact, earlierCoincides, indistinct int64
var illByFamily = map[string]int64{}

var subArc = harness.Define("arc", "elliptical-arc operations (constructive: centre, radii 0.5-60, rotation, theta1, delta => endpoints and flags; undersized radii with delta=+-pi; exact half turns; nearly closed ellipses (delta within 1e-1..3e-5 of a full turn); zero/negative radii; on a fresh Renderer or on one that just drew the reverse arc in a shifted viewBox, ending on the same pixel; direct random checked against an independent F.6.5) in absolute and relative form under any viewBox->rectangle map: <= 4 cubics, start at pen, end at mapped endpoint, 9 samples per cubic on the ellipse (1e-3), parameter monotone in the sweep direction with the right extent, zero radius => one LineTo to the mapped endpoint; non-trivial = rotated non-circular ellipse under a non-uniform or off-origin map, or scale-up, or zero radius", checkArc)

func genMap(t *rapid.T, c *Case) {
	vb := [4]float32{-32, -32, 32, 32}
	switch rapid.IntRange(0, 3).Draw(t, "vbclass") {
	case 1:
		vb = [4]float32{0, 0, float32(rapid.IntRange(10, 200).Draw(t, "vw")), float32(rapid.IntRange(10, 200).Draw(t, "vh"))}
	case 2:
		x, y := float32(rapid.IntRange(-100, 100).Draw(t, "vx")), float32(rapid.IntRange(-100, 100).Draw(t, "vy"))
		vb = [4]float32{x, y, x + float32(rapid.IntRange(8, 300).Draw(t, "vw")), y + float32(rapid.IntRange(8, 300).Draw(t, "vh"))}
	case 3:
		vb = [4]float32{-24, -24, 24, 24}
	}
	for i, v := range vb {
		c.ViewBox[i] = ops.F32(v)
	}
	c.Rect = [4]int{rapid.IntRange(-20, 50).Draw(t, "rx0"), rapid.IntRange(-20, 50).Draw(t, "ry0"), rapid.IntRange(8, 600).Draw(t, "rw"), rapid.IntRange(8, 600).Draw(t, "rh")}
}

func genRot(t *rapid.T) float64 {
	if rapid.IntRange(0, 11).Draw(t, "rotmany") == 0 {
		// many whole turns plus a fraction (an angle accumulated by an animation, say)
		return float64(float32(float64(rapid.IntRange(-60000, 60000).Draw(t, "turns")) + float64(rapid.IntRange(0, 63).Draw(t, "rot64"))/64))
	}
	if rapid.Bool().Draw(t, "rotgrid") {
		return float64(rapid.IntRange(0, 119).Draw(t, "rot120")) / 120
	}
	return rapid.Float64Range(-1, 2).Draw(t, "rot")
}

func genConstructive(t *rapid.T) Case {
	var c Case
	genMap(t, &c)
	cx := rapid.Float64Range(-100, 100).Draw(t, "cx")
	cy := rapid.Float64Range(-100, 100).Draw(t, "cy")
	rx := rapid.Float64Range(0.5, 60).Draw(t, "rx")
	ry := rapid.Float64Range(0.5, 60).Draw(t, "ry")
	if rapid.IntRange(0, 5).Draw(t, "circle") == 0 {
		ry = rx
	}
	pixelCircle := rapid.IntRange(0, 9).Draw(t, "pixelcircle") == 0
	if pixelCircle {
		// an ellipse that the non-uniform map turns into a circle of pixels (radii in exactly the
		// inverse ratio of the two scales): an ellipse all the same, rotation included
		pw := func(l string) int { return 16 << uint(rapid.IntRange(0, 4).Draw(t, l)) }
		vw, vh, rw, rh := pw("pc.vw"), pw("pc.vh"), pw("pc.rw"), pw("pc.rh")
		x0, y0 := float32(rapid.IntRange(-40, 40).Draw(t, "pc.x0")), float32(rapid.IntRange(-40, 40).Draw(t, "pc.y0"))
		c.ViewBox = [4]ops.F32{ops.F32(x0), ops.F32(y0), ops.F32(x0 + float32(vw)), ops.F32(y0 + float32(vh))}
		c.Rect[2], c.Rect[3] = rw, rh
		rx = math.Round(rx*4) / 4
		ry = rx * (float64(rw) / float64(vw)) / (float64(rh) / float64(vh))
		if ry < 0.25 || ry > 240 {
			ry = rx
		}
	}
	rot := float64(float32(genRot(t)))
	phi := 2 * math.Pi * rot
	th1 := rapid.Float64Range(0, 2*math.Pi).Draw(t, "theta1")
	family := rapid.SampledFrom([]string{"fits", "fits", "fits", "undersized", "exact-fit", "near-full", "shallow", "barely-undersized"}).Draw(t, "family")
	if family == "exact-fit" {
		// radii that span the chord exactly (a half turn; what a circle drawn as
		// two arcs uses): values on a coarse grid so that the fit is exact or
		// off by one rounding either way
		cx, cy = math.Round(cx), math.Round(cy)
		rx, ry = math.Round(rx*4)/4+0.25, math.Round(ry*4)/4+0.25
		if rapid.Bool().Draw(t, "xcircle") {
			ry = rx
		}
		rot = float64(rapid.IntRange(0, 63).Draw(t, "xrot")) / 64
		phi = 2 * math.Pi * rot
		th1 = float64(rapid.IntRange(0, 31).Draw(t, "xth1")) * math.Pi / 16
	}
	var delta float64
	k := 1.0
	if family == "fits" {
		for {
			delta = rapid.Float64Range(0.1, 2*math.Pi-0.1).Draw(t, "delta")
			if math.Abs(delta-math.Pi) > 0.05 {
				break
			}
			delta = 2.0
			break
		}
	} else if family == "exact-fit" {
		delta = math.Pi
	} else if family == "barely-undersized" {
		// radii a hair too small to span the end points (0.1% down to a few float32 steps): SVG
		// scales them up all the same, and the arc still ends on the end point
		delta = math.Pi
		k = 1 - math.Pow(10, -rapid.Float64Range(3.05, 6.5).Draw(t, "hair"))
	} else if family == "shallow" {
		// a very flat arc: a radius hundreds to thousands of times the chord
		delta = math.Pow(10, -rapid.Float64Range(1.5, 4).Draw(t, "flat"))
	} else if family == "near-full" {
		// almost the whole ellipse: the end point nearly closes it (a full circle drawn as one arc)
		delta = 2*math.Pi - math.Pow(10, -rapid.Float64Range(1, 4.5).Draw(t, "gap"))
	} else {
		delta = math.Pi
		k = rapid.Float64Range(0.05, 0.95).Draw(t, "shrink")
		if rapid.IntRange(0, 3).Draw(t, "tiny") == 0 {
			// radii that are next to nothing beside the chord (but not zero): scaled up all the same
			k = math.Pow(10, -rapid.Float64Range(3, 7).Draw(t, "tinyexp"))
		}
	}
	if rapid.Bool().Draw(t, "neg") {
		delta = -delta
	}
	pt := func(th float64) (float64, float64) {
		ex, ey := rx*math.Cos(th), ry*math.Sin(th)
		return cx + math.Cos(phi)*ex - math.Sin(phi)*ey, cy + math.Sin(phi)*ex + math.Cos(phi)*ey
	}
	sxv, syv := pt(th1)
	exv, eyv := pt(th1 + delta)
	c.Start = [2]ops.F32{ops.F32(float32(sxv)), ops.F32(float32(syv))}
	c.Rel = rapid.Bool().Draw(t, "rel")
	if c.Rel {
		c.To = [2]ops.F32{ops.F32(float32(exv - float64(c.Start[0]))), ops.F32(float32(eyv - float64(c.Start[1])))}
	} else {
		c.To = [2]ops.F32{ops.F32(float32(exv)), ops.F32(float32(eyv))}
	}
	c.RX, c.RY = ops.F32(float32(rx*k)), ops.F32(float32(ry*k))
	if rapid.IntRange(0, 7).Draw(t, "negr") == 0 {
		c.RX = -c.RX // the sign of a radius is ignored
	}
	c.Rot = ops.F32(float32(rot))
	c.PixelCircle = pixelCircle && rx != ry
	c.LargeArc = math.Abs(delta) > math.Pi
	if family == "undersized" || family == "exact-fit" || family == "barely-undersized" {
		c.LargeArc = rapid.Bool().Draw(t, "la") // irrelevant for a half ellipse
	}
	c.Sweep = delta > 0
	c.Family = family
	// The expectation is re-derived from the float32 values actually passed
	// (rounding the end points moves the ellipse slightly): use the
	// constructed direction/extent but the F.6.5 centre of the rounded data.
	x1, y1 := float64(c.Start[0]), float64(c.Start[1])
	x2, y2 := float64(c.To[0]), float64(c.To[1])
	if c.Rel {
		x2, y2 = x1+x2, y1+y2
	}
	e, _ := svgCenter(x1, y1, x2, y2, c.LargeArc, c.Sweep, math.Abs(float64(c.RX)), math.Abs(float64(c.RY)), 2*math.Pi*float64(c.Rot))
	// sanity of the construction: both derivations agree
	size := math.Max(rx, ry)
	if math.Hypot(e.CX-cx, e.CY-cy) < 1e-3*size+1e-4*(math.Abs(cx)+math.Abs(cy)) && math.Abs(e.Delta-delta) < 1e-3 {
		e.Delta = delta
		c.Want = &e
	} else if family == "fits" && math.Abs(math.Abs(delta)-math.Pi) > 0.2 {
		// the two derivations should agree away from the half-turn singularity
		c.Family = "construction-mismatch"
	}
	return c
}

func genDirect(t *rapid.T) Case {
	var c Case
	genMap(t, &c)
	for tries := 0; ; tries++ {
		c.Start = [2]ops.F32{ops.F32(gen.Moderate(t, "sx", 100)), ops.F32(gen.Moderate(t, "sy", 100))}
		c.Rel = rapid.Bool().Draw(t, "rel")
		c.To = [2]ops.F32{ops.F32(gen.Moderate(t, "tx", 60)), ops.F32(gen.Moderate(t, "ty", 60))}
		c.RX = ops.F32(float32(rapid.Float64Range(0.5, 60).Draw(t, "rx")))
		c.RY = ops.F32(float32(rapid.Float64Range(0.5, 60).Draw(t, "ry")))
		c.Rot = ops.F32(float32(genRot(t)))
		c.LargeArc, c.Sweep = rapid.Bool().Draw(t, "la"), rapid.Bool().Draw(t, "sw")
		x1, y1 := float64(c.Start[0]), float64(c.Start[1])
		x2, y2 := float64(c.To[0]), float64(c.To[1])
		if c.Rel {
			x2, y2 = x1+x2, y1+y2
		}
		_, lambda := svgCenter(x1, y1, x2, y2, c.LargeArc, c.Sweep, float64(c.RX), float64(c.RY), 2*math.Pi*float64(c.Rot))
		chord := math.Hypot(x1-x2, y1-y2)
		// well-conditioned only: distinct end points, radii clearly too small or clearly large enough
		if chord > 0.5 && (lambda < 0.96 || lambda > 1.04) || tries > 20 {
			if tries > 20 {
				c.To = [2]ops.F32{c.Start[0] + 3, c.Start[1] + 1}
				c.Rel = false
				c.RX, c.RY = 10, 20
			}
			c.Family = "direct-fits"
			if lambda > 1 {
				c.Family = "direct-scale-up"
			}
			return c
		}
	}
}

func genZero(t *rapid.T) Case {
	var c Case
	genMap(t, &c)
	c.Start = [2]ops.F32{ops.F32(gen.Moderate(t, "sx", 100)), ops.F32(gen.Moderate(t, "sy", 100))}
	c.Rel = rapid.Bool().Draw(t, "rel")
	c.To = [2]ops.F32{ops.F32(gen.Moderate(t, "tx", 60)), ops.F32(gen.Moderate(t, "ty", 60))}
	r := ops.F32(float32(rapid.Float64Range(-30, 30).Draw(t, "r")))
	switch rapid.IntRange(0, 3).Draw(t, "which") {
	case 0:
		c.RX, c.RY = 0, r
	case 1:
		c.RX, c.RY = r, 0
	case 2:
		c.RX, c.RY = 0, 0
	default:
		c.RX, c.RY = ops.FromBits(0x80000000), r // negative zero
	}
	c.Rot = ops.F32(float32(genRot(t)))
	c.LargeArc, c.Sweep = rapid.Bool().Draw(t, "la"), rapid.Bool().Draw(t, "sw")
	c.Family = "zero-radius"
	return c
}

func classify(c Case) (bool, []string) {
	vb := c.ViewBox
	sx := float64(c.Rect[2]) / float64(vb[2]-vb[0])
	sy := float64(c.Rect[3]) / float64(vb[3]-vb[1])
	nonUniform := math.Abs(sx/sy-1) > 0.1
	offOrigin := vb[0] != 0 || vb[1] != 0
	rotated := math.Mod(math.Abs(float64(c.Rot))*4, 1) != 0
	nonCircular := math.Abs(float64(c.RX)) != math.Abs(float64(c.RY))
	labels := []string{"family=" + c.Family, fmt.Sprintf("largeArc=%v,sweep=%v", c.LargeArc, c.Sweep)}
	if c.Rel {
		labels = append(labels, "relative")
	}
	if c.Want != nil {
		labels = append(labels, "constructive-expectation")
	}
	nt := rotated && nonCircular && (nonUniform || offOrigin) || c.Family == "undersized" || c.Family == "exact-fit" || c.Family == "barely-undersized" || c.Family == "near-full" || c.Family == "shallow" || c.Family == "direct-scale-up" || c.Family == "zero-radius"
	return nt, labels
}

func TestArcs(t *testing.T) {
	harness.Rapid(t, harness.N(60000, 16*600000), func(t *rapid.T) {
		var c Case
		switch rapid.IntRange(0, 9).Draw(t, "engine") {
		case 0:
			c = genZero(t)
		case 1, 2, 3:
			c = genDirect(t)
		default:
			c = genConstructive(t)
		}
		if rapid.IntRange(0, 3).Draw(t, "earlier") == 0 {
			c.Earlier = [2]int{rapid.IntRange(-40, 40).Draw(t, "edx"), rapid.IntRange(-40, 40).Draw(t, "edy")}
			c.EarlierHidden = rapid.Bool().Draw(t, "ehidden")
			switch rapid.IntRange(0, 5).Draw(t, "esize") {
			case 0: // same width, another height
				c.EarlierSize = [2]int{c.Rect[2], rapid.IntRange(8, 600).Draw(t, "eh")}
			case 1: // same height, another width
				c.EarlierSize = [2]int{rapid.IntRange(8, 600).Draw(t, "ew"), c.Rect[3]}
			case 2:
				c.EarlierSize = [2]int{rapid.IntRange(8, 600).Draw(t, "ew"), rapid.IntRange(8, 600).Draw(t, "eh")}
			}
			switch rapid.IntRange(0, 5).Draw(t, "idle") {
			case 0:
				c.Idle = rapid.IntRange(1, 20).Draw(t, "idle.few")
			case 1: // around the counts an 8- or 9-bit counter wraps at (the case itself adds two)
				c.Idle = rapid.SampledFrom([]int{126, 254, 510}).Draw(t, "idle.wrap") + rapid.IntRange(-3, 3).Draw(t, "idle.d")
			}
		}
		if rapid.IntRange(0, 4).Draw(t, "viabytes") == 0 {
			c.ViaBytes = true
			for i := range c.ViewBox {
				c.ViewBox[i] = trunc30(c.ViewBox[i])
			}
			c.Start = [2]ops.F32{trunc30(c.Start[0]), trunc30(c.Start[1])}
			c.To = [2]ops.F32{trunc30(c.To[0]), trunc30(c.To[1])}
			c.RX, c.RY, c.Rot = trunc30(c.RX), trunc30(c.RY), trunc30(c.Rot)
			c.Want = nil // constructed for the values before truncation: the independent F.6.5 reference decides
			if rapid.Bool().Draw(t, "flagshigh") {
				c.FlagsHigh = uint32(rapid.SampledFrom([]int{1, 2, 3, 1 << 10, 1<<27 - 1}).Draw(t, "flagshighbits"))
			}
		}
		c.Prelude = rapid.IntRange(0, 4).Draw(t, "prelude") == 0
		c.PreludeRel = c.Prelude && rapid.Bool().Draw(t, "preluderel")
		leadNear := false
		if !c.ViaBytes && rapid.IntRange(0, 2).Draw(t, "lead") == 0 {
			ex, ey := float64(c.To[0]), float64(c.To[1])
			if c.Rel {
				ex, ey = ex+float64(c.Start[0]), ey+float64(c.Start[1])
			}
			sx := float64(c.Rect[2]) / (float64(c.ViewBox[2]) - float64(c.ViewBox[0]))
			sy := float64(c.Rect[3]) / (float64(c.ViewBox[3]) - float64(c.ViewBox[1]))
			d := rapid.SampledFrom([]float64{0, 1e-3, 0.01, 0.03, 0.06, 0.1, 0.2, 0.4, 1, 30}).Draw(t, "lead.px")
			a := rapid.Float64Range(0, 2*math.Pi).Draw(t, "lead.dir")
			c.Lead = &[2]ops.F32{ops.F32(float32(ex + d*math.Cos(a)/sx)), ops.F32(float32(ey + d*math.Sin(a)/sy))}
			leadNear = d < 1
		}
		nt, labels := classify(c)
		if c.Lead != nil {
			labels = append(labels, "arc-is-not-the-first-segment-of-its-sub-path")
			if leadNear {
				labels = append(labels, "arc-ends-within-a-pixel-of-the-sub-path-start")
			}
		}
		if c.Prelude {
			labels = append(labels, "earlier-path-with-another-rotation-then-a-zero-radius-arc-of-this-one")
		}
		if c.PreludeRel {
			labels = append(labels, "earlier-path-ends-with-a-relative-zero-radius-arc-and-a-line")
		}
		if c.EarlierSize != [2]int{} {
			labels = append(labels, "renderer-re-targeted-to-another-size-since-the-earlier-arc")
			if c.EarlierSize[0] == c.Rect[2] && c.EarlierSize[1] != c.Rect[3] || c.EarlierSize[1] == c.Rect[3] && c.EarlierSize[0] != c.Rect[2] {
				labels = append(labels, "re-targeted-with-one-side-unchanged")
			}
		}
		if math.Abs(float64(c.Rot)) > 100 {
			labels = append(labels, "rotation-of-many-whole-turns")
		}
		if c.PixelCircle {
			labels = append(labels, "ellipse-that-the-map-turns-into-a-circle-of-pixels")
		}
		if c.ViaBytes {
			labels = append(labels, "through-Decode-from-an-assembled-stream")
			if c.FlagsHigh != 0 {
				labels = append(labels, "file-whose-arc-flags-number-has-high-bits-set")
			}
			if c.Rot < 0 || c.Rot > 1 {
				labels = append(labels, "file-with-a-rotation-outside-[0,1]")
			}
		}
		if c.Idle > 100 {
			labels = append(labels, "renderer-reset-and-re-targeted-125-513-times-since-its-last-arc")
		}
		if c.Earlier != [2]int{} {
			labels = append(labels, "renderer-drew-the-reverse-arc-in-a-shifted-viewbox-before")
		}
		subArc.See(c, nt, harness.HashJSON(c), labels...)
		if c.Family == "construction-mismatch" {
			t.Fatalf("harness: constructed ellipse and F.6.5 disagree for %+v", c)
		}
		subArc.Run(t, c)
	})
	subArc.Label("ellipse-clauses-skipped:ill-conditioned-under-float32-pen", illConditionedCount)
	subArc.Label("no-verdict:end-points-closer-than-16-float32-steps-of-the-pen", indistinct)
	subArc.Label("earlier-arc-of-the-same-renderer-ended-on-the-bit-identical-pixel", earlierCoincides)
	subArc.Label("exact-half-turn-checked-against-chord-midpoint-ellipse", halfTurnExact)
	for f, n := range illByFamily {
		subArc.Label("ill-conditioned:family="+f, n)
	}
}

// The witness of the zero-radius defect found by reading (D1), and the four
// flag combinations on one fixed ellipse.
func TestArcTable(t *testing.T) {
	harness.OnlyFirstShard(t)
	c := Case{ViewBox: [4]ops.F32{0, 0, 10, 10}, Rect: [4]int{0, 0, 100, 200}, Start: [2]ops.F32{1, 1}, RX: 0, RY: 3, To: [2]ops.F32{5, 5}, Family: "zero-radius"}
	subArc.Run(t, c)
	for _, la := range []bool{false, true} {
		for _, sw := range []bool{false, true} {
			for _, rel := range []bool{false, true} {
				c := Case{ViewBox: [4]ops.F32{-32, -32, 32, 32}, Rect: [4]int{0, 0, 64, 128}, Start: [2]ops.F32{-10, 0}, RX: 12, RY: 7, Rot: 0.125, LargeArc: la, Sweep: sw, To: [2]ops.F32{8, 3}, Rel: rel, Family: "table"}
				subArc.Run(t, c)
			}
		}
	}
}
