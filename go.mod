module verif

go 1.23

require (
	github.com/reactivego/ivg v0.0.0
	pgregory.net/rapid v1.3.0
)

require golang.org/x/image v0.7.0

replace github.com/reactivego/ivg => /repo
